"""Manage /verif/seeded/<id>/ (independently written breaking changes).

  seeded.py ingest <src_dir> <id>      copy patch.diff, demo.py, meta.json from an agent's _out/k
  seeded.py confirm <id>...|--all      scratch worktree: patch -> suite baseline + demo FAIL; clean -> demo PASS
  seeded.py check <id>...|--all        run all 20 quick checks against a patched scratch copy, record which fire
  seeded.py matrix                     print the catch matrix (markdown)

Nothing is ever applied to /repo: scratch copies live under $TMPDIR and are removed.
"""
import json
import os
import shutil
import subprocess
import sys
import tempfile
import concurrent.futures as cf

VERIF = os.path.dirname(os.path.dirname(os.path.abspath(__file__)))
SEEDED = os.path.join(VERIF, 'seeded')
PY = '/venv/bin/python'
PROPS = [f'C{i:02d}' for i in range(1, 21)]


def sh(cmd, cwd=None, env=None, timeout=900):
    return subprocess.run(cmd, cwd=cwd, env=env, capture_output=True, text=True, timeout=timeout)


def ingest(src, sid):
    d = os.path.join(SEEDED, sid)
    os.makedirs(d, exist_ok=True)
    for f in ('patch.diff', 'demo.py', 'meta.json'):
        shutil.copy(os.path.join(src, f), os.path.join(d, f))
    m = json.load(open(os.path.join(d, 'meta.json')))
    m['id'] = sid
    m['origin'] = 'independent sub-agent (given only the property text and a scratch worktree)'
    json.dump(m, open(os.path.join(d, 'meta.json'), 'w'), indent=1)
    print('ingested', sid)


def scratch_worktree():
    d = tempfile.mkdtemp(prefix='aiuti-seeded-')
    os.rmdir(d)
    r = sh(['git', '-C', '/repo', 'worktree', 'add', '-q', '--detach', d, 'HEAD'])
    if r.returncode:
        raise RuntimeError(r.stderr)
    return d


def drop_worktree(d):
    sh(['git', '-C', '/repo', 'worktree', 'remove', '--force', d])
    shutil.rmtree(d, ignore_errors=True)


def confirm(sid):
    d = os.path.join(SEEDED, sid)
    wt = scratch_worktree()
    res = {}
    try:
        env = dict(os.environ, PYTHONPATH=wt)
        r = sh([PY, os.path.join(d, 'demo.py')], cwd=wt, env=env, timeout=120)
        res['demo_clean'] = {'exit': r.returncode, 'tail': (r.stdout + r.stderr).strip().splitlines()[-2:]}
        a = sh(['git', '-C', wt, 'apply', os.path.join(d, 'patch.diff')])
        res['applies'] = a.returncode == 0
        if a.returncode == 0:
            r = sh([PY, os.path.join(d, 'demo.py')], cwd=wt, env=env, timeout=120)
            res['demo_patched'] = {'exit': r.returncode, 'tail': (r.stdout + r.stderr).strip().splitlines()[-2:]}
            t = sh([PY, '-m', 'pytest', '-q', '-p', 'no:cacheprovider', '--timeout=900'], cwd=wt, env=env, timeout=900)
            res['suite_patched'] = (t.stdout.strip().splitlines() or [''])[-1]
        ok = (res.get('applies') and res['demo_clean']['exit'] == 0 and res['demo_patched']['exit'] != 0
              and '42 passed' in res.get('suite_patched', '') and '2 failed' in res.get('suite_patched', ''))
        res['confirmed'] = bool(ok)
    finally:
        drop_worktree(wt)
    m = json.load(open(os.path.join(d, 'meta.json')))
    m['confirmation'] = res
    m['what_i_ran'] = ('tools/seeded.py confirm: fresh scratch worktree of /repo HEAD; demo on clean tree (expect exit 0); '
                       'git apply patch.diff; demo (expect exit != 0); full pytest suite (expect 42 passed, 2 offline failures)')
    json.dump(m, open(os.path.join(d, 'meta.json'), 'w'), indent=1)
    print(sid, 'CONFIRMED' if res.get('confirmed') else 'NOT CONFIRMED', res)
    return res


def check(sid):
    d = os.path.join(SEEDED, sid)
    wt = scratch_worktree()
    out = {}
    try:
        a = sh(['git', '-C', wt, 'apply', os.path.join(d, 'patch.diff')])
        if a.returncode:
            print(sid, 'patch does not apply', a.stderr)
            return None
        evd = tempfile.mkdtemp(prefix='aiuti-seeded-ev-')

        def one(p):
            env = dict(os.environ, AIUTI_REPO=wt, AIUTI_EVIDENCE_DIR=evd, PYTHONPATH=VERIF)
            r = sh([PY, '-m', 'sa.check', p], cwd=VERIF, env=env, timeout=300)
            txt = r.stdout + r.stderr
            rules = sorted({ln.split('rule=')[1].split()[0] for ln in txt.splitlines() if ln.strip().startswith('violation rule=')})
            errs = [ln for ln in txt.splitlines() if ln.startswith('ANALYSIS-ERROR')]
            return p, r.returncode, rules, errs
        with cf.ThreadPoolExecutor(16) as ex:
            for p, rc, rules, errs in ex.map(one, PROPS):
                if rc != 0:
                    out[p] = {'exit': rc, 'rules': rules, 'errors': errs[:2]}
        shutil.rmtree(evd, ignore_errors=True)
    finally:
        drop_worktree(wt)
    m = json.load(open(os.path.join(d, 'meta.json')))
    m['checks_that_fire'] = out
    target = m.get('property')
    m['caught'] = bool(out.get(target, {}).get('exit') == 1) or any(v['exit'] == 1 for v in out.values())
    m['caught_by_target_property'] = out.get(target, {}).get('exit') == 1
    json.dump(m, open(os.path.join(d, 'meta.json'), 'w'), indent=1)
    print(sid, 'target', target, 'caught' if m['caught'] else 'MISSED', json.dumps(out))
    return out


def matrix():
    rows = []
    for sid in sorted(os.listdir(SEEDED)):
        mp = os.path.join(SEEDED, sid, 'meta.json')
        if not os.path.exists(mp):
            continue
        m = json.load(open(mp))
        fired = m.get('checks_that_fire', {})
        cell = '; '.join(f'{p}: {"/".join(v["rules"]) or ("exit " + str(v["exit"]))}' for p, v in fired.items()) or '-'
        rows.append(f'| {sid} | {m.get("property")} | {m.get("summary", "")[:110].replace("|", "/")} | '
                    f'{"yes" if m.get("confirmation", {}).get("confirmed") else "no"} | {"caught" if m.get("caught") else "MISSED"} | {cell} |')
    print('| id | property | change | confirmed | result | checks that fire (rules) |')
    print('|---|---|---|---|---|---|')
    print('\n'.join(rows))


def main(a):
    if a[0] == 'ingest':
        ingest(a[1], a[2])
    elif a[0] in ('confirm', 'check'):
        ids = sorted(os.listdir(SEEDED)) if a[1] == '--all' else a[1:]
        for sid in ids:
            (confirm if a[0] == 'confirm' else check)(sid)
    elif a[0] == 'matrix':
        matrix()


if __name__ == '__main__':
    main(sys.argv[1:])
