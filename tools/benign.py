"""Independent behaviour-preserving refactorings (/verif/benign/<id>/): every check must stay silent.

  benign.py ingest <src_dir> <id>
  benign.py check <id>...|--all     apply to a scratch worktree, (optionally) run the suite, run all 20 quick checks
  benign.py table
"""
import json, os, shutil, sys, tempfile
import concurrent.futures as cf
sys.path.insert(0, os.path.dirname(os.path.abspath(__file__)))
from seeded import sh, scratch_worktree, drop_worktree, VERIF, PY, PROPS

BENIGN = os.path.join(VERIF, 'benign')


def ingest(src, bid):
    d = os.path.join(BENIGN, bid)
    os.makedirs(d, exist_ok=True)
    shutil.copy(os.path.join(src, 'patch.diff'), os.path.join(d, 'patch.diff'))
    if os.path.exists(os.path.join(src, 'note.txt')):
        shutil.copy(os.path.join(src, 'note.txt'), os.path.join(d, 'note.txt'))
    print('ingested', bid)


def check(bid, run_suite=True):
    d = os.path.join(BENIGN, bid)
    wt = scratch_worktree()
    res = {'id': bid}
    try:
        a = sh(['git', '-C', wt, 'apply', os.path.join(d, 'patch.diff')])
        res['applies'] = a.returncode == 0
        if a.returncode:
            print(bid, 'patch does not apply', a.stderr[:200])
            return res
        if run_suite:
            env = dict(os.environ, PYTHONPATH=wt)
            t = sh([PY, '-m', 'pytest', '-q', '-p', 'no:cacheprovider', '--timeout=900'], cwd=wt, env=env, timeout=900)
            res['suite'] = (t.stdout.strip().splitlines() or [''])[-1]
        evd = tempfile.mkdtemp(prefix='aiuti-benign-ev-')

        def one(p):
            env = dict(os.environ, AIUTI_REPO=wt, AIUTI_EVIDENCE_DIR=evd, PYTHONPATH=VERIF)
            r = sh([PY, '-m', 'sa.check', p], cwd=VERIF, env=env, timeout=300)
            txt = r.stdout + r.stderr
            lines = [ln.strip() for ln in txt.splitlines() if ln.strip().startswith('violation rule=') or ln.startswith('ANALYSIS-ERROR')]
            return p, r.returncode, lines
        alarms = {}
        with cf.ThreadPoolExecutor(16) as ex:
            for p, rc, lines in ex.map(one, PROPS):
                if rc != 0:
                    alarms[p] = {'exit': rc, 'lines': [l[:300] for l in lines[:4]]}
        shutil.rmtree(evd, ignore_errors=True)
        res['alarms'] = alarms
    finally:
        drop_worktree(wt)
    json.dump(res, open(os.path.join(d, 'result.json'), 'w'), indent=1)
    print(bid, res.get('suite', ''), 'SILENT' if not res.get('alarms') else 'ALARM ' + json.dumps(res['alarms'])[:700])
    return res


def table():
    print('| id | refactoring | suite | checks |')
    print('|---|---|---|---|')
    for bid in sorted(os.listdir(BENIGN)):
        d = os.path.join(BENIGN, bid)
        rp = os.path.join(d, 'result.json')
        if not os.path.exists(rp):
            continue
        r = json.load(open(rp))
        note = ''
        if os.path.exists(os.path.join(d, 'note.txt')):
            note = open(os.path.join(d, 'note.txt')).read().strip().splitlines()[0][:120].replace('|', '/')
        al = r.get('alarms') or {}
        print(f'| {bid} | {note} | {r.get("suite", "")} | {"silent" if not al else "; ".join(f"{p}: exit {v[chr(101)+chr(120)+chr(105)+chr(116)]}" for p, v in al.items())} |')


if __name__ == '__main__':
    a = sys.argv[1:]
    if a[0] == 'ingest':
        ingest(a[1], a[2])
    elif a[0] == 'check':
        ids = sorted(os.listdir(BENIGN)) if a[1] == '--all' else [x for x in a[1:] if not x.startswith('--')]
        for b in ids:
            check(b, run_suite='--no-suite' not in a)
    elif a[0] == 'table':
        table()
