"""Build sub-agent prompts (seeded breaks / benign refactorings) and their scratch worktrees.

  mkprompt.py seed <Cxx> <tag> [n]      -> /tmp/wt/<tag> worktree + /tmp/wt/<tag>.prompt.txt
  mkprompt.py benign <tag> <area-file> <style-file> -> same for a refactoring agent

The seeded prompt contains only the property text and one-line summaries of what earlier agents tried
(their own meta.json summaries); nothing else from /verif."""
import json
import os
import subprocess
import sys

VERIF = os.path.dirname(os.path.dirname(os.path.abspath(__file__)))
WT = '/tmp/wt'


def worktree(tag):
    d = os.path.join(WT, tag)
    if not os.path.exists(d):
        subprocess.run(['git', '-C', '/repo', 'worktree', 'add', '--detach', d, 'HEAD'], check=True, capture_output=True)
    return d


def prop_text(pid):
    for l in open(os.path.join(VERIF, 'properties.jsonl')):
        d = json.loads(l)
        if d['id'] == pid:
            return (f"PROPERTY {pid}: {d['title']}\n\nStatement: {d['statement']}\n\nQuantified over: {d['quantifier']['text']}\n\n"
                    f"Why the existing tests cannot settle it: {d['why_tests_cant']}\n\nCode anchors (files / mechanisms): {json.dumps(d['anchors'])}")
    raise SystemExit('no such property')


def tried(pid):
    out = []
    sd = os.path.join(VERIF, 'seeded')
    for sid in sorted(os.listdir(sd)):
        mp = os.path.join(sd, sid, 'meta.json')
        if not os.path.exists(mp):
            continue
        m = json.load(open(mp))
        if (m.get('property') or sid[:3]) == pid or sid.startswith(pid):
            out.append('  - ' + ' '.join(str(m.get('summary', '')).split())[:330])
    return out


def seed(pid, tag, n=3):
    d = worktree(tag)
    t = open(os.path.join(VERIF, 'notes', 'prompt_template.txt')).read()
    words = {2: 'TWO', 3: 'THREE', 4: 'FOUR'}[n]
    t = t.replace('produce TWO different', f'produce {words} different').replace('For each change k in {1, 2}', 'For each change k in {' + ', '.join(map(str, range(1, n + 1))) + '}')
    t = t.replace('The two changes must', f'The {words.lower()} changes must')
    extra = ''
    tr = tried(pid)
    if tr:
        extra = ('\n\nIMPORTANT - be inventive. Other people have already tried the following ideas for this property; do NOT repeat them or close variants of them:\n'
                 + '\n'.join(tr) +
                 "\nAlso avoid the most obvious moves (simply deleting a lock / a `finally` / a guard / a re-check, or inverting the main condition). "
                 "Prefer subtler semantic slips that a reviewer would wave through: an off-by-one or wrong comparison operator in a rarely taken branch, using a stale/captured value "
                 "instead of a fresh one, the right call on the wrong object or with swapped arguments, a changed order of two statements that only matters under a particular interleaving "
                 "or failure, an exception class narrowed or widened, an early return / continue that skips bookkeeping only in a corner case, state updated before instead of after a "
                 "fallible step, a helper introduced that subtly changes which code is protected, a default or constant changed so that an option is silently ignored in one code path, "
                 "an 'optimisation' (fast path, caching of a value, hoisting) that is only valid most of the time, a new small feature or robustness tweak with an unintended side effect.\n")
    t = t.replace('{PROP}', prop_text(pid) + extra).replace('{WT}', d)
    open(os.path.join(WT, tag + '.prompt.txt'), 'w').write(t)
    print(os.path.join(WT, tag + '.prompt.txt'))


def benign(tag, area, style, template='refactor_template.txt'):
    d = worktree(tag)
    t = open(os.path.join(VERIF, 'notes', template)).read()
    t = t.replace('{AREA}', area)
    if style:
        t = t.replace('Produce FIVE different, independent refactorings of that code.', 'Produce FIVE different, independent refactorings of that code. ' + style, 1)
        t = t.replace('Produce FIVE different, independent pull requests for that code.', 'Produce FIVE different, independent pull requests for that code. ' + style, 1)
    t = t.replace('{WT}', d)
    open(os.path.join(WT, tag + '.prompt.txt'), 'w').write(t)
    print(os.path.join(WT, tag + '.prompt.txt'))


if __name__ == '__main__':
    a = sys.argv[1:]
    if a[0] == 'seed':
        seed(a[1], a[2], int(a[3]) if len(a) > 3 else 3)
    else:
        benign(a[1], open(a[2]).read().strip(), open(a[3]).read().strip() if len(a) > 3 else '', a[4] if len(a) > 4 else 'refactor_template.txt')
