"""Systematic mutation sweep used to *measure the checker* (never to decide a property).

  mutate.py gen                      enumerate mutants of /repo/aiuti/{asyncio,filelock,itertools,parsing}.py
  mutate.py sweep [--jobs N]         for each mutant: compile, run all 20 quick checks on a scratch copy;
                                     for mutants no check reports, run the repo's test-suite on the copy
  mutate.py report                   summary table (per operator / per function)
  mutate.py show <mid>               print the diff of one mutant

Results: /verif/mutants/results.jsonl (one line per mutant: id, file, function, operator, line,
before/after text, checks that fire, suite verdict).  Scratch copies live under $TMPDIR and are removed.

A mutant that (a) compiles, (b) passes the unedited test-suite and (c) is reported by no check is either an
equivalent mutant or a gap of the checker: those are the ones triaged by hand (mutants/triage.json).
"""
from __future__ import annotations

import ast
import concurrent.futures as cf
import copy
import hashlib
import json
import os
import shutil
import subprocess
import sys
import tempfile

VERIF = os.path.dirname(os.path.dirname(os.path.abspath(__file__)))
REPO = os.environ.get('AIUTI_MUT_REPO', '/repo')
OUT = os.path.join(VERIF, 'mutants')
PY = '/venv/bin/python'
FILES = ['aiuti/asyncio.py', 'aiuti/filelock.py', 'aiuti/itertools.py', 'aiuti/parsing.py']
PROPS = [f'C{i:02d}' for i in range(1, 21)]

CMP_SWAP = {ast.Lt: ast.LtE, ast.LtE: ast.Lt, ast.Gt: ast.GtE, ast.GtE: ast.Gt, ast.Eq: ast.NotEq, ast.NotEq: ast.Eq,
            ast.Is: ast.IsNot, ast.IsNot: ast.Is, ast.In: ast.NotIn, ast.NotIn: ast.In}
CMP_FLIP = {ast.Lt: ast.Gt, ast.Gt: ast.Lt, ast.LtE: ast.GtE, ast.GtE: ast.LtE}
METHOD_SWAP = {'set': 'clear', 'clear': 'set', 'acquire': 'release', 'release': 'acquire', 'append': 'extend',
               'put_nowait': 'put', 'call_soon_threadsafe': 'call_soon', 'call_soon': 'call_soon_threadsafe',
               'set_result': 'set_exception', 'set_exception': 'set_result', 'is_running': 'is_closed',
               'is_closed': 'is_running', 'popleft': 'pop', 'add': 'discard', 'update': 'difference_update',
               'task_done': 'join', 'done': 'cancelled', 'get_nowait': 'get', 'create_task': 'ensure_future',
               'wait_for': 'shield', 'split': 'rsplit', 'partition': 'rpartition'}
EXC_SWAP = {'BaseException': ['Exception'], 'Exception': ['BaseException', 'ValueError'], 'KeyError': ['Exception', 'LookupError'],
            'OSError': ['Exception', 'IOError', 'PermissionError'], 'IOError': ['Exception'], 'ValueError': ['Exception', 'TypeError'],
            'TimeoutError': ['Exception'], 'CancelledError': ['Exception'], 'RuntimeError': ['Exception'],
            'QueueEmpty': ['Exception'], 'AioQueueEmpty': ['Exception']}


def _is_doc(stmt, parent_body):
    return (isinstance(stmt, ast.Expr) and isinstance(stmt.value, ast.Constant) and isinstance(stmt.value.value, str))


class Mut:
    __slots__ = ('file', 'func', 'op', 'node', 'new_src', 'line', 'end', 'desc')


def seg(src_lines, node):
    """(start_offset, end_offset) of node in the joined source."""
    return node.lineno, node.col_offset, node.end_lineno, node.end_col_offset


def offsets(src):
    offs = [0]
    for ln in src.splitlines(keepends=True):
        offs.append(offs[-1] + len(ln.encode('utf-8')))
    return offs


def enum_mutants(rel, src):
    tree = ast.parse(src)
    bsrc = src.encode('utf-8')
    offs = offsets(src)

    def span(n):
        return offs[n.lineno - 1] + n.col_offset, offs[n.end_lineno - 1] + n.end_col_offset

    def text(n):
        a, b = span(n)
        return bsrc[a:b].decode('utf-8')

    out = []

    def emit(func, op, node, new_text, desc=None, rng=None):
        a, b = rng or span(node)
        old = bsrc[a:b].decode('utf-8')
        if new_text == old:
            return
        new = (bsrc[:a] + new_text.encode('utf-8') + bsrc[b:]).decode('utf-8')
        out.append({'file': rel, 'func': func, 'op': op, 'line': node.lineno, 'before': old[:200], 'after': new_text[:200],
                    'desc': desc or '', '_new': new})

    def indent_of(n):
        a = offs[n.lineno - 1]
        return ' ' * n.col_offset if bsrc[a:a + n.col_offset].strip() == b'' else None

    def block_text(stmts, ind):
        # re-indent the statements of a block to indentation `ind` (they share one indentation)
        first = stmts[0]
        a = offs[first.lineno - 1]
        b = span(stmts[-1])[1]
        chunk = bsrc[a:b].decode('utf-8')
        cur = first.col_offset
        lines = chunk.split('\n')
        res = []
        for ln in lines:
            if ln.strip() == '':
                res.append(ln)
            elif ln.startswith(' ' * cur):
                res.append(ind + ln[cur:])
            else:
                return None      # continuation lines indented less than the block: give up
        return '\n'.join(res)

    def walk(node, func):
        for field, value in ast.iter_fields(node):
            if isinstance(value, list):
                if value and isinstance(value[0], ast.stmt):
                    visit_block(value, func, node)
                for v in value:
                    if isinstance(v, ast.AST):
                        visit(v, func)
            elif isinstance(value, ast.AST):
                visit(value, func)

    def visit_block(stmts, func, parent):
        body = [s for s in stmts if not _is_doc(s, stmts)]
        for i, s in enumerate(body):
            ind = indent_of(s)
            if ind is None:
                continue
            simple = isinstance(s, (ast.Expr, ast.Assign, ast.AugAssign, ast.AnnAssign, ast.Delete, ast.Raise, ast.Return,
                                    ast.Break, ast.Continue))
            if simple and not (isinstance(s, ast.AnnAssign) and s.value is None):
                emit(func, 'del-stmt', s, 'pass')
            if isinstance(s, ast.Return) and s.value is not None and not (isinstance(s.value, ast.Constant)):
                pass
            if isinstance(s, ast.Break):
                emit(func, 'break-continue', s, 'continue')
            if isinstance(s, ast.Continue):
                emit(func, 'break-continue', s, 'break')
            # swap with the next simple statement
            if i + 1 < len(body):
                t = body[i + 1]
                if all(isinstance(x, (ast.Expr, ast.Assign, ast.AugAssign, ast.Delete, ast.Raise, ast.Return, ast.If, ast.With,
                                      ast.For, ast.While, ast.Try, ast.AsyncWith, ast.AsyncFor)) for x in (s, t)) \
                        and indent_of(t) is not None and s.end_lineno < t.lineno:
                    a0 = offs[s.lineno - 1]
                    a1 = span(s)[1]
                    b0 = offs[t.lineno - 1]
                    b1 = span(t)[1]
                    s_txt = bsrc[a0:a1].decode()
                    t_txt = bsrc[b0:b1].decode()
                    mid = bsrc[a1:b0].decode()
                    if not isinstance(s, ast.Return) and not isinstance(s, ast.Raise):
                        emit(func, 'swap-stmts', s, t_txt + mid + s_txt, rng=(a0, b1))
            # unwrap `with`
            if isinstance(s, (ast.With, ast.AsyncWith)):
                bt = block_text(s.body, ind)
                if bt is not None:
                    emit(func, 'unwrap-with', s, bt.lstrip(' '), desc='with removed', rng=(span(s)[0], span(s)[1]))
            # try: drop finally / drop handlers
            if isinstance(s, ast.Try):
                if s.finalbody:
                    # remove the finally clause (keep the rest)
                    fb = s.finalbody
                    # find 'finally:' line start: the line before first finalbody stmt that contains 'finally'
                    ln = fb[0].lineno - 1
                    while ln > 0 and not bsrc[offs[ln - 1]:offs[ln]].decode().strip().startswith('finally'):
                        ln -= 1
                    fa = offs[ln - 1]
                    fbend = span(fb[-1])[1]
                    if s.handlers:
                        emit(func, 'drop-finally', s, '', rng=(fa - 1 if fa > 0 else fa, fbend))
                    else:
                        bt = block_text(s.body, ind)
                        if bt is not None:
                            emit(func, 'drop-finally', s, bt.lstrip(' '), rng=(span(s)[0], span(s)[1]))
                    # move finally body into else-only position (runs only on success)
                    bt_body = block_text(s.body, ind)
                    bt_fin = block_text(fb, ind)
                    if not s.handlers and not s.orelse and bt_body is not None and bt_fin is not None:
                        emit(func, 'finally-to-sequel', s, bt_body.lstrip(' ') + '\n' + bt_fin, rng=(span(s)[0], span(s)[1]))
                for h in s.handlers:
                    if len(s.handlers) > 1 or s.finalbody:
                        ha = offs[h.lineno - 1]
                        hb = span(h)[1]
                        emit(func, 'drop-handler', h, '', rng=(ha - 1, hb))
                    # handler body -> raise
                    hind = indent_of(h.body[0])
                    if hind is not None and not (len(h.body) == 1 and isinstance(h.body[0], ast.Raise)):
                        emit(func, 'handler-reraise', h.body[0], 'raise', rng=(span(h.body[0])[0], span(h.body[-1])[1]))
                    if len(h.body) == 1 and isinstance(h.body[0], ast.Raise) and h.body[0].exc is None:
                        emit(func, 'handler-swallow', h.body[0], 'pass')
                    # handler class changes
                    if h.type is None:
                        a = offs[h.lineno - 1] + h.col_offset
                        emit(func, 'handler-class', h, 'except Exception', rng=(a, a + len('except')))
                    else:
                        elts = h.type.elts if isinstance(h.type, ast.Tuple) else [h.type]
                        if isinstance(h.type, ast.Tuple) and len(elts) > 1:
                            for k in range(len(elts)):
                                rest = [text(e) for j, e in enumerate(elts) if j != k]
                                emit(func, 'handler-class', h.type, '(' + ', '.join(rest) + ',)' if len(rest) == 1 else '(' + ', '.join(rest) + ')',
                                     desc=f'drop {text(elts[k])}')
                        for e in elts:
                            nm = text(e).split('.')[-1]
                            for alt in EXC_SWAP.get(nm, []):
                                emit(func, 'handler-class', e, alt, desc=f'{text(e)} -> {alt}')
                if s.orelse and s.handlers:
                    # else-block moved into the try body
                    pass
            if isinstance(s, ast.If):
                # drop the whole else branch / force branches
                if s.orelse and not (len(s.orelse) == 1 and isinstance(s.orelse[0], ast.If)):
                    pass

    def visit(node, func):
        if isinstance(node, (ast.FunctionDef, ast.AsyncFunctionDef)):
            f2 = (func + '.' if func else '') + node.name
            # decorators untouched
            for d in node.args.defaults + node.args.kw_defaults:
                if d is not None:
                    visit(d, f2)
            visit_block(node.body, f2, node)
            for s in node.body:
                visit(s, f2)
            return
        if isinstance(node, ast.ClassDef):
            f2 = (func + '.' if func else '') + node.name
            for s in node.body:
                visit(s, f2)
            return
        if not func:
            # module level: only descend into defs/classes
            if isinstance(node, (ast.If, ast.Try)):
                walk(node, func)
            return
        # expression / statement level operators
        if isinstance(node, (ast.If, ast.While)):
            emit(func, 'negate-cond', node.test, f'not ({text(node.test)})')
            emit(func, 'cond-true', node.test, 'True') if isinstance(node, ast.If) else None
            emit(func, 'cond-false', node.test, 'False')
        if isinstance(node, ast.IfExp):
            emit(func, 'negate-cond', node.test, f'not ({text(node.test)})')
        if isinstance(node, ast.Assert):
            pass
        if isinstance(node, ast.Compare) and len(node.ops) >= 1:
            for k, o in enumerate(node.ops):
                alt = CMP_SWAP.get(type(o))
                if alt:
                    n2 = copy.deepcopy(node)
                    n2.ops[k] = alt()
                    emit(func, 'cmp-op', node, ast.unparse(n2))
                alt = CMP_FLIP.get(type(o))
                if alt:
                    n2 = copy.deepcopy(node)
                    n2.ops[k] = alt()
                    emit(func, 'cmp-flip', node, ast.unparse(n2))
        if isinstance(node, ast.BoolOp):
            n2 = copy.deepcopy(node)
            n2.op = ast.Or() if isinstance(node.op, ast.And) else ast.And()
            emit(func, 'and-or', node, ast.unparse(n2))
            for k in range(len(node.values)):
                if len(node.values) == 2:
                    emit(func, 'drop-operand', node, text(node.values[1 - k]), desc=f'drop {text(node.values[k])[:40]}')
        if isinstance(node, ast.UnaryOp) and isinstance(node.op, ast.Not):
            emit(func, 'drop-not', node, text(node.operand))
        if isinstance(node, ast.Constant):
            v = node.value
            if v is True:
                emit(func, 'const', node, 'False')
            elif v is False:
                emit(func, 'const', node, 'True')
            elif isinstance(v, int) and not isinstance(v, bool):
                emit(func, 'const', node, str(v + 1))
                if v != 0:
                    emit(func, 'const', node, '0')
            elif isinstance(v, float):
                emit(func, 'const', node, repr(v * 2))
            elif v is None:
                pass
        if isinstance(node, ast.BinOp):
            sw = {ast.Add: ast.Sub, ast.Sub: ast.Add, ast.BitOr: ast.BitAnd, ast.Mult: ast.Add}
            alt = sw.get(type(node.op))
            if alt:
                n2 = copy.deepcopy(node)
                n2.op = alt()
                emit(func, 'binop', node, ast.unparse(n2))
            emit(func, 'binop-left', node, text(node.left))
            emit(func, 'binop-right', node, text(node.right))
        if isinstance(node, ast.Await):
            # `await f(x)` -> drop the await when used as a statement is a never-awaited coroutine; keep as operator
            par = getattr(node, '_parent', None)
            # await shield(x) etc. handled by unwrap-call
        if isinstance(node, ast.Call):
            if isinstance(node.func, ast.Attribute) and node.func.attr in METHOD_SWAP:
                n2 = copy.deepcopy(node)
                n2.func.attr = METHOD_SWAP[node.func.attr]
                a, b = span(node.func)
                emit(func, 'method-swap', node.func, text(node.func.value) + '.' + METHOD_SWAP[node.func.attr],
                     desc=f'{node.func.attr} -> {METHOD_SWAP[node.func.attr]}')
            if len(node.args) == 1 and not node.keywords and not isinstance(node.args[0], ast.Starred):
                emit(func, 'unwrap-call', node, text(node.args[0]), desc=f'{text(node.func)}(x) -> x')
            for k, kw in enumerate(node.keywords):
                n2 = copy.deepcopy(node)
                del n2.keywords[k]
                emit(func, 'drop-keyword', node, ast.unparse(n2), desc=f'drop {kw.arg}=')
            if len(node.args) >= 2 and not any(isinstance(a, ast.Starred) for a in node.args):
                n2 = copy.deepcopy(node)
                n2.args[0], n2.args[1] = n2.args[1], n2.args[0]
                emit(func, 'swap-args', node, ast.unparse(n2))
            if len(node.args) >= 2 and not any(isinstance(a, ast.Starred) for a in node.args):
                n2 = copy.deepcopy(node)
                del n2.args[-1]
                emit(func, 'drop-arg', node, ast.unparse(n2))
        if isinstance(node, ast.Return) and node.value is not None:
            if isinstance(node.value, ast.Await):
                pass
        if isinstance(node, ast.Subscript) and isinstance(node.slice, ast.Constant) and isinstance(node.slice.value, int):
            pass  # covered by const
        if isinstance(node, ast.Tuple) and len(node.elts) == 2 and isinstance(getattr(node, 'ctx', None), ast.Load):
            n2 = copy.deepcopy(node)
            n2.elts.reverse()
            emit(func, 'swap-tuple', node, ast.unparse(n2))
        walk(node, func)

    for s in tree.body:
        visit(s, '')
    # de-duplicate identical results
    seen = set()
    uniq = []
    for m in out:
        h = hashlib.sha1(m['_new'].encode()).hexdigest()
        if h in seen:
            continue
        seen.add(h)
        try:
            compile(m['_new'], rel, 'exec')
        except SyntaxError:
            continue
        # ast-identical to the original?  skip
        try:
            if ast.dump(ast.parse(m['_new'])) == ast.dump(tree):
                continue
        except SyntaxError:
            continue
        m['hash'] = h[:10]
        uniq.append(m)
    return uniq


def gen():
    allm = []
    for rel in FILES:
        src = open(os.path.join(REPO, rel)).read()
        ms = enum_mutants(rel, src)
        allm.extend(ms)
    for i, m in enumerate(allm):
        m['id'] = f'M{i:04d}'
    return allm


def sh(cmd, cwd=None, env=None, timeout=900):
    return subprocess.run(cmd, cwd=cwd, env=env, capture_output=True, text=True, timeout=timeout)


def scratch_copy(m):
    d = tempfile.mkdtemp(prefix='aiuti-mut-')
    os.rmdir(d)
    shutil.copytree(REPO, d, ignore=shutil.ignore_patterns('.git', '__pycache__', '*.egg-info', '.pytest_cache'))
    with open(os.path.join(d, m['file']), 'w') as f:
        f.write(m['_new'])
    return d


def run_one(m, with_suite=True):
    d = scratch_copy(m)
    res = {k: v for k, v in m.items() if k != '_new'}
    try:
        evd = tempfile.mkdtemp(prefix='aiuti-mut-ev-')
        env = dict(os.environ, AIUTI_REPO=d, AIUTI_EVIDENCE_DIR=evd, PYTHONPATH=VERIF)
        r = sh([PY, '-m', 'sa.check', '--all'], cwd=VERIF, env=env, timeout=600)
        txt = r.stdout + r.stderr
        fired = {}
        cur = None
        for ln in txt.splitlines():
            s = ln.strip()
            if s.startswith('violation rule='):
                rule = s.split('rule=')[1].split()[0]
                fired.setdefault(rule.split('-')[0], set()).add(rule)
            elif s.startswith('VIOLATION property='):
                p = s.split('property=')[1].split()[0]
                fired.setdefault(p, set())
        errs = sorted({ln.split()[1] if len(ln.split()) > 1 else ln for ln in txt.splitlines() if ln.startswith('ANALYSIS-ERROR')})
        res['exit'] = r.returncode
        res['fired'] = {p: sorted(v) for p, v in fired.items()}
        res['errors'] = [ln[:200] for ln in txt.splitlines() if ln.startswith('ANALYSIS-ERROR')][:3]
        shutil.rmtree(evd, ignore_errors=True)
        if with_suite and r.returncode == 0:
            env2 = dict(os.environ, PYTHONPATH=d)
            try:
                t = sh([PY, '-m', 'pytest', '-q', '-x', '-p', 'no:cacheprovider', '--timeout=120',
                        '--deselect', 'aiuti/asyncio.py::aiuti.asyncio.to_async_iter',
                        '--deselect', 'aiuti/asyncio.py::aiuti.asyncio.to_sync_iter'], cwd=d, env=env2, timeout=600)
                last = (t.stdout.strip().splitlines() or [''])[-1]
                res['suite'] = 'pass' if ('42 passed' in last and 'failed' not in last) else 'fail'
                res['suite_tail'] = last[:120]
            except subprocess.TimeoutExpired:
                res['suite'] = 'timeout'
    finally:
        shutil.rmtree(d, ignore_errors=True)
    return res


def sweep(jobs=16, only=None):
    os.makedirs(OUT, exist_ok=True)
    ms = gen()
    if only:
        ms = [m for m in ms if m['id'] in only]
    print(len(ms), 'mutants', file=sys.stderr)
    path = os.path.join(OUT, 'results.jsonl')
    done = 0
    with cf.ThreadPoolExecutor(jobs) as ex, open(path, 'w' if not only else 'a') as f:
        for res in ex.map(run_one, ms):
            f.write(json.dumps(res) + '\n')
            f.flush()
            done += 1
            if done % 100 == 0:
                print(done, file=sys.stderr)


def recheck(jobs=16, everything=False):
    """Re-run only the checks (no suite) on the mutants that were silent and passed the suite (or on all of them)."""
    rs = load()
    todo = {r['id'] for r in rs if r['exit'] != 1 and r.get('suite', 'pass') == 'pass'} | {r['id'] for r in rs if r['exit'] == 2}
    if everything:
        todo = {r['id'] for r in rs}
    before = {r['id']: r['exit'] for r in rs}
    ms = {m['id']: m for m in gen()}
    out = {}
    with cf.ThreadPoolExecutor(jobs) as ex:
        for res in ex.map(lambda i: run_one(ms[i], with_suite=False), sorted(todo)):
            out[res['id']] = res
    path = os.path.join(OUT, 'results.jsonl')
    with open(path, 'w') as f:
        for r in rs:
            if r['id'] in out:
                n = out[r['id']]
                r['exit'], r['fired'], r['errors'] = n['exit'], n['fired'], n['errors']
            f.write(json.dumps(r) + '\n')
    for r in rs:
        if before[r['id']] != r['exit']:
            print('changed', r['id'], before[r['id']], '->', r['exit'], r['op'], r.get('suite'), r['func'], r['line'])


def load():
    return [json.loads(l) for l in open(os.path.join(OUT, 'results.jsonl'))]


def report():
    rs = load()
    n = len(rs)
    caught = [r for r in rs if r['exit'] == 1]
    err = [r for r in rs if r['exit'] == 2]
    silent = [r for r in rs if r['exit'] == 0]
    sp = [r for r in silent if r.get('suite') == 'pass']
    print(f'{n} mutants: {len(caught)} reported (exit 1), {len(err)} analysis-error (exit 2), {len(silent)} silent; '
          f'of the silent ones {len(sp)} also pass the test-suite')
    by = {}
    for r in rs:
        k = r['op']
        b = by.setdefault(k, [0, 0, 0, 0])
        b[0] += 1
        b[1] += r['exit'] == 1
        b[2] += r['exit'] == 2
        b[3] += r['exit'] == 0 and r.get('suite') == 'pass'
    print('| operator | mutants | reported | analysis-error | silent and suite passes |')
    print('|---|---|---|---|---|')
    for k, b in sorted(by.items()):
        print(f'| {k} | {b[0]} | {b[1]} | {b[2]} | {b[3]} |')


def show(mid):
    for m in gen():
        if m['id'] == mid:
            import difflib
            old = open(os.path.join(REPO, m['file'])).read()
            sys.stdout.writelines(difflib.unified_diff(old.splitlines(True), m['_new'].splitlines(True), m['file'], m['file'], n=4))
            return


if __name__ == '__main__':
    a = sys.argv[1:]
    if a[0] == 'gen':
        ms = gen()
        print(len(ms))
        from collections import Counter
        print(Counter(m['op'] for m in ms))
    elif a[0] == 'sweep':
        jobs = int(a[a.index('--jobs') + 1]) if '--jobs' in a else 16
        only = set(x for x in a[1:] if x.startswith('M')) or None
        sweep(jobs, only)
    elif a[0] == 'recheck':
        recheck(int(a[a.index('--jobs') + 1]) if '--jobs' in a else 16, everything='--all' in a)
    elif a[0] == 'report':
        report()
    elif a[0] == 'show':
        show(a[1])
