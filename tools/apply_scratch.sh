#!/bin/sh
# usage: apply_scratch.sh <patch> -> prints scratch dir (copy of /repo/aiuti with the patch applied)
d=$(mktemp -d /tmp/aiuti-scratch-XXXXXX)
mkdir -p $d/aiuti && cp /repo/aiuti/*.py $d/aiuti/ && (cd $d && git init -q . 2>/dev/null; git apply --unsafe-paths "$1" 2>/dev/null || patch -p1 -s < "$1") && echo $d
