"""Regenerate /verif/MANIFEST.json from the table below + the rule registry."""
import json, os, sys
sys.path.insert(0, os.path.dirname(os.path.dirname(os.path.abspath(__file__))))
from sa import check
from sa.manifest_text import TEXT

check._register()
props = [json.loads(l) for l in open(os.path.join(os.path.dirname(__file__), '..', 'properties.jsonl'))]
checks = []
na = []
for p in props:
    pid = p['id']
    if pid in check.REGISTRY and pid in TEXT:
        t = TEXT[pid]
        checks.append({
            'property_id': pid,
            'quick_cmd': f'/venv/bin/python -m sa.check {pid}',
            'thorough_cmd': f'/venv/bin/python -m sa.check {pid} --thorough',
            'evidence_file': f'/verif/evidence/{pid}.json',
            'replay_cmd_template': '/venv/bin/python -m sa.check --replay {path}',
            'engine': 'sa',
            'level_claimed': {'category': 'other', 'text': t['level'], 'design_ref': t['ref']},
            'level_note': t['note'],
            'technique': t['technique'],
        })
    else:
        na.append({'property_id': pid, 'reason': TEXT.get(pid, {}).get('na', 'check not built yet (work in progress)')})
m = {
    'version': 1,
    'setup_cmd': '/venv/bin/python -m compileall -q sa',
    'hooks': {'guard': 'AIUTI_VERIF',
              'enable': 'none needed: no check imports or executes anything from /repo; sources are parsed',
              'baseline_off_cmd': 'cd /repo && /venv/bin/python -m pytest -ra -q -p no:cacheprovider --timeout=900 --continue-on-collection-errors',
              'source_commits': [], 'add_only': True},
    'engines': [{'name': 'sa', 'path': '/verif/sa',
                 'serves_properties': [c['property_id'] for c in checks],
                 'kind_free_text': 'purpose-built static analyser (stdlib ast/symtable/dis): binder with role discovery, '
                                   'CFG with typed exception and cancellation edges, flag-sensitive path queries, '
                                   'held-lock dataflow, symbolic value provenance, small abstract domains'}],
    'checks': checks,
    'notes': 'Static analysis only. Exit 0 = all obligations hold (KNOWN-FINDING lines for recorded defects); '
             'exit 1 + VIOLATION line = new violation; exit 2 + ANALYSIS-ERROR = the analysis could not be carried out '
             '(vanished subject / unknown shape), never a verdict. Known findings: /verif/known_findings.json. '
             'Fix commits in /repo: e05c49b f933c6c 8b3d7b0 b90500c.',
    'not_applicable': na,
}
json.dump(m, open(os.path.join(os.path.dirname(__file__), '..', 'MANIFEST.json'), 'w'), indent=1)
print(len(checks), 'checks,', len(na), 'not applicable')
