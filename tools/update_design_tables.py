"""Regenerate the two long tables of DESIGN.md (seeded matrix in 9.5, refactorings in 9.13) in place."""
import os
import re
import subprocess

VERIF = os.path.dirname(os.path.dirname(os.path.abspath(__file__)))
PY = '/venv/bin/python'


def table(cmd):
    out = subprocess.run([PY] + cmd, cwd=VERIF, capture_output=True, text=True).stdout
    return [l for l in out.splitlines() if l.startswith('|')]


def replace(lines, header_prefix, new_rows):
    i = next(k for k, l in enumerate(lines) if l.startswith(header_prefix))
    j = i
    while j < len(lines) and lines[j].startswith('|'):
        j += 1
    return lines[:i] + new_rows + lines[j:]


def main():
    p = os.path.join(VERIF, 'DESIGN.md')
    lines = open(p).read().split('\n')
    lines = replace(lines, '| id | property | change |', table(['tools/seeded.py', 'matrix']))
    lines = replace(lines, '| id | refactoring | suite | checks |', table(['tools/benign.py', 'table']))
    open(p, 'w').write('\n'.join(lines))


main()
