"""Reaching definitions and value resolution on a CFG.

`resolve(cfg, node, expr)` rewrites *expr* as it is evaluated at *node*:
every local Name with exactly one reaching definition whose defining expression
is known is replaced by that (recursively resolved) expression.  This makes
rules insensitive to statement splitting, local aliases (`sem = self._x`,
`room = self.max - len(batch)`), helper parameters of inlined helpers and
renamed temporaries.
"""
from __future__ import annotations

import ast
from typing import Dict, FrozenSet, List, Optional, Set, Tuple

from .cfg import CFG, Node
from .sym import clone, expand_inlined


class ReachingDefs:
    def __init__(self, cfg: CFG):
        self.cfg = cfg
        g = cfg
        self.defs: Dict[int, Tuple[str, Node]] = {}
        for n in g.nodes:
            if n.kind in ('store_name', 'del_name'):
                self.defs[n.id] = (n.meta['name'], n)
            elif n.kind == 'def':
                self.defs[n.id] = (n.meta['name'], n)
        names = {nm for nm, _ in self.defs.values()}
        # entry pseudo-definitions (parameters / closure values): def id -1-k per name
        self.in_: Dict[int, Dict[str, FrozenSet[int]]] = {n.id: {} for n in g.nodes}
        out_: Dict[int, Dict[str, FrozenSet[int]]] = {n.id: {} for n in g.nodes}
        ENTRY = -1
        init = {nm: frozenset({ENTRY}) for nm in names}
        out_[g.entry.id] = dict(init)
        work = [e.dst.id for e in g.succ[g.entry.id]]
        seen_once: Set[int] = set()
        while work:
            nid = work.pop()
            preds = g.pred[nid]
            new_in: Dict[str, Set[int]] = {}
            for e in preds:
                src_out = out_[e.src.id]
                for nm, ds in src_out.items():
                    # a store that raised did not happen (only calls raise; store nodes never do)
                    new_in.setdefault(nm, set()).update(ds)
            fin = {k: frozenset(v) for k, v in new_in.items()}
            node = g.nodes[nid]
            new_out = dict(fin)
            if nid in self.defs:
                nm = self.defs[nid][0]
                new_out[nm] = frozenset({nid})
            changed = fin != self.in_[nid] or new_out != out_[nid] or nid not in seen_once
            seen_once.add(nid)
            self.in_[nid] = fin
            if changed:
                out_[nid] = new_out
                for e in g.succ[nid]:
                    work.append(e.dst.id)

    def reaching(self, node: Node, name: str) -> Optional[List[Optional[Node]]]:
        """Definitions of *name* reaching *node*: list of def nodes (None = the value
        on entry: parameter / closure).  None if the name is never assigned here."""
        ds = self.in_.get(node.id, {}).get(name)
        if ds is None:
            return None
        return [None if d == -1 else self.cfg.nodes[d] for d in sorted(ds)]


def rdefs(cfg: CFG) -> ReachingDefs:
    r = cfg.__dict__.get('_rdefs')
    if r is None:
        r = ReachingDefs(cfg)
        cfg.__dict__['_rdefs'] = r
    return r


def def_value(cfg: CFG, d: Node) -> Optional[ast.expr]:
    """Defining expression of a store node, if it is a plain value."""
    if d.kind != 'store_name':
        return None
    v = d.meta.get('value')
    stmt = d.meta.get('stmt')
    if isinstance(stmt, ast.AugAssign):
        return None
    return v


class _Resolver(ast.NodeTransformer):
    def __init__(self, cfg: CFG, node: Node, depth: int, stack: Tuple[int, ...], keep: FrozenSet[str] = frozenset()):
        self.cfg, self.node, self.depth, self.stack, self.keep = cfg, node, depth, stack, keep

    def visit_Lambda(self, n):
        return n

    def visit_Name(self, n: ast.Name):
        if not isinstance(n.ctx, ast.Load) or self.depth <= 0 or n.id in self.keep:
            return n
        ds = rdefs(self.cfg).reaching(self.node, n.id)
        if not ds or len(ds) != 1 or ds[0] is None:
            return n
        d = ds[0]
        if d.id in self.stack:
            return n
        v = def_value(self.cfg, d)
        if v is None:
            return n
        return _resolve(self.cfg, d, v, self.depth - 1, self.stack + (d.id,), self.keep)


def _resolve(cfg: CFG, node: Node, expr: ast.expr, depth: int, stack: Tuple[int, ...],
             keep: FrozenSet[str] = frozenset()) -> ast.expr:
    e = expand_inlined(cfg, expr)
    e = clone(e)
    return _Resolver(cfg, node, depth, stack, keep).visit(e)


def resolve(cfg: CFG, node: Node, expr: Optional[ast.AST], depth: int = 6, keep=()) -> Optional[ast.expr]:
    """*expr* as evaluated at *node*, with uniquely defined locals substituted
    (names in *keep* are left alone)."""
    if expr is None:
        return None
    return _resolve(cfg, node, expr, depth, (), frozenset(keep))  # type: ignore[arg-type]


def alternatives(cfg: CFG, node: Node, name: str, depth: int = 6) -> List[Optional[ast.expr]]:
    """Resolved defining expressions of every definition of *name* reaching *node*
    (None for an unknown / entry value)."""
    ds = rdefs(cfg).reaching(node, name)
    if not ds:
        return [None]
    out: List[Optional[ast.expr]] = []
    for d in ds:
        if d is None:
            out.append(None)
            continue
        v = def_value(cfg, d)
        out.append(_resolve(cfg, d, v, depth, (d.id,)) if v is not None else None)
    return out


def resolved_path(cfg: CFG, node: Node, expr: ast.AST) -> Optional[str]:
    """Canonical access path of *expr* at *node* after resolution (e.g. a local alias of self._x)."""
    r = resolve(cfg, node, expr)
    return cfg.res.path(r) if r is not None else None
