"""Reaching definitions and value resolution on a CFG.

`resolve(cfg, node, expr)` rewrites *expr* as it is evaluated at *node*:
every local Name with exactly one reaching definition whose defining expression
is known is replaced by that (recursively resolved) expression.  This makes
rules insensitive to statement splitting, local aliases (`sem = self._x`,
`room = self.max - len(batch)`), helper parameters of inlined helpers and
renamed temporaries.
"""
from __future__ import annotations

import ast
from typing import Dict, FrozenSet, List, Optional, Set, Tuple

from .cfg import CFG, Node
from .sym import clone, expand_inlined


class ReachingDefs:
    def __init__(self, cfg: CFG):
        self.cfg = cfg
        g = cfg
        self.defs: Dict[int, Tuple[str, Node]] = {}
        for n in g.nodes:
            if n.kind in ('store_name', 'del_name'):
                self.defs[n.id] = (n.meta['name'], n)
            elif n.kind == 'def':
                self.defs[n.id] = (n.meta['name'], n)
        names = {nm for nm, _ in self.defs.values()}
        # entry pseudo-definitions (parameters / closure values): def id -1-k per name
        self.in_: Dict[int, Dict[str, FrozenSet[int]]] = {n.id: {} for n in g.nodes}
        out_: Dict[int, Dict[str, FrozenSet[int]]] = {n.id: {} for n in g.nodes}
        ENTRY = -1
        init = {nm: frozenset({ENTRY}) for nm in names}
        out_[g.entry.id] = dict(init)
        work = [e.dst.id for e in g.succ[g.entry.id]]
        seen_once: Set[int] = set()
        while work:
            nid = work.pop()
            preds = g.pred[nid]
            new_in: Dict[str, Set[int]] = {}
            for e in preds:
                src_out = out_[e.src.id]
                for nm, ds in src_out.items():
                    # a store that raised did not happen (only calls raise; store nodes never do)
                    new_in.setdefault(nm, set()).update(ds)
            fin = {k: frozenset(v) for k, v in new_in.items()}
            node = g.nodes[nid]
            new_out = dict(fin)
            if nid in self.defs:
                nm = self.defs[nid][0]
                new_out[nm] = frozenset({nid})
            changed = fin != self.in_[nid] or new_out != out_[nid] or nid not in seen_once
            seen_once.add(nid)
            self.in_[nid] = fin
            if changed:
                out_[nid] = new_out
                for e in g.succ[nid]:
                    work.append(e.dst.id)

    def reaching(self, node: Node, name: str) -> Optional[List[Optional[Node]]]:
        """Definitions of *name* reaching *node*: list of def nodes (None = the value
        on entry: parameter / closure).  None if the name is never assigned here."""
        ds = self.in_.get(node.id, {}).get(name)
        if ds is None:
            return None
        return [None if d == -1 else self.cfg.nodes[d] for d in sorted(ds)]


def rdefs(cfg: CFG) -> ReachingDefs:
    r = cfg.__dict__.get('_rdefs')
    if r is None:
        r = ReachingDefs(cfg)
        cfg.__dict__['_rdefs'] = r
    return r


def def_value(cfg: CFG, d: Node) -> Optional[ast.expr]:
    """Defining expression of a store node, if it is a plain value."""
    if d.kind != 'store_name':
        return None
    v = d.meta.get('value')
    stmt = d.meta.get('stmt')
    if isinstance(stmt, ast.AugAssign):
        return None
    return v


class _Resolver(ast.NodeTransformer):
    def __init__(self, cfg: CFG, node: Node, depth: int, stack: Tuple[int, ...], keep: FrozenSet[str] = frozenset()):
        self.cfg, self.node, self.depth, self.stack, self.keep = cfg, node, depth, stack, keep

    def visit_Lambda(self, n):
        return n

    def visit_NamedExpr(self, n: ast.NamedExpr):
        # the value of `(x := E)` is the value of E
        return self.visit(n.value)

    def visit_Name(self, n: ast.Name):
        if not isinstance(n.ctx, ast.Load) or self.depth <= 0 or n.id in self.keep:
            return n
        ds = rdefs(self.cfg).reaching(self.node, n.id)
        if not ds or len(ds) != 1 or ds[0] is None:
            return n
        d = ds[0]
        if d.id in self.stack:
            return n
        v = def_value(self.cfg, d)
        if v is None:
            return n
        return _resolve(self.cfg, d, v, self.depth - 1, self.stack + (d.id,), self.keep)


def _resolve(cfg: CFG, node: Node, expr: ast.expr, depth: int, stack: Tuple[int, ...],
             keep: FrozenSet[str] = frozenset()) -> ast.expr:
    e = expand_inlined(cfg, expr)
    e = clone(e)
    return _Resolver(cfg, node, depth, stack, keep).visit(e)


def resolve(cfg: CFG, node: Node, expr: Optional[ast.AST], depth: int = 6, keep=()) -> Optional[ast.expr]:
    """*expr* as evaluated at *node*, with uniquely defined locals substituted
    (names in *keep* are left alone)."""
    if expr is None:
        return None
    return _resolve(cfg, node, expr, depth, (), frozenset(keep))  # type: ignore[arg-type]


def alternatives(cfg: CFG, node: Node, name: str, depth: int = 6) -> List[Optional[ast.expr]]:
    """Resolved defining expressions of every definition of *name* reaching *node*
    (None for an unknown / entry value)."""
    ds = rdefs(cfg).reaching(node, name)
    if not ds:
        return [None]
    out: List[Optional[ast.expr]] = []
    for d in ds:
        if d is None:
            out.append(None)
            continue
        v = def_value(cfg, d)
        out.append(_resolve(cfg, d, v, depth, (d.id,)) if v is not None else None)
    return out


def resolved_path(cfg: CFG, node: Node, expr: ast.AST) -> Optional[str]:
    """Canonical access path of *expr* at *node* after resolution (e.g. a local alias of self._x)."""
    r = resolve(cfg, node, expr)
    return cfg.res.path(r) if r is not None else None


def unalias(cfg: CFG, node: Node, expr: Optional[ast.AST], depth: int = 6) -> Optional[ast.AST]:
    """Copy propagation only: a name whose unique reaching definition is a plain copy of another name
    (`x = y`, the binding of an inlined helper's parameter to the caller's variable) is replaced by
    that name, provided the source still has the same reaching definitions at the point of use.
    Unlike `resolve` nothing but names is ever substituted, so role variables keep their names."""
    if expr is None:
        return None
    rd = rdefs(cfg)

    def canon(name: str, at: Node, d: int) -> str:
        if d <= 0:
            return name
        ds = rd.reaching(at, name)
        if not ds or len(ds) != 1 or ds[0] is None:
            return name
        dn = ds[0]
        v = def_value(cfg, dn)
        if isinstance(v, ast.Name) and v.id == name and dn.meta.get('inlined_param'):
            # `x = x`: a helper's parameter bound to the caller's variable of the same name - look further back
            return canon(name, dn, d - 1)
        if not isinstance(v, ast.Name) or v.id == name:
            return name
        # the source must not have been re-assigned between the copy and the use
        a = rd.reaching(dn, v.id)
        b = rd.reaching(at, v.id)
        if a is None and b is None:
            return v.id
        if a is None or b is None:
            return name
        if sorted(id(x) for x in a) != sorted(id(x) for x in b):
            return name
        return canon(v.id, dn, d - 1)

    class R(ast.NodeTransformer):
        def visit_Lambda(self, n):
            return n

        def visit_Name(self, n: ast.Name):
            if not isinstance(n.ctx, ast.Load):
                return n
            c = canon(n.id, node, depth)
            if c == n.id:
                return n
            return ast.copy_location(ast.Name(id=c, ctx=ast.Load()), n)
    return R().visit(clone(expr))


def leaves(cfg: CFG, node: Node, expr: Optional[ast.AST], depth: int = 5, limit: int = 32, env=None) -> List[ast.AST]:
    """All values *expr* may denote at *node*: names are expanded over *every* reaching definition
    (not only unique ones), constant subscripts of tuple displays are projected.  Names without a known
    defining expression (parameters, loop variables) stay as they are.  With a path environment *env*
    (see paths.envs_at) a tracked name is expanded only to the definition its token on that path names."""
    out: List[ast.AST] = []
    rd = rdefs(cfg)

    def env_def(name: str) -> Optional[Node]:
        if env is None:
            return None
        for k, tok in env:
            if k == name and isinstance(tok, tuple):
                while tok and tok[0] == 'n':
                    tok = tok[1]
                if tok and tok[0] in ('v', 'obj') and isinstance(tok[1], int):
                    return cfg.nodes[tok[1]]
        return None

    def project(e: ast.AST) -> ast.AST:
        if isinstance(e, ast.Subscript) and isinstance(e.slice, ast.Constant) and isinstance(e.slice.value, int) \
                and isinstance(e.value, ast.Tuple) and -len(e.value.elts) <= e.slice.value < len(e.value.elts):
            return e.value.elts[e.slice.value]
        return e

    def go(e: ast.AST, at: Node, d: int, stack: Tuple[int, ...]) -> List[Tuple[ast.AST, Node]]:
        """(value, node at which its free names are to be read) pairs"""
        e = expand_inlined(cfg, e)
        if len(out) > limit:
            return [(e, at)]
        if isinstance(e, ast.Name) and isinstance(e.ctx, ast.Load) and d > 0:
            ds = rd.reaching(at, e.id)
            if not ds:
                return [(e, at)]
            if at is node:
                ed = env_def(e.id)
                if ed is not None and any(x is ed for x in ds):
                    ds = [ed]
            res: List[Tuple[ast.AST, Node]] = []
            for dn in ds:
                if dn is None or dn.id in stack:
                    res.append((e, at))
                    continue
                v = def_value(cfg, dn)
                if v is None:
                    res.append((e, at))
                else:
                    res.extend(go(v, dn, d - 1, stack + (dn.id,)))
            return res
        if isinstance(e, ast.Subscript) and isinstance(e.ctx, ast.Load):
            res = []
            for b, at2 in go(e.value, at, d, stack):
                s2 = ast.Subscript(value=b, slice=e.slice, ctx=ast.Load())
                p = project(s2)
                if p is not s2:
                    res.extend(go(p, at2, d, stack))
                else:
                    res.append((s2, at2))
            return res
        if isinstance(e, ast.Attribute) and isinstance(e.ctx, ast.Load):
            return [(ast.Attribute(value=b, attr=e.attr, ctx=ast.Load()), at2) for b, at2 in go(e.value, at, d, stack)]
        if isinstance(e, ast.BoolOp):
            # `a or b` / `a and b` evaluate to one of their operands
            return [x for v_ in e.values for x in go(v_, at, d, stack)]
        if isinstance(e, ast.IfExp):
            return go(e.body, at, d, stack) + go(e.orelse, at, d, stack)
        if isinstance(e, ast.NamedExpr):
            return go(e.value, at, d, stack)
        return [(e, at)]
    return [x for x, _ in go(expr, node, depth, ())] if expr is not None else []


def maybe_unbound_loads(cfg: CFG, node: Node) -> List[str]:
    """Local names read by *node* that may still be unbound when it runs (a path from the entry reaches it without
    any assignment): reading them raises UnboundLocalError."""
    if node.ast is None or not isinstance(node.ast, ast.expr):
        return []
    rd = rdefs(cfg)
    scope = cfg.scope
    out = []
    seen = set()
    stack = [node.ast]
    while stack:
        x = stack.pop()
        if isinstance(x, (ast.Lambda, ast.FunctionDef, ast.AsyncFunctionDef, ast.ListComp, ast.SetComp, ast.DictComp, ast.GeneratorExp)) and x is not node.ast:
            continue
        if isinstance(x, ast.Name) and isinstance(x.ctx, ast.Load) and x.id not in seen:
            seen.add(x.id)
            if x.id in scope.locals and x.id not in scope.params:
                ds = rd.reaching(node, x.id)
                if ds is not None and any(d is None for d in ds):
                    out.append(x.id)
        stack.extend(ast.iter_child_nodes(x))
    return out


def unbound_witness(cfg: CFG, node: Node, name: str):
    """A feasible path (boolean / None-ness / record tokens respected) from the entry to *node* on which *name* is
    never assigned, or None: only then is the read a possible UnboundLocalError."""
    from .paths import find_path
    stores = [n for n in cfg.nodes if n.kind in ('store_name', 'def') and n.meta.get('name') == name]
    return find_path(cfg, [cfg.entry], [node], avoid=stores)
