"""CLI: /venv/bin/python -m sa.check <ID> [--thorough] | --replay <file> | --all

Exit 0: every obligation of the property holds on /repo's current tree (known
findings are printed as KNOWN-FINDING lines).  Exit 1: a new violation
(VIOLATION line).  Exit 2: analysis error (vanished subject, unknown shape)."""
from __future__ import annotations

import json
import os
import sys
import time
import traceback

from .core import Ctx, finalize
from .load import AnalysisError, load

REGISTRY = {}


def _register():
    from .rules import cache
    REGISTRY.update({
        'C01': (cache.c01, 'single-flight premises of threadsafe_async_cache (lock discipline, double-check, take-over guard, owner-only call/removal, publish-before-unmark)'),
        'C05': (cache.c05, 'wake+unmark on every exit incl. cancel edges, waits on the event\'s own loop, retry edges, bounded wait, dead-loop take-over'),
        'C06': (cache.c06, 'publish only on success, failures propagate only to the computing caller, owner-only unmark, own-cancel-only re-raise, cancel locality'),
        'C14': (cache.c14, 'key provenance/completeness, one key, arguments forwarded unchanged, None-test mapping selection, single store'),
    })
    try:
        from .rules import registry_more
        registry_more.register(REGISTRY)
    except ImportError:
        pass


EXPLANATION = (
    'Static analysis only: /repo\'s current source is parsed with ast (cross-checked with symtable), '
    'per-function control-flow graphs with typed exception edges and cancellation edges at every '
    'suspension point are built, and repository-specific rules (obligations) are evaluated on every '
    'path of those finite graphs. Nothing from /repo is imported or executed. Decided: the structural '
    'clauses listed in DESIGN.md section 4 for this property ({what}). Not decided: runtime quantities '
    '(timing, scheduler order, kernel behaviour) - see level_note in MANIFEST.json.')


def run(prop: str, thorough: bool) -> int:
    t0 = time.time()
    seed = int(os.environ.get('VERIF_SEED', '0') or 0)
    tier = 'thorough' if thorough else 'quick'
    _register()
    if prop not in REGISTRY:
        print(f'ANALYSIS-ERROR property={prop} reason=no rules registered')
        return 2
    fn, what = REGISTRY[prop]
    ctx = None
    try:
        program = load()
        ctx = Ctx(prop, program, thorough)
        fn(ctx)
        if thorough:
            from . import thorough as th
            th.extend(ctx)
        return finalize(ctx, tier, seed, t0, what, EXPLANATION.format(what=what))
    except AnalysisError as e:
        from .core import VIOLATION
        if ctx is not None and any(ob.verdict == VIOLATION for ob in ctx.obs):
            # the analysis could not be completed, but what it established before giving up includes a definite
            # violation: that is reported (the rest shows as analysis errors)
            ctx.undecided(next(ob.rule for ob in ctx.obs if ob.verdict == VIOLATION), 'rest of the analysis', '-', f'analysis stopped: {e}')
            return finalize(ctx, tier, seed, t0, what, EXPLANATION.format(what=what))
        print(f'ANALYSIS-ERROR property={prop} reason={e}')
        _write_error_evidence(prop, tier, seed, t0, str(e))
        return 2
    except Exception:  # engine bug: never a verdict
        traceback.print_exc()
        print(f'ANALYSIS-ERROR property={prop} reason=internal error in the checker')
        _write_error_evidence(prop, tier, seed, t0, 'internal error')
        return 2


def _write_error_evidence(prop, tier, seed, t0, msg):
    from .core import EVIDENCE_DIR
    os.makedirs(EVIDENCE_DIR, exist_ok=True)
    with open(os.path.join(EVIDENCE_DIR, f'{prop}.json'), 'w') as f:
        json.dump({'property_id': prop, 'tier': tier, 'seed': seed, 'level': 'other',
                   'coverage': {'explanation': 'analysis error: ' + msg, 'obligations': 0, 'discharged': 0,
                                'evaluations': 0, 'distinct_nontrivial': 0, 'samples': []},
                   'wall_s': round(time.time() - t0, 3), 'violations': 0}, f, indent=1)


def main(argv):
    if not argv:
        print(__doc__)
        return 2
    if argv[0] == '--replay':
        data = json.load(open(argv[1]))
        print(json.dumps(data, indent=1))
        prop = data['property']
        rc = run(prop, False)
        return rc
    if argv[0] == '--all':
        _register()
        worst = 0
        for p in sorted(REGISTRY):
            worst = max(worst, run(p, '--thorough' in argv))
        return worst
    return run(argv[0], '--thorough' in argv)


if __name__ == '__main__':
    sys.exit(main(sys.argv[1:]))
