"""Statement/expression-level control-flow graphs with typed exception edges,
cancellation edges at suspension points and cloned `finally`/`with` exits
(DESIGN 2.2).

Only statement kinds present in the analysed package are supported; anything
else raises AnalysisError (never a guess).
"""
from __future__ import annotations

import ast
from typing import Callable, Dict, FrozenSet, Iterable, List, Optional, Set, Tuple

from .load import (AnalysisError, FuncNode, Program, Resolver, Scope, ancestors, dotted,
                   own_nodes, parent)
from . import model
from .model import ANY, canon_exc, issub

Frontier = List[Tuple['Node', str]]


class Node:
    __slots__ = ('id', 'kind', 'ast', 'line', 'meta', 'withs', 'trys', 'loops',
                 'raises', 'suspends')

    def __init__(self, nid: int, kind: str, node: Optional[ast.AST], line: int):
        self.id = nid
        self.kind = kind
        self.ast = node
        self.line = line
        self.meta: dict = {}
        self.withs: Tuple[ast.withitem, ...] = ()
        self.trys: Tuple[Tuple[ast.Try, str], ...] = ()
        self.loops: Tuple[ast.AST, ...] = ()
        self.raises: FrozenSet[str] = frozenset()
        self.suspends: bool = False

    def text(self) -> str:
        if self.ast is None:
            return self.kind
        try:
            s = ast.unparse(self.ast)
        except Exception:  # pragma: no cover
            s = type(self.ast).__name__
        s = s.split('\n')[0]
        return s if len(s) < 90 else s[:87] + '...'

    def __repr__(self) -> str:
        return f'<{self.id}:{self.kind}@{self.line} {self.text()}>'


class Edge:
    __slots__ = ('src', 'dst', 'label', 'classes')

    def __init__(self, src: Node, dst: Node, label: str,
                 classes: Optional[FrozenSet[str]] = None):
        self.src = src
        self.dst = dst
        self.label = label
        self.classes = classes

    def __repr__(self) -> str:
        c = f':{",".join(sorted(self.classes))}' if self.classes else ''
        return f'{self.src.id}-{self.label}{c}->{self.dst.id}'


def _const_dict_read(cfg: 'CFG', sub: ast.Subscript) -> bool:
    """`d['k']` where d is a variable (of this function, an enclosing one or the module) bound once to a dict display
    that has the constant key 'k', and nothing anywhere in the module removes entries from a variable of that name:
    the read cannot raise KeyError (write-only statistics counters and the like)."""
    key = sub.slice
    if isinstance(key, ast.Name):
        # the parameter of a helper being inlined, bound to a literal by the call (`_count('hits')` -> `stats[name] += 1`)
        for c in reversed(getattr(cfg, 'ctx', []) or []):
            if getattr(c, 'kind', None) == 'inline' and key.id in getattr(c, 'binding', {}):
                key = c.binding[key.id]
                break
    if not (isinstance(sub.value, ast.Name) and isinstance(key, ast.Constant) and isinstance(key.value, str)):
        return False
    name = sub.value.id
    sc = cfg.scope
    bs = sc.binding_scope(name)
    if bs is None or name in getattr(bs, 'params', ()):
        return False
    vals = []
    for x in own_nodes(bs.node):
        if isinstance(x, (ast.Assign, ast.AnnAssign)) and getattr(x, 'value', None) is not None:
            tg = x.targets if isinstance(x, ast.Assign) else [x.target]
            if any(isinstance(t, ast.Name) and t.id == name for t in tg):
                vals.append(x.value)
        elif isinstance(x, ast.Name) and x.id == name and isinstance(x.ctx, (ast.Store, ast.Del)) and \
                not isinstance(parent(x), (ast.Assign, ast.AnnAssign)):
            return False
    if len(vals) != 1 or not isinstance(vals[0], ast.Dict):
        return False
    keys = [k.value for k in vals[0].keys if isinstance(k, ast.Constant)]
    if len(keys) != len(vals[0].keys) or key.value not in keys:
        return False
    for x in ast.walk(cfg.scope.unit.tree):
        if isinstance(x, ast.Attribute) and isinstance(x.value, ast.Name) and x.value.id == name \
                and x.attr in ('pop', 'popitem', 'clear', 'update', 'setdefault', '__delitem__'):
            return False
        if isinstance(x, ast.Delete) and any(isinstance(t, ast.Subscript) and isinstance(t.value, ast.Name) and t.value.id == name for t in x.targets):
            return False
    return True


def _clone_renamed(root: ast.AST, ren: Dict[str, str]) -> ast.AST:
    """Copy of an AST subtree with the names in *ren* renamed (parents set inside the copy; the copy hangs where the
    original hangs)."""
    def cl(node):
        if isinstance(node, list):
            return [cl(x) for x in node]
        if not isinstance(node, ast.AST):
            return node
        new = type(node)()
        for f_, v_ in ast.iter_fields(node):
            setattr(new, f_, cl(v_))
        for a_, v_ in vars(node).items():
            if a_ in ('_parent', '_alias_parent') or a_ in node._fields:
                continue
            setattr(new, a_, v_)
        if isinstance(new, ast.Name) and new.id in ren:
            new.id = ren[new.id]
        elif isinstance(new, ast.arg) and new.arg in ren:
            new.arg = ren[new.arg]
        elif isinstance(new, ast.ExceptHandler) and new.name in ren:
            new.name = ren[new.name]
        return new
    out = cl(root)
    from .load import set_parents
    set_parents(out)
    out._parent = getattr(root, '_parent', None)
    return out


class _Ctx:
    """Entry of the builder's context stack."""

    def __init__(self, kind: str, **kw):
        self.kind = kind  # 'handlers' | 'finally' | 'with' | 'loop'
        self.handlers: List[Tuple[Set[str], Node]] = kw.get('handlers', [])
        self.pending: Dict[str, list] = {}
        self.node = kw.get('node')
        self.head: Optional[Node] = kw.get('head')
        self.breaks: Frontier = []


class CFG:
    def __init__(self, scope: Scope, program: Program, raise_model: 'RaiseModel', inline_methods: bool = False,
                 inline_nested: bool = True, no_inline: Tuple[str, ...] = (), expand_deferred: bool = False,
                 inline_module_helpers: bool = False):
        self.inline_module_helpers = inline_module_helpers   # also plain private module-level functions
        self.no_inline = tuple(no_inline)       # qualnames of helpers that stay opaque call nodes
        # expand_deferred: the function handed to `pool.submit(f, *a)` / `loop.run_in_executor(pool, f, *a)` is
        # expanded in place (as if called) so that rules about *what the worker does* see its body in the
        # context of the submitting function; nodes of the expansion carry meta['deferred']
        self.expand_deferred = expand_deferred
        self._deferred = 0
        self.inline_methods = inline_methods
        self.inline_nested = inline_nested
        self.scope = scope
        self.program = program
        self.unit = scope.unit
        self.res = Resolver(scope)
        self.model = raise_model
        self.nodes: List[Node] = []
        self.succ: Dict[int, List[Edge]] = {}
        self.pred: Dict[int, List[Edge]] = {}
        self.cur: Frontier = []
        self.ctx: List[_Ctx] = []
        self._withs: Tuple[ast.withitem, ...] = ()
        self._trys: Tuple[Tuple[ast.Try, str], ...] = ()
        self._loops: Tuple[ast.AST, ...] = ()
        self._inlining: List[str] = []
        self.cur_scope: Scope = scope          # scope whose body is currently being built (changes while inlining)
        self._inline_frames: List[Set[str]] = []   # local names of the helpers on the inlining stack
        self.asserts_assumed = 0
        self._rename_k = 0
        self.callee_cache: Dict[int, dict] = {}
        self._stack_sites: Dict[int, str] = {}
        self._cm_stack: List[dict] = []
        self.inline_values: Dict[int, Tuple[ast.expr, Dict[str, ast.expr]]] = {}
        fn = scope.node
        self.entry = self._raw_node('entry', fn, getattr(fn, 'lineno', 0))
        self.exit = self._raw_node('exit', fn, getattr(fn, 'end_lineno', 0))
        self.raise_exit = self._raw_node('raise_exit', fn, getattr(fn, 'end_lineno', 0))
        self.cur = [(self.entry, 'seq')]
        self.is_contextmanager = any(
            (self.res.path(d) or '').endswith('contextmanager') for d in scope.decorators)
        self.is_generator = scope.is_generator
        self.is_async = scope.is_async
        self._build_body(fn.body)
        # falling off the end = return None
        if self.cur:
            n = self._node('implicit_return', None, getattr(fn, 'end_lineno', 0))
            self._dispatch_jump('return', n)
            self.cur = []

    # ------------------------------------------------------------------ nodes
    def _raw_node(self, kind: str, node: Optional[ast.AST], line: int) -> Node:
        n = Node(len(self.nodes), kind, node, line)
        self.nodes.append(n)
        self.succ[n.id] = []
        self.pred[n.id] = []
        return n

    def _edge(self, src: Node, dst: Node, label: str,
              classes: Optional[Iterable[str]] = None) -> None:
        cl = frozenset(classes) if classes is not None else None
        for e in self.succ[src.id]:
            if e.dst is dst and e.label == label:
                if cl is not None:
                    e.classes = (e.classes or frozenset()) | cl
                return
        e = Edge(src, dst, label, cl)
        self.succ[src.id].append(e)
        self.pred[dst.id].append(e)

    def _node(self, kind: str, node: Optional[ast.AST], line: Optional[int] = None,
              **meta) -> Node:
        """Create a node, wire the current frontier to it, make it the frontier,
        and dispatch its exceptional successors."""
        if line is None:
            line = getattr(node, 'lineno', 0)
        n = self._raw_node(kind, node, line)
        n.meta.update(meta)
        n.withs = self._withs
        n.trys = self._trys
        n.loops = self._loops
        if self._inlining:
            n.meta['inlined'] = len(self._inlining)
            n.meta['inlined_from'] = self._inlining[-1]
        if self._deferred:
            n.meta['deferred'] = True
        if getattr(self, '_in_assert', 0):
            n.meta['in_assert'] = True      # part of the evaluation of an assert's test: an observation, not an action
        for src, label in self.cur:
            self._edge(src, n, label)
        self.cur = [(n, 'seq')]
        raises, suspends = self.model.raises(self, n)
        if getattr(self, '_in_assert', 0) and kind != 'await':
            raises = set()
        n.suspends = suspends
        n.raises = frozenset(raises)
        if n.raises:
            self._dispatch_exc(n, set(n.raises))
        return n

    # ------------------------------------------------------- exception dispatch
    def _dispatch_exc(self, src: Node, classes: Set[str], start: Optional[int] = None) -> None:
        i = len(self.ctx) - 1 if start is None else start
        classes = set(classes)
        while i >= 0 and classes:
            c = self.ctx[i]
            if c.kind == 'handlers':
                for hclasses, hnode in c.handlers:
                    if hnode.meta.get('uncertain'):
                        self._edge(src, hnode, 'exc', set(classes))
                        hnode.meta.setdefault('caught', set()).update(classes)
                        continue
                    for x in sorted(classes):
                        if any(issub(x, h) for h in hclasses):
                            self._edge(src, hnode, 'exc', {x})
                            hnode.meta.setdefault('caught', set()).add(x)
                            classes.discard(x)
                        else:
                            narrowed = {h for h in hclasses if issub(h, x)}
                            if narrowed:
                                self._edge(src, hnode, 'exc', narrowed)
                                hnode.meta.setdefault('caught', set()).update(narrowed)
                                if x == ANY and 'Exception' in narrowed:
                                    # what remains of "anything" after `except Exception`
                                    classes.discard(x)
                                    classes.add(model.NONEXC)
                    if not classes:
                        return
            elif c.kind in ('finally', 'with') and not getattr(c, 'jumps_only', False):
                c.pending.setdefault('exc', []).append((src, frozenset(classes), i))
                return
            i -= 1
        if classes:
            self._edge(src, self.raise_exit, 'exc', classes)

    def _dispatch_jump(self, what: str, src: Node, start: Optional[int] = None) -> None:
        """what in {'return','break','continue'}."""
        i = len(self.ctx) - 1 if start is None else start
        while i >= 0:
            c = self.ctx[i]
            if c.kind in ('finally', 'with'):
                c.pending.setdefault(what, []).append((src, None, i))
                return
            if c.kind == 'inline':
                if what == 'return':
                    if getattr(c, 'return_through', False):
                        i -= 1
                        continue      # `return helper(...)`: the helper's returns are the caller's returns
                    c.returns.append((src, 'return'))
                    return
                raise AnalysisError(f'{what} crosses an inlined helper boundary')
            if c.kind == 'loop' and what in ('break', 'continue'):
                if what == 'break':
                    c.breaks.append((src, 'break'))
                else:
                    assert c.head is not None
                    self._edge(src, c.head, 'continue')
                return
            i -= 1
        if what != 'return':
            raise AnalysisError(f'{what} outside loop in {self.scope.qualname}')
        self._edge(src, self.exit, 'return')

    # ----------------------------------------------------------- statements
    def _build_body(self, stmts: List[ast.stmt]) -> None:
        for s in stmts:
            if not self.cur:
                # unreachable code after return/raise/break: still must be a
                # supported kind, but produces no nodes
                continue
            self._stmt(s)

    def _stmt(self, s: ast.stmt) -> None:
        m = getattr(self, '_s_' + type(s).__name__, None)
        if m is None:
            raise AnalysisError(
                f'unsupported statement {type(s).__name__} at '
                f'{self.unit.rel}:{getattr(s, "lineno", 0)}')
        m(s)

    def _s_Pass(self, s: ast.Pass) -> None:
        self._node('nop', s)

    def _s_Expr(self, s: ast.Expr) -> None:
        if isinstance(s.value, ast.Constant):
            return  # docstring / ellipsis
        if self._cm_stack and isinstance(s.value, ast.Yield) and self._cm_stack[-1]['yield'] is s.value:
            # the single `yield` of a @contextmanager helper expanded at a `with`: the block runs here
            fr = self._cm_stack.pop()
            saved = (self.res, self.cur_scope, self._inlining)
            self.res, self.cur_scope, self._inlining = fr['res'], fr['scope'], fr['inlining']
            # a generator that yields at the top level of its body, outside any try: what follows the yield runs when the
            # block is left normally or by return / break / continue (the with statement resumes the generator), and is
            # skipped when the block raises (the exception is thrown in at the yield and nothing catches it)
            gen_fn = parent(s)
            post: List[ast.stmt] = []
            if isinstance(gen_fn, FuncNode) and s in gen_fn.body:
                post = gen_fn.body[gen_fn.body.index(s) + 1:]
            jc = None
            if post:
                jc = _Ctx('finally', node=s)
                jc.jumps_only = True  # type: ignore[attr-defined]
                self.ctx.append(jc)
            try:
                if fr['as'] is not None:
                    self._store(fr['as'], s.value.value if s.value.value is not None else ast.copy_location(ast.Constant(value=None), s), fr['stmt'])
                fr['build_body']()
            finally:
                self.res, self.cur_scope, self._inlining = saved
                self._cm_stack.append(fr)
                if jc is not None:
                    self.ctx.pop()
            if jc is not None:
                normal = self.cur

                def make_clone(frontier: Frontier, how: str) -> Optional[Node]:
                    if not frontier:
                        return None
                    self.cur = frontier
                    n = self._node('finally_enter', s, post[0].lineno, how=how, cm_post=True)
                    self._build_body(post)
                    return n
                self._flush_pending(jc, make_clone)
                self.cur = normal
            return
        before = len(self.nodes)
        self._expr(s.value)
        if len(self.nodes) == before:
            self._node('nop', s)

    def _s_Global(self, s) -> None:
        pass

    _s_Nonlocal = _s_Global

    def _s_Import(self, s) -> None:
        self._node('import', s)

    _s_ImportFrom = _s_Import

    def _s_FunctionDef(self, s) -> None:
        for d in s.decorator_list:
            self._expr(d)
        for d in s.args.defaults + [k for k in s.args.kw_defaults if k is not None]:
            self._expr(d)
        self._node('def', s, name=s.name)

    _s_AsyncFunctionDef = _s_FunctionDef

    def _s_ClassDef(self, s: ast.ClassDef) -> None:
        self._node('def', s, name=s.name)

    def _s_Assign(self, s: ast.Assign) -> None:
        v = s.value
        call = v.value if isinstance(v, ast.Await) and isinstance(v.value, ast.Call) else v
        if isinstance(call, ast.Call):
            target = self._inline_target(call, awaited=isinstance(v, ast.Await))
            if target is not None:
                self._expr(call.func)
                for a in call.args:
                    self._expr(a)
                for k in call.keywords:
                    self._expr(k.value)
                self._inline(call, *target, assign_targets=list(s.targets), assign_stmt=s)
                return
        self._expr(s.value)
        for t in s.targets:
            self._store(t, s.value, s)

    def _s_AnnAssign(self, s: ast.AnnAssign) -> None:
        if s.value is not None:
            v = s.value
            call = v.value if isinstance(v, ast.Await) and isinstance(v.value, ast.Call) else v
            if isinstance(call, ast.Call):
                target = self._inline_target(call, awaited=isinstance(v, ast.Await))
                if target is not None:
                    self._expr(call.func)
                    for a in call.args:
                        self._expr(a)
                    for k in call.keywords:
                        self._expr(k.value)
                    self._inline(call, *target, assign_targets=[s.target], assign_stmt=s)
                    return
            self._expr(s.value)
            self._store(s.target, s.value, s)

    def _s_AugAssign(self, s: ast.AugAssign) -> None:
        t = s.target
        if isinstance(t, ast.Subscript):
            self._expr(t.value)
            self._expr(t.slice)
            self._node('load_sub', t, stmt=s)
        elif isinstance(t, ast.Attribute):
            self._expr(t.value)
        self._expr(s.value)
        self._store(t, None, s, pre_evaluated=True)

    def _store(self, t: ast.expr, value: Optional[ast.expr], stmt: ast.stmt,
               pre_evaluated: bool = False) -> None:
        if isinstance(t, ast.Name):
            self._node('store_name', t, getattr(stmt, 'lineno', None), name=t.id, value=value, stmt=stmt)
        elif isinstance(t, ast.Attribute):
            if not pre_evaluated:
                self._expr(t.value)
            self._node('store_attr', t, getattr(stmt, 'lineno', None), attr=t.attr, value=value, stmt=stmt)
        elif isinstance(t, ast.Subscript):
            if not pre_evaluated:
                self._expr(t.value)
                self._expr(t.slice)
            self._node('store_sub', t, getattr(stmt, 'lineno', None), value=value, stmt=stmt)
        elif isinstance(t, (ast.Tuple, ast.List)):
            self._node('unpack', t, getattr(stmt, 'lineno', None), value=value, stmt=stmt, arity=len(t.elts))
            for i, e in enumerate(t.elts):
                sub = None
                if isinstance(value, (ast.Tuple, ast.List)) and len(value.elts) == len(t.elts):
                    sub = value.elts[i]
                elif value is not None and not isinstance(value, (ast.Tuple, ast.List)) \
                        and not any(isinstance(x, ast.Starred) for x in t.elts):
                    # element i of the unpacked value: lets value resolution see through `a, b = pair`
                    sub = ast.Subscript(value=value, slice=ast.Constant(value=i), ctx=ast.Load())
                    ast.copy_location(sub, e)
                    ast.copy_location(sub.slice, e)
                    sub._synth_unpack = True  # type: ignore[attr-defined]
                if isinstance(e, ast.Starred):
                    e = e.value
                self._store(e, sub, stmt)
        elif isinstance(t, ast.Starred):
            self._store(t.value, None, stmt)
        else:
            raise AnalysisError(f'unsupported assignment target {type(t).__name__}')

    def _s_Delete(self, s: ast.Delete) -> None:
        for t in s.targets:
            if isinstance(t, ast.Subscript):
                self._expr(t.value)
                self._expr(t.slice)
                self._node('del_sub', t, s.lineno, stmt=s)
            elif isinstance(t, ast.Name):
                self._node('del_name', t, s.lineno, name=t.id, stmt=s)
            elif isinstance(t, ast.Attribute):
                self._expr(t.value)
                self._node('del_attr', t, s.lineno, attr=t.attr, stmt=s)
            else:
                raise AnalysisError('unsupported del target')

    def _s_Return(self, s: ast.Return) -> None:
        v = s.value
        call = v.value if isinstance(v, ast.Await) and isinstance(v.value, ast.Call) else v
        if isinstance(call, ast.Call):
            target = self._inline_target(call, awaited=isinstance(v, ast.Await))
            if target is not None and not any(getattr(c, 'assign_targets', None) for c in self.ctx if c.kind == 'inline'):
                self._expr(call.func)
                for a in call.args:
                    self._expr(a)
                for k in call.keywords:
                    self._expr(k.value)
                self._inline(call, *target, return_through=True)
                if self.cur:
                    # the helper fell off its end: `return None`
                    n = self._node('inline_return' if self._inlining else 'return', s, through=True)
                    self._dispatch_jump('return', n)
                    self.cur = []
                return
        if s.value is not None:
            self._expr(s.value)
        if self._inlining:
            # an inlined helper on the right-hand side of an assignment: the
            # returned value(s) are stored into the assignment's targets here
            ic = next((c for c in reversed(self.ctx) if c.kind == 'inline'), None)
            if ic is not None and getattr(ic, 'assign_targets', None):
                val = s.value if s.value is not None else ast.Constant(value=None)
                for tg in ic.assign_targets:
                    self._store(tg, val, ic.assign_stmt)
        through = bool(self._inlining) and all(getattr(c, 'return_through', False) for c in self.ctx if c.kind == 'inline')
        n = self._node('return' if (not self._inlining or through) else 'inline_return', s)
        self._dispatch_jump('return', n)
        self.cur = []

    def _s_Raise(self, s: ast.Raise) -> None:
        if s.exc is not None:
            self._expr(s.exc)
        if s.cause is not None:
            self._expr(s.cause)
        self._node('raise', s)   # model gives the classes; dispatch done in _node
        self.cur = []

    def _s_Break(self, s) -> None:
        n = self._node('break', s)
        self._dispatch_jump('break', n)
        self.cur = []

    def _s_Continue(self, s) -> None:
        n = self._node('continue', s)
        self._dispatch_jump('continue', n)
        self.cur = []

    def _s_Assert(self, s: ast.Assert) -> None:
        # Assumption (DESIGN 2.2): assert statements hold.  They are the author's stated invariants and vanish under
        # `python -O`; the test is still evaluated (its calls can raise, its outcome narrows None-ness / flags on the
        # way on), the failing edge is taken to be infeasible.  "Holds" includes "can be evaluated": a subscript, attribute or
        # call in the test that raised would be a failing invariant just the same, so the test's own exception edges are
        # not drawn (awaits keep theirs: a suspension point is a suspension point).
        self._in_assert = getattr(self, '_in_assert', 0) + 1
        try:
            t, f = self._cond(s.test)
        finally:
            self._in_assert -= 1
        self.asserts_assumed += 1
        self.cur = t

    def _s_If(self, s: ast.If) -> None:
        t, f = self._cond(s.test)
        self.cur = t
        self._build_body(s.body)
        after = self.cur
        self.cur = f
        self._build_body(s.orelse)
        self.cur = after + self.cur

    def _s_While(self, s: ast.While) -> None:
        head = self._node('loop_head', s)
        t, f = self._cond(s.test)
        c = _Ctx('loop', node=s, head=head)
        self.ctx.append(c)
        old = self._loops
        self._loops = old + (s,)
        self.cur = t
        self._build_body(s.body)
        self._loop_back(head, s)
        self._loops = old
        self.ctx.pop()
        self.cur = f
        self._build_body(s.orelse)
        self.cur = self.cur + c.breaks

    def _loop_back(self, head: Node, s: ast.AST) -> None:
        """Back edges of a loop body.  A frontier entry that is the outcome of a test (`if c: break` as the last statement)
        keeps its true/false label on an edge to a join node, so that path queries still see which way the test went."""
        plain = [(src, label) for src, label in self.cur if label not in ('true', 'false')]
        tested = [(src, label) for src, label in self.cur if label in ('true', 'false')]
        if tested:
            self.cur = tested
            j = self._node('nop', s, getattr(s, 'end_lineno', None) or getattr(s, 'lineno', 0), loop_join=True)
            self._edge(j, head, 'loop')
        for src, label in plain:
            self._edge(src, head, 'loop')
        self.cur = []

    def _s_For(self, s) -> None:
        is_async = isinstance(s, ast.AsyncFor)
        self._expr(s.iter)
        head = self._node('for_iter', s, is_async=is_async)
        c = _Ctx('loop', node=s, head=head)
        self.ctx.append(c)
        old = self._loops
        self._loops = old + (s,)
        self.cur = [(head, 'true')]
        self._store(s.target, None, s)
        self._build_body(s.body)
        self._loop_back(head, s)
        self._loops = old
        self.ctx.pop()
        # `for _ in itertools.count():` / `itertools.repeat(x)` never runs out: no exhaustion edge (it is `while True`)
        itp = self.res.path(s.iter.func) if isinstance(s.iter, ast.Call) else None
        endless = (itp == 'itertools.count') or (itp == 'itertools.repeat' and len(s.iter.args) == 1 and not s.iter.keywords)
        self.cur = [] if endless and not is_async else [(head, 'false')]
        self._build_body(s.orelse)
        self.cur = self.cur + c.breaks

    _s_AsyncFor = _s_For

    def _s_With(self, s) -> None:
        is_async = isinstance(s, ast.AsyncWith)
        self._with_items(list(s.items), s, is_async)

    _s_AsyncWith = _s_With

    def _with_items(self, items: List[ast.withitem], s, is_async: bool) -> None:
        if not items:
            self._build_body(s.body)
            return
        item = items[0]
        ce = item.context_expr
        if isinstance(ce, ast.Call) and self.res.path(ce.func) == 'contextlib.suppress' and item.optional_vars is None \
                and not is_async and ce.args and not ce.keywords and not any(isinstance(a, ast.Starred) for a in ce.args):
            # `with suppress(E, ...): body`  ==  `try: body  except (E, ...): pass`
            rest = items[1:]
            body = s.body
            if rest:
                inner = ast.With(items=rest, body=s.body)
                ast.copy_location(inner, s)
                inner._parent = s  # type: ignore[attr-defined]
                body = [inner]
            typ = ce.args[0] if len(ce.args) == 1 else ast.copy_location(ast.Tuple(elts=list(ce.args), ctx=ast.Load()), ce)
            ps = ast.copy_location(ast.Pass(), ce)
            h = ast.copy_location(ast.ExceptHandler(type=typ, name=None, body=[ps]), ce)
            t = ast.copy_location(ast.Try(body=body, handlers=[h], orelse=[], finalbody=[]), s)
            t._parent = getattr(s, '_parent', None)  # type: ignore[attr-defined]
            h._parent = t  # type: ignore[attr-defined]
            ps._parent = h  # type: ignore[attr-defined]
            t._synth_suppress = True  # type: ignore[attr-defined]
            self._s_Try(t)
            return
        cm = self._cm_target(ce) if not is_async else None
        if cm is not None:
            t, binding, the_yield = cm
            for a_ in ce.args:
                self._expr(a_)
            for k_ in ce.keywords:
                self._expr(k_.value)
            self._node('inline_enter', ce, name=t.qualname, awaited=False, await_ast=None, contextmanager=True)
            rest = items[1:]
            frame = {'yield': the_yield, 'as': item.optional_vars, 'stmt': s, 'res': self.res, 'scope': self.cur_scope,
                     'inlining': list(self._inlining),
                     'build_body': (lambda: self._with_items(rest, s, is_async))}
            saved_res, saved_scope = self.res, self.cur_scope
            self._inlining.append(t.qualname)
            for prm, arg in binding:
                self._node('store_name', arg, ce.lineno, name=prm, value=arg, stmt=ce, inlined_param=True)
            self.res, self.cur_scope = Resolver(t), t
            self._cm_stack.append(frame)
            # (a callable handed to the helper - `_undo_on_error(_cleanup, ...)` ... `undo()` - is followed like one handed
            # to an inlined function)
            cmc = _Ctx('cm', node=ce)
            cmc.callables = {prm: arg for prm, arg in binding if isinstance(arg, (ast.Name, ast.Attribute, ast.Lambda))}
            cmc.caller_scope, cmc.scope, cmc.renamed, cmc.binding = saved_scope, t, {}, dict(binding)
            self.ctx.append(cmc)
            try:
                self._build_body(t.node.body)
            finally:
                self.ctx.remove(cmc)
                self._cm_stack.pop()
                self.res, self.cur_scope = saved_res, saved_scope
                self._inlining.pop()
            if self.cur:
                self._node('inline_exit', ce, name=t.qualname)
            return
        self._expr(item.context_expr)
        self._node('with_enter', item.context_expr, s.lineno, item=item, is_async=is_async, stmt=s)
        c = _Ctx('with', node=item)
        self.ctx.append(c)
        oldw = self._withs
        self._withs = oldw + (item,)
        if item.optional_vars is not None:
            self._store(item.optional_vars, None, s)
        # `with ExitStack() as st: ... st.callback(f, *args) ...`: the callbacks registered on the way run when
        # the block is left (in reverse order).  Modelled with one synthetic boolean local per registration
        # site - false at entry, true once the site was executed - and a guarded call in every exit clone.
        stack_sites: List[Tuple[ast.Call, str]] = []
        if isinstance(ce, ast.Call) and self.res.path(ce.func) == 'contextlib.ExitStack' and not is_async \
                and isinstance(item.optional_vars, ast.Name) and not ce.args and not ce.keywords:
            S = item.optional_vars.id
            uses = [x for st_ in s.body for x in ast.walk(st_) if isinstance(x, ast.Name) and x.id == S]
            calls = [x for st_ in s.body for x in ast.walk(st_) if isinstance(x, ast.Call) and isinstance(x.func, ast.Attribute)
                     and isinstance(x.func.value, ast.Name) and x.func.value.id == S and x.func.attr in ('callback', 'enter_context') and x.args
                     and not any(isinstance(a, ast.Starred) for a in x.args) and not any(k.arg is None for k in x.keywords)
                     and (x.func.attr == 'callback' or (len(x.args) == 1 and not x.keywords))]
            in_loop = any(isinstance(x, (ast.For, ast.While, ast.AsyncFor)) and any(y is c_ for y in ast.walk(x) for c_ in calls)
                          for st_ in s.body for x in ast.walk(st_))      # a registration inside a loop registers many times
            if calls and len(calls) == len(uses) and not in_loop:
                for k, x in enumerate(calls):
                    flag = f'__exitstack_{s.lineno}_{k}'
                    stack_sites.append((x, flag))
                    fc = ast.copy_location(ast.Constant(value=False), x)
                    self._node('store_name', ast.copy_location(ast.Name(id=flag, ctx=ast.Store()), x), s.lineno,
                               name=flag, value=fc, stmt=s, synthetic=True)
                    self._stack_sites[id(x)] = flag
        self._with_items(items[1:], s, is_async)
        # exits are created while still "inside" (lock still held at the exit node)
        normal = self.cur
        self.ctx.pop()

        def make_exit(frontier: Frontier, how: str) -> Optional[Node]:
            if not frontier:
                return None
            self.cur = frontier
            self._withs = oldw + (item,)
            n = self._node('with_exit', item.context_expr, getattr(s, 'end_lineno', s.lineno),
                           item=item, is_async=is_async, how=how, stmt=s)
            self._withs = oldw
            if stack_sites:
                # registered exits run last-in first-out, each one even if an earlier one raised:
                #   try: <if flag_n: exit_n>  finally: try: <if flag_n-1: exit_n-1> finally: ...
                def guarded(x, flag) -> ast.stmt:
                    test = ast.copy_location(ast.Name(id=flag, ctx=ast.Load()), x)
                    if x.func.attr == 'enter_context':
                        recv = ast.copy_location(ast.Name(id=flag.replace('__exitstack_', '__ctx_'), ctx=ast.Load()), x)
                        call = ast.Call(func=ast.copy_location(ast.Attribute(value=recv, attr='__exit__', ctx=ast.Load()), x), args=[], keywords=[])
                    else:
                        call = ast.Call(func=x.args[0], args=list(x.args[1:]), keywords=list(x.keywords))
                    ast.copy_location(call, x)
                    call._exitstack_callback = True  # type: ignore[attr-defined]
                    ex_ = ast.copy_location(ast.Expr(value=call), x)
                    if_ = ast.copy_location(ast.If(test=test, body=[ex_], orelse=[]), x)
                    for y, par_ in ((call, ex_), (ex_, if_), (test, if_), (if_, s)):
                        y._parent = par_  # type: ignore[attr-defined]
                    return if_

                def nest(k: int) -> List[ast.stmt]:
                    x, flag = stack_sites[k]
                    if k == 0:
                        return [guarded(x, flag)]
                    t_ = ast.copy_location(ast.Try(body=[guarded(x, flag)], handlers=[], orelse=[], finalbody=nest(k - 1)), x)
                    t_._parent = s  # type: ignore[attr-defined]
                    return [t_]
                self._build_body(nest(len(stack_sites) - 1))
            return n

        after: Frontier = []
        if normal:
            make_exit(normal, 'normal')
            after = self.cur
        self._flush_pending(c, make_exit)
        self._withs = oldw
        self.cur = after

    def _flush_pending(self, c: _Ctx, make_clone: Callable[[Frontier, str], Optional[Node]]) -> None:
        """Build one clone of the cleanup per continuation kind and continue
        the jump / exception outward."""
        for what in ('exc', 'return', 'break', 'continue'):
            pend = c.pending.get(what)
            if not pend:
                continue
            frontier = [(src, what if what != 'exc' else 'exc') for src, _, _ in pend]
            classes: Set[str] = set()
            for _, cl, _ in pend:
                if cl:
                    classes |= cl
            # wire with class labels
            self.cur = []
            end = make_clone_with_edges(self, frontier, pend, what, make_clone)
            if end is None or not self.cur:
                continue
            tail = self._node('cleanup_end', None, end.line, how=what, classes=frozenset(classes))
            if what == 'exc':
                self._dispatch_exc(tail, classes)
            else:
                self._dispatch_jump(what, tail)
            self.cur = []

    def _exc_path(self, e: ast.AST) -> Optional[str]:
        """Dotted name of an exception class expression; a module-level name bound in several branches (a version check) to
        classes that all canonicalise to one class denotes that class."""
        p0 = self.res.path(e)
        if model.canon_exc(p0) is not None or not isinstance(e, ast.Name):
            return p0
        bs = self.cur_scope.binding_scope(e.id)
        if bs is None or bs.kind != 'module':
            return p0
        vals = []
        for n in ast.walk(bs.node):
            if isinstance(n, (ast.FunctionDef, ast.AsyncFunctionDef, ast.ClassDef, ast.Lambda)):
                continue
            tg = v = None
            if isinstance(n, ast.Assign) and len(n.targets) == 1:
                tg, v = n.targets[0], n.value
            elif isinstance(n, ast.AnnAssign) and n.value is not None:
                tg, v = n.target, n.value
            if isinstance(tg, ast.Name) and tg.id == e.id:
                vals.append(v)
        canon = {model.canon_exc(Resolver(bs).path(v)) for v in vals}
        if vals and None not in canon and len(canon) == 1:
            return next(iter(canon))
        return p0

    def _s_Try(self, s: ast.Try) -> None:
        old_trys = self._trys
        fin_ctx = None
        if s.finalbody:
            fin_ctx = _Ctx('finally', node=s)
            self.ctx.append(fin_ctx)
        hnodes: List[Tuple[Set[str], Node]] = []
        entry_frontier = self.cur
        for h in s.handlers:
            classes = model.parse_handler_classes(h.type, self._exc_path)
            uncertain = False
            if classes is None:
                # class given by a run-time value (`except only as e`): may
                # catch anything, surely catches nothing
                classes = {ANY}
                uncertain = True
            self.cur = []
            self._trys = old_trys + ((s, 'handler'),)
            hn = self._node('except', h, h.lineno, classes=frozenset(classes), name=h.name, uncertain=uncertain)
            hnodes.append((classes, hn))
        self.cur = entry_frontier
        if hnodes:
            hc = _Ctx('handlers', handlers=hnodes, node=s)
            self.ctx.append(hc)
        self._trys = old_trys + ((s, 'body'),)
        self._build_body(s.body)
        if hnodes:
            self.ctx.pop()
        self._trys = old_trys + ((s, 'else'),)
        self._build_body(s.orelse)
        after = self.cur
        for (classes, hn), h in zip(hnodes, s.handlers):
            if not self.pred[hn.id]:
                continue  # handler unreachable under the raise model
            self.cur = [(hn, 'seq')]
            self._trys = old_trys + ((s, 'handler'),)
            if h.name:
                self._node('store_name', h, h.lineno, name=h.name, value=None, stmt=h)
            self._build_body(h.body)
            after = after + self.cur
        if fin_ctx is not None:
            self.ctx.pop()
            self._trys = old_trys + ((s, 'finally'),)

            def make_clone(frontier: Frontier, how: str) -> Optional[Node]:
                if not frontier:
                    return None
                self.cur = frontier
                n = self._node('finally_enter', s, s.finalbody[0].lineno, how=how)
                self._build_body(s.finalbody)
                return n

            normal_after: Frontier = []
            if after:
                make_clone(after, 'normal')
                normal_after = self.cur
            self._flush_pending(fin_ctx, make_clone)
            after = normal_after
        self._trys = old_trys
        self.cur = after

    # ---------------------------------------------------------- expressions
    def _cond(self, e: ast.expr) -> Tuple[Frontier, Frontier]:
        if isinstance(e, ast.BoolOp):
            if isinstance(e.op, ast.And):
                t, f = self._cond(e.values[0])
                for v in e.values[1:]:
                    self.cur = t
                    t, f2 = self._cond(v)
                    f = f + f2
                return t, f
            t, f = self._cond(e.values[0])
            for v in e.values[1:]:
                self.cur = f
                t2, f = self._cond(v)
                t = t + t2
            return t, f
        if isinstance(e, ast.UnaryOp) and isinstance(e.op, ast.Not):
            t, f = self._cond(e.operand)
            return f, t
        if isinstance(e, ast.Constant):
            if e.value:
                return self.cur, []
            return [], self.cur
        if isinstance(e, (ast.Tuple, ast.List)) and e.elts and not any(isinstance(x, ast.Starred) for x in e.elts):
            # a non-empty display is true; its elements are evaluated (walrus bindings of a desugared `case` pattern)
            self._expr(e)
            return self.cur, []
        call = e.value if isinstance(e, ast.Await) and isinstance(e.value, ast.Call) else e
        if isinstance(call, ast.Call):
            # `if helper(x):` with an inlinable helper: as `t = helper(x); if t:` - the constants the helper returns are
            # distributed to the synthetic flag at each of its returns, so the branch is decided per path
            target = self._inline_target(call, awaited=isinstance(e, ast.Await))
            if target is not None and not any(getattr(c, 'assign_targets', None) for c in self.ctx if c.kind == 'inline'):
                flag = f'__cond_{getattr(e, "lineno", 0)}_{getattr(e, "col_offset", 0)}'
                tgt = ast.copy_location(ast.Name(id=flag, ctx=ast.Store()), e)
                syn = ast.copy_location(ast.Assign(targets=[tgt], value=e), e)
                syn._parent = getattr(e, '_parent', None)  # type: ignore[attr-defined]
                self._expr(call.func)
                for a in call.args:
                    self._expr(a)
                for k in call.keywords:
                    self._expr(k.value)
                self._inline(call, *target, assign_targets=[tgt], assign_stmt=syn)
                test = ast.copy_location(ast.Name(id=flag, ctx=ast.Load()), e)
                test._cond_of = e  # type: ignore[attr-defined]
                b = self._node('branch', test, test=test, synthetic=True, original_test=e)
                return [(b, 'true')], [(b, 'false')]
        self._expr(e)
        # a test inside an assert is an invariant the author states, not a decision the code takes: its node has its own kind
        # ('assume'), so that only the path queries (narrowing) see it and no rule mistakes it for a guard
        b = self._node('assume' if getattr(self, '_in_assert', 0) else 'branch', e, test=e)
        if getattr(self, '_in_assert', 0):
            b.meta['in_assert'] = True
        return [(b, 'true')], [(b, 'false')]

    def _expr(self, e: Optional[ast.AST]) -> None:
        if e is None:
            return
        m = getattr(self, '_e_' + type(e).__name__, None)
        if m is not None:
            m(e)
            return
        # generic: evaluate children in field order
        for ch in ast.iter_child_nodes(e):
            if isinstance(ch, (ast.expr_context, ast.operator, ast.unaryop,
                               ast.cmpop, ast.boolop)):
                continue
            self._expr(ch)

    def _e_Constant(self, e) -> None:
        pass

    def _e_Name(self, e) -> None:
        pass

    def _e_Lambda(self, e) -> None:
        pass

    def _e_keyword(self, e: ast.keyword) -> None:
        self._expr(e.value)

    def _e_Call(self, e: ast.Call) -> None:
        self._expr(e.func)
        for a in e.args:
            self._expr(a)
        for k in e.keywords:
            self._expr(k.value)
        target = self._inline_target(e, awaited=False)
        if target is not None:
            self._inline(e, *target)
            return
        # a call of a callable *parameter* of the helper being inlined: expand what it is bound to
        if isinstance(e.func, ast.Name) and self._inlining:
            ic = next((c for c in reversed(self.ctx) if c.kind == 'inline'), None)
            bound = getattr(ic, 'callables', {}).get(e.func.id) if ic is not None else None
            if isinstance(bound, ast.Lambda) and not e.args and not e.keywords and not bound.args.args:
                self._node('inline_enter', e, name='<lambda>')
                saved_res, saved_scope = self.res, self.cur_scope
                host = self._lambda_host(bound)
                if host is not None:
                    self.res, self.cur_scope = Resolver(host), host
                try:
                    self._expr(bound.body)
                finally:
                    self.res, self.cur_scope = saved_res, saved_scope
                self._node('inline_exit', e, name='<lambda>')
                self.inline_values[id(e)] = (bound.body, {})
                return
            la = bound.args if isinstance(bound, ast.Lambda) else None
            if la is not None and la.args and not (la.vararg or la.kwarg or la.kwonlyargs or la.posonlyargs or la.defaults) \
                    and len(e.args) == len(la.args) and not e.keywords and not any(isinstance(a, ast.Starred) for a in e.args) \
                    and not any(isinstance(x, ast.Lambda) for x in ast.walk(bound.body)):
                # `runner(loop)` with runner bound to `lambda _loop: _loop.run_until_complete(aw)`: the lambda's
                # parameters are bound to the arguments and its body is evaluated in the scope that wrote the lambda
                names = [a.arg for a in la.args]
                taken: Set[str] = set(self.scope.locals) | set(self.scope.params)
                for fr in self._inline_frames:
                    taken |= fr
                ren = {}
                for nm in names:
                    if nm in taken:
                        self._rename_k += 1
                        ren[nm] = f'{nm}\u00b7{self._rename_k}'
                body = _clone_renamed(bound.body, ren) if ren else bound.body
                self._node('inline_enter', e, name='<lambda>')
                for nm, arg in zip(names, e.args):
                    self._node('store_name', arg, e.lineno, name=ren.get(nm, nm), value=arg, stmt=e, inlined_param=True)
                saved_res, saved_scope = self.res, self.cur_scope
                host = self._lambda_host(bound)
                if host is not None:
                    self.res, self.cur_scope = Resolver(host), host
                self._inline_frames.append({ren.get(nm, nm) for nm in names})
                try:
                    self._expr(body)
                finally:
                    self.res, self.cur_scope = saved_res, saved_scope
                    self._inline_frames.pop()
                self._node('inline_exit', e, name='<lambda>')
                self.inline_values[id(e)] = (body, {ren.get(nm, nm): arg for nm, arg in zip(names, e.args)})
                return
            if isinstance(bound, ast.Attribute):
                synth = ast.Call(func=bound, args=list(e.args), keywords=list(e.keywords))
                ast.copy_location(synth, e)
                self._node('call', synth, synthetic_for=e)
                return
            if isinstance(bound, (ast.Name, ast.Call)) and e.args and not e.keywords:
                # operator.methodcaller('m', *a) - given directly or bound to a local of the caller: run(obj) is obj.m(*a)
                from .match import closure_value
                host = getattr(ic, 'caller_scope', None)
                if isinstance(bound, ast.Call):
                    v = bound
                else:
                    v = closure_value(host, bound.id) if host is not None else None
                if host is not None and isinstance(v, ast.Call) and Resolver(host).path(v.func) == 'operator.methodcaller' and v.args \
                        and isinstance(v.args[0], ast.Constant) and isinstance(v.args[0].value, str) and not v.keywords:
                    fn_ = ast.Attribute(value=e.args[0], attr=v.args[0].value, ctx=ast.Load())
                    synth = ast.Call(func=fn_, args=list(v.args[1:]) + list(e.args[1:]), keywords=[])
                    for y in ast.walk(synth):
                        if not hasattr(y, 'lineno'):
                            ast.copy_location(y, e)
                    ast.copy_location(synth, e)
                    synth._parent = getattr(e, '_parent', None)  # type: ignore[attr-defined]
                    self._node('call', synth, synthetic_for=e, methodcaller_args=list(v.args[1:]), methodcaller_scope=host)
                    return
        self._node('call', e)
        if self.expand_deferred and isinstance(e.func, ast.Attribute) and all(k.arg is not None for k in e.keywords) \
                and not any(isinstance(a, ast.Starred) for a in e.args):
            fa = None
            fkw: List[ast.keyword] = []
            if e.func.attr == 'run_in_executor' and len(e.args) >= 2 and not e.keywords:
                fa = e.args[1:]
            elif e.func.attr == 'submit' and len(e.args) >= 1:
                fa = e.args
                fkw = list(e.keywords)        # Executor.submit(fn, *args, **kwargs) calls fn(*args, **kwargs)
            if fa is not None:
                synth = ast.Call(func=fa[0], args=list(fa[1:]), keywords=fkw)
                ast.copy_location(synth, e)
                synth._parent = getattr(e, '_parent', None)  # type: ignore[attr-defined]
                target = self._inline_target(synth, awaited=False, any_module_helper=True)
                if target is not None:
                    # (the expansion is sequential: the graph answers "what does the worker do, with which values",
                    # not how the two threads interleave)
                    self._deferred += 1
                    try:
                        self._inline(synth, *target)
                    finally:
                        self._deferred -= 1
        flag = self._stack_sites.get(id(e))
        if flag is not None:
            tc = ast.copy_location(ast.Constant(value=True), e)
            self._node('store_name', ast.copy_location(ast.Name(id=flag, ctx=ast.Store()), e), e.lineno,
                       name=flag, value=tc, stmt=e, synthetic=True)
            if isinstance(e.func, ast.Attribute) and e.func.attr == 'enter_context':
                cname = flag.replace('__exitstack_', '__ctx_')
                self._node('store_name', ast.copy_location(ast.Name(id=cname, ctx=ast.Store()), e), e.lineno,
                           name=cname, value=e, stmt=e, synthetic=True)

    def _cm_target(self, ce: ast.AST):
        """`with helper(args):` where helper is a private/nested generator function decorated with
        contextlib.contextmanager, has exactly one `yield` (an expression statement, outside any loop) and no
        `return`: (scope, parameter binding, the yield node); else None."""
        if not isinstance(ce, ast.Call) or not isinstance(ce.func, (ast.Name, ast.Attribute)):
            return None
        if any(isinstance(a, ast.Starred) for a in ce.args) or any(k.arg is None for k in ce.keywords):
            return None
        t: Optional[Scope] = None
        skip_self = False
        f = ce.func
        if isinstance(f, ast.Name):
            bs = self.cur_scope.binding_scope(f.id)
            if bs is None:
                return None
            cands = [c for c in bs.children if c.kind == 'function' and c.name == f.id]
            if len(cands) != 1 or _has_nondef_binding(bs, f.id):
                return None
            t = cands[0]
            if bs.kind == 'module' and not f.id.startswith('_'):
                return None
        elif isinstance(f.value, ast.Name) and f.value.id == 'self' and f.attr.startswith('_') and not f.attr.startswith('__'):
            sc: Optional[Scope] = self.cur_scope
            cls = None
            while sc is not None:
                if sc.kind == 'class':
                    cls = sc
                    break
                sc = sc.parent
            if cls is None:
                return None
            t = find_method(self.program, cls, f.attr)
            skip_self = True
            if t is not None:
                for sub in subclasses(self.program, cls):
                    if sub.unit.scopes.get(f'{sub.qualname}.{f.attr}') is not None:
                        return None
        if t is None or t.is_async or t.qualname in self._inlining or len(self._inlining) >= 4:
            return None
        decs = [Resolver(t.parent or t).path(d) or dotted(d) or '' for d in t.decorators]
        if len(decs) == 2 and decs[0].split('.')[-1] == 'staticmethod' and skip_self:
            decs = decs[1:]
            skip_self = False
        if len(decs) != 1 or not decs[0].endswith('contextmanager'):
            return None
        ys = [x for x in own_nodes(t.node) if isinstance(x, (ast.Yield, ast.YieldFrom))]
        if len(ys) != 1 or not isinstance(ys[0], ast.Yield) or not isinstance(parent(ys[0]), ast.Expr):
            return None
        if any(isinstance(x, ast.Return) for x in own_nodes(t.node)):
            return None
        for a_ in ancestors(ys[0]):
            if a_ is t.node:
                break
            if isinstance(a_, (ast.For, ast.While, ast.AsyncFor)):
                return None
        a = t.node.args
        if a.vararg or a.kwarg or a.posonlyargs or a.kwonlyargs:
            return None
        params = [x.arg for x in a.args][1 if skip_self else 0:]
        if len(ce.args) > len(params):
            return None
        defaults = dict(zip(reversed([x.arg for x in a.args]), reversed(a.defaults)))
        binding = dict(zip(params, ce.args))
        for k in ce.keywords:
            if k.arg not in params or k.arg in binding:
                return None
            binding[k.arg] = k.value
        for prm in params:
            if prm not in binding:
                if prm not in defaults:
                    return None
                binding[prm] = defaults[prm]
        return t, [(prm, binding[prm]) for prm in params], ys[0]

    def _lambda_host(self, lam: ast.Lambda) -> Optional[Scope]:
        for a in ancestors(lam):
            if isinstance(a, FuncNode):
                for sc in self.unit.scopes.values():
                    if sc.node is a:
                        return sc
        return None

    # -- inlining (DESIGN 3.1: extracting a block into a helper that is called
    #    inline - or inlining a helper - must not change any verdict) ----------
    #  * nested helpers (closures): sync when called, async when awaited directly
    #  * with inline_methods: private, non-overridden methods of the same class
    def _inline_target(self, e: ast.Call, awaited: bool, _depth: int = 0, any_module_helper: bool = False):
        f = e.func
        ic0 = next((c for c in reversed(self.ctx) if c.kind == 'inline' or (c.kind == 'cm' and getattr(c, 'scope', None) is self.cur_scope)), None)
        if any(isinstance(a, ast.Starred) for a in e.args) and ic0 is not None and ic0.kind == 'inline' and not any(k.arg is None for k in e.keywords):
            # `hook(*args)` inside an inlined `def helper(hook, *args)`: the caller's extra arguments, which travel as a
            # tuple display, are spread again
            flat: List[ast.expr] = []
            for a_ in e.args:
                if not isinstance(a_, ast.Starred):
                    flat.append(a_)
                    continue
                pack = None
                if isinstance(a_.value, ast.Name):
                    orig_ = getattr(ic0, 'renamed', {}).get(a_.value.id, a_.value.id)
                    va_ = getattr(ic0, 'scope', None)
                    va_ = va_.node.args.vararg if va_ is not None else None
                    cand_ = getattr(ic0, 'binding', {}).get(orig_)
                    if va_ is not None and va_.arg == orig_ and isinstance(cand_, ast.Tuple) and getattr(cand_, '_vararg_pack', False) \
                            and not any(isinstance(x, ast.Name) and x.id == orig_ and isinstance(x.ctx, (ast.Store, ast.Del))
                                        for x in ast.walk(ic0.scope.node)):
                        pack = cand_
                if pack is None:
                    return None
                flat.extend(pack.elts)
            e2_ = ast.Call(func=e.func, args=flat, keywords=list(e.keywords))
            ast.copy_location(e2_, e)
            e2_._parent = getattr(e, '_parent', None)  # type: ignore[attr-defined]
            e = e2_
        if any(isinstance(a, ast.Starred) for a in e.args) or any(k.arg is None for k in e.keywords):
            return None
        if isinstance(f, ast.Name) and self._inlining and _depth < 2 and \
                (getattr(ic0, 'renamed', {}).get(f.id, f.id) if ic0 is not None else f.id) in self.cur_scope.params:
            # a parameter of the helper being inlined that the caller bound to one of its own functions
            # (`self._helper(_load, x)` ... `await loader(item)`): the call is a call of that function, seen from the caller
            ic = ic0
            bound = getattr(ic, 'callables', {}).get(f.id) if ic is not None else None
            host = getattr(ic, 'caller_scope', None)
            # a callable handed down through several inlined helpers (`_buffer_once(load)` -> `_load_next_or_run(load)`):
            # follow the chain of bindings outwards to the scope that owns the function
            ics = [c for c in reversed(self.ctx) if c.kind in ('inline', 'cm')]
            k_ = 1
            while isinstance(bound, ast.Name) and host is not None and k_ < len(ics):
                oc = ics[k_]
                onm = getattr(oc, 'renamed', {}).get(bound.id, bound.id)
                if getattr(oc, 'scope', None) is host and onm in host.params and bound.id in getattr(oc, 'callables', {}):
                    bound, host = oc.callables[bound.id], getattr(oc, 'caller_scope', None)
                    k_ += 1
                else:
                    break
            if (isinstance(bound, ast.Name) or (isinstance(bound, ast.Attribute) and isinstance(bound.value, ast.Name)
                                                and bound.value.id == 'self')) and host is not None:
                synth = ast.Call(func=bound, args=list(e.args), keywords=list(e.keywords))
                ast.copy_location(synth, e)
                synth._parent = getattr(e, '_parent', None)  # type: ignore[attr-defined]
                saved_scope, saved_res = self.cur_scope, self.res
                self.cur_scope, self.res = host, Resolver(host)
                try:
                    return self._inline_target(synth, awaited, _depth + 1, any_module_helper)
                finally:
                    self.cur_scope, self.res = saved_scope, saved_res
        if isinstance(f, ast.Name) and _depth < 2:
            # a single-assignment local bound to functools.partial(helper, a, ...): the call is helper(a, ..., *args)
            from .match import closure_value
            bs0 = self.cur_scope.binding_scope(f.id)
            if bs0 is not None and bs0.kind == 'function' and f.id not in bs0.params:
                v = closure_value(bs0, f.id)
                if isinstance(v, ast.Call) and self.res.path(v.func) == 'functools.partial' and v.args \
                        and not any(isinstance(a, ast.Starred) for a in v.args) and not any(k.arg is None for k in v.keywords):
                    synth = ast.Call(func=v.args[0], args=list(v.args[1:]) + list(e.args), keywords=list(v.keywords) + list(e.keywords))
                    ast.copy_location(synth, e)
                    return self._inline_target(synth, awaited, _depth + 1, any_module_helper)
        t: Optional[Scope] = None
        skip_self = False
        if isinstance(f, ast.Name):
            if not self.inline_nested:
                return None
            bs = self.cur_scope.binding_scope(f.id)
            if bs is not None and bs.kind == 'module':
                # private module-level helper that calls one of its own parameters (a higher-order
                # wrapper such as "run this while holding that lock"): expanded so that the code it
                # wraps is seen in the wrapper's context
                if not f.id.startswith('_'):
                    return None
                cands0 = [c for c in bs.children if c.kind == 'function' and c.name == f.id]
                if len(cands0) != 1 or _has_nondef_binding(bs, f.id):
                    return None
                t0 = cands0[0]
                pnames = {x.arg for x in t0.node.args.args}
                calls_param = any(isinstance(x, ast.Call) and isinstance(x.func, ast.Name) and x.func.id in pnames
                                  for x in own_nodes(t0.node))
                if not calls_param and not any_module_helper and not self.inline_module_helpers:
                    return None
                bs = None
                t = t0
            if t is None and (bs is None or bs.kind != 'function'):
                return None
            # the helper must be a plain def (bound once, by its def) in this
            # function or an enclosing one
            if t is None:
                cands = [c for c in bs.children if c.kind == 'function' and c.name == f.id]
                if len(cands) != 1 or _has_nondef_binding(bs, f.id):
                    return None
                t = cands[0]
        elif self.inline_methods and isinstance(f, ast.Attribute) and isinstance(f.value, ast.Name) \
                and f.value.id == 'self' and f.attr.startswith('_') and not f.attr.startswith('__'):
            sc: Optional[Scope] = self.cur_scope
            cls = None
            while sc is not None:
                if sc.kind == 'class':
                    cls = sc
                    break
                sc = sc.parent
            if cls is None:
                return None
            m = find_method(self.program, cls, f.attr)
            if m is None or _is_abstract(m) or m.qualname in self.no_inline:
                return None
            for sub in subclasses(self.program, cls):
                if sub.unit.scopes.get(f'{sub.qualname}.{f.attr}') is not None:
                    return None
            t = m
            skip_self = True
        static = False
        if t is not None and t.decorators:
            decs = [dotted(d) for d in t.decorators]
            if decs == ['staticmethod']:
                static = True
                skip_self = False
            else:
                return None
        if t is None or t.is_generator or t.is_async != awaited or t.qualname in self.no_inline:
            return None
        if t.qualname in self._inlining or len(self._inlining) >= 4 or t is self.scope:
            return None
        a = t.node.args
        if a.kwarg or a.posonlyargs:
            return None
        params = [x.arg for x in a.args][1 if skip_self else 0:]
        if a.vararg:
            # `def helper(self, *args)`: the extra positional arguments travel as a tuple
            if len(e.args) < len(params):
                return None
            kwo: Dict[str, ast.expr] = {}
            for prm, d in zip(a.kwonlyargs, a.kw_defaults):
                if d is not None:
                    kwo[prm.arg] = d
            konly = [x.arg for x in a.kwonlyargs]
            for k in e.keywords:
                if k.arg not in konly:
                    return None
                kwo[k.arg] = k.value
            if any(x not in kwo for x in konly):
                return None
            extra = ast.Tuple(elts=list(e.args[len(params):]), ctx=ast.Load())
            ast.copy_location(extra, e)
            extra._vararg_pack = True  # type: ignore[attr-defined]
            return t, [(prm, arg) for prm, arg in zip(params, e.args)] + [(a.vararg.arg, extra)] + [(x, kwo[x]) for x in konly]
        defaults: Dict[str, ast.expr] = {}
        for prm, d in zip(reversed([x.arg for x in a.args]), reversed(a.defaults)):
            defaults[prm] = d
        for prm, d in zip(a.kwonlyargs, a.kw_defaults):
            if d is not None:
                defaults[prm.arg] = d
        allp = params + [x.arg for x in a.kwonlyargs]
        if len(e.args) > len(params):
            return None
        binding: Dict[str, ast.expr] = {}
        for prm, arg in zip(params, e.args):
            binding[prm] = arg
        for k in e.keywords:
            if k.arg not in allp or k.arg in binding:
                return None
            binding[k.arg] = k.value
        for prm in allp:
            if prm not in binding:
                if prm not in defaults:
                    return None
                binding[prm] = defaults[prm]
        return t, [(prm, binding[prm]) for prm in allp]

    def _hygienic(self, t: Scope, binding):
        """Names local to helper *t* that are also names of the function being analysed or of a helper on the
        inlining stack would be captured by the inlined copy (`def _spawn(self, coro)` called from
        `def _schedule(self, coro)`): the helper is inlined from a clone with those names renamed.
        Returns (function node to inline from, binding, {new name: old name})."""
        tl = set(getattr(t, 'locals', ())) | set(t.params)
        tl.discard('self')
        if not tl:
            return t.node, binding, {}
        if any(c.kind in ('function', 'class') for c in t.children) or any(isinstance(x, ast.Lambda) for x in ast.walk(t.node)):
            return t.node, binding, {}       # closures of the helper read its locals by their own names
        taken: Set[str] = set(self.scope.locals) | set(self.scope.params)
        for fr in self._inline_frames:
            taken |= fr
        # a parameter bound to the caller's variable of the same name is the same thing under the same name
        same = {prm for prm, arg in binding if isinstance(arg, ast.Name) and arg.id == prm}
        collide = {nm for nm in tl if nm in taken and nm not in same}
        # ... names the helper shares with an enclosing scope it is nested in are not its own
        if not collide:
            return t.node, binding, {}
        self._rename_k += 1
        ren = {nm: f'{nm}\u00b7{self._rename_k}' for nm in collide}
        fn = _clone_renamed(t.node, ren)
        return fn, [(ren.get(prm, prm), arg) for prm, arg in binding], {v: k for k, v in ren.items()}

    def _inline(self, e: ast.Call, t: Scope, binding, assign_targets=None, assign_stmt=None, return_through=False) -> None:
        fnode, binding, renamed = self._hygienic(t, binding)
        self._node('inline_enter', e, name=t.qualname, awaited=t.is_async, await_ast=parent(e) if t.is_async else None)
        for prm, arg in binding:
            self._node('store_name', arg, e.lineno, name=prm, value=arg, stmt=e, inlined_param=True)
        c = _Ctx('inline', node=e)
        c.renamed = renamed
        c.returns = []
        c.assign_targets = assign_targets
        c.assign_stmt = assign_stmt
        c.return_through = return_through
        c.caller_scope = self.cur_scope
        c.scope = t
        c.binding = {renamed.get(prm, prm): arg for prm, arg in binding}
        c.callables = {prm: arg for prm, arg in binding
                       if isinstance(arg, (ast.Lambda, ast.Attribute, ast.Call)) or (isinstance(arg, ast.Name) and not isinstance(arg, ast.Constant))}
        self.ctx.append(c)
        self._inlining.append(t.qualname)
        saved_res = self.res
        saved_scope = self.cur_scope
        self.res = Resolver(t)
        self.cur_scope = t
        self._inline_frames.append((set(getattr(t, 'locals', ())) | set(t.params)) - {'self'} | set(renamed))
        try:
            self._build_body(fnode.body)
            if self.cur and assign_targets:
                # falling off the end returns None
                none = ast.Constant(value=None)
                for tg in assign_targets:
                    self._store(tg, none, assign_stmt)
        finally:
            self.res = saved_res
            self.cur_scope = saved_scope
            self._inlining.pop()
            self._inline_frames.pop()
            self.ctx.pop()
        self.cur = self.cur + c.returns
        if self.cur:
            self._node('inline_exit', e, name=t.qualname)
        # value of the call expression, when the helper is a single-return function
        rets = [x for x in own_nodes(fnode) if isinstance(x, ast.Return)]
        if len(rets) == 1 and rets[0].value is not None and fnode.body and fnode.body[-1] is rets[0]:
            self.inline_values[id(e)] = (rets[0].value, dict(binding))

    def _e_Await(self, e: ast.Await) -> None:
        if isinstance(e.value, ast.Call):
            target = self._inline_target(e.value, awaited=True)
            if target is not None:
                c = e.value
                self._expr(c.func)
                for a in c.args:
                    self._expr(a)
                for k in c.keywords:
                    self._expr(k.value)
                self._inline(c, *target)
                self.inline_values.setdefault(id(e), self.inline_values.get(id(c))) if id(c) in self.inline_values else None
                return
        self._expr(e.value)
        self._node('await', e)

    def _e_Yield(self, e: ast.Yield) -> None:
        if e.value is not None:
            self._expr(e.value)
        self._node('yield', e)

    def _e_YieldFrom(self, e: ast.YieldFrom) -> None:
        self._expr(e.value)
        self._node('yield', e, yield_from=True)

    def _e_Subscript(self, e: ast.Subscript) -> None:
        self._expr(e.value)
        self._expr(e.slice)
        if isinstance(e.ctx, ast.Load):
            self._node('load_sub', e)

    def _e_BinOp(self, e: ast.BinOp) -> None:
        self._expr(e.left)
        self._expr(e.right)
        # a division by something that is not a non-zero literal may raise ZeroDivisionError (`n / elapsed`)
        if isinstance(e.op, (ast.Div, ast.FloorDiv)) and not (
                isinstance(e.right, ast.Constant) and isinstance(e.right.value, (int, float)) and e.right.value):
            self._node('divide', e)

    def _e_NamedExpr(self, e: ast.NamedExpr) -> None:
        self._expr(e.value)
        self._node('store_name', e.target, e.lineno, name=e.target.id, value=e.value, stmt=e)

    def _e_BoolOp(self, e: ast.BoolOp) -> None:
        t, f = self._cond(e)
        self.cur = t + f

    def _e_IfExp(self, e: ast.IfExp) -> None:
        t, f = self._cond(e.test)
        self.cur = t
        self._expr(e.body)
        a = self.cur
        self.cur = f
        self._expr(e.orelse)
        self.cur = a + self.cur

    def _comp(self, e, elts: List[ast.expr]) -> None:
        gens = e.generators
        heads = []
        for g in gens:
            self._expr(g.iter)
            h = self._node('comp_iter', g, e.lineno, is_async=bool(g.is_async))
            heads.append(h)
            self.cur = [(h, 'true')]
            for cond in g.ifs:
                t, f = self._cond(cond)
                for src, label in f:
                    self._edge(src, h, label)
                self.cur = t
        for x in elts:
            self._expr(x)
        for src, label in self.cur:
            self._edge(src, heads[-1], 'loop')
        for i in range(len(heads) - 1, 0, -1):
            self._edge(heads[i], heads[i - 1], 'false')
        self.cur = [(heads[0], 'false')]

    def _e_ListComp(self, e) -> None:
        self._comp(e, [e.elt])

    _e_SetComp = _e_ListComp
    _e_GeneratorExp = _e_ListComp

    def _e_DictComp(self, e) -> None:
        self._comp(e, [e.key, e.value])

    # ------------------------------------------------------------ utilities
    def edges(self) -> Iterable[Edge]:
        for lst in self.succ.values():
            yield from lst

    def find(self, kind: Optional[str] = None, pred: Optional[Callable[[Node], bool]] = None) -> List[Node]:
        return [n for n in self.nodes
                if (kind is None or n.kind == kind) and (pred is None or pred(n))]

    def loc(self, n: Node) -> str:
        return f'{self.unit.rel}:{n.line}'

    def stats(self) -> dict:
        return {'nodes': len(self.nodes), 'edges': sum(len(v) for v in self.succ.values()),
                'suspension_points': sum(1 for n in self.nodes if n.suspends)}


def make_clone_with_edges(cfg: CFG, frontier: Frontier, pend, what: str,
                          make_clone: Callable[[Frontier, str], Optional[Node]]) -> Optional[Node]:
    """Create the cleanup clone for continuation *what*; attach exception class
    labels on the entering edges."""
    n = make_clone(frontier, what)
    if n is None:
        return None
    if what == 'exc':
        for src, cl, _ in pend:
            for e in cfg.succ[src.id]:
                if e.dst is n and e.label == 'exc':
                    e.classes = (e.classes or frozenset()) | (cl or frozenset())
    return n


# ---------------------------------------------------------------------------
# Raise model
# ---------------------------------------------------------------------------

class RaiseModel:
    """Default raise-set model (DESIGN 2.2, 'raise-set table').

    `extra(cfg, node)` hooks let a rule add a fault model (e.g. OSError at
    every os.* call is already in the table; `Exception` for unknown calls is
    opt-in through `unknown_calls_raise`)."""

    def __init__(self, program: Program, unknown_calls_raise: Optional[str] = None):
        self.program = program
        self.unknown_calls_raise = unknown_calls_raise
        self._summaries: Dict[Tuple[str, str], Tuple[FrozenSet[str], bool]] = {}
        self._in_progress: Set[Tuple[str, str]] = set()
        self.unknown_callees: Dict[str, int] = {}
        self.table_hits: Dict[str, int] = {}

    # -- summaries of in-package callees -------------------------------------
    def summary(self, scope: Scope) -> Tuple[FrozenSet[str], bool]:
        """(classes escaping, may suspend) for a package function."""
        key = (scope.unit.rel, scope.qualname)
        if key in self._summaries:
            return self._summaries[key]
        if key in self._in_progress:
            return frozenset({ANY}), True
        self._in_progress.add(key)
        try:
            g = build(scope, self.program, self)
            classes: Set[str] = set()
            for e in g.pred[g.raise_exit.id]:
                classes |= set(e.classes or ())
            susp = any(n.suspends for n in g.nodes)
            self._summaries[key] = (frozenset(classes), susp)
        finally:
            self._in_progress.discard(key)
        return self._summaries[key]

    # -- main entry -------------------------------------------------------------
    def raises(self, cfg: CFG, n: Node) -> Tuple[Set[str], bool]:
        k = n.kind
        if k == 'call':
            return self._call(cfg, n), False
        if k == 'await':
            return self._await(cfg, n)
        if k == 'yield':
            if cfg.is_contextmanager:
                return {ANY}, True
            return {'GeneratorExit'}, True
        if k == 'load_sub':
            sl = n.ast.slice  # type: ignore[union-attr]
            if isinstance(sl, ast.Slice):
                return set(), False
            if isinstance(sl, ast.Constant) and isinstance(sl.value, int):
                # fixed-shape tuple indexing (`t[1]`): the repo's only use of
                # constant integer subscripts; treated as total
                return set(), False
            if _const_dict_read(cfg, n.ast):
                return set(), False
            return {'KeyError'}, False
        if k == 'del_sub':
            return {'KeyError'}, False
        if k == 'store_sub':
            # `m[k] = v` on a mapping the caller may have supplied runs the caller's `__setitem__` (a bounded,
            # validating or remote cache): it may raise; on the package's own dicts it does not
            recv = getattr(n.ast, 'value', None)
            if isinstance(recv, ast.Name) and may_be_user_mapping(cfg, recv):
                return {ANY}, False
            return set(), False
        if k == 'divide':
            return {'ZeroDivisionError'}, False
        if k == 'unpack':
            v = n.meta.get('value')
            if isinstance(v, (ast.Tuple, ast.List)) and len(v.elts) == n.meta['arity']:
                return set(), False
            if v is None:
                # for-loop / with targets: shape is fixed by the producer
                return set(), False
            if isinstance(v, ast.Call):
                info = callee_info(cfg, v)
                if info['kind'] == 'lib' and info['name'] in (
                        'itertools.tee',):
                    return set(), False
                return {'ValueError'}, False
            if isinstance(v, ast.Name):
                return {'ValueError', 'TypeError'}, False
            return set(), False
        if k == 'raise':
            return self._raise(cfg, n), False
        if k == 'assert_fail':
            return {'AssertionError'}, False
        if k == 'for_iter':
            if n.meta.get('is_async'):
                return {ANY, 'CancelledError'}, True
            it = n.ast.iter  # type: ignore[union-attr]
            if isinstance(it, ast.Name) and is_user_value(cfg, it):
                return {ANY}, False
            return set(), False
        if k in ('with_enter', 'with_exit'):
            if n.meta.get('is_async'):
                return {'CancelledError'}, True
            return set(), False
        if k == 'import':
            return {'ImportError'}, False
        return set(), False

    # -- calls ------------------------------------------------------------------
    LAZY_BUILDERS = {'itertools.islice', 'builtins.map', 'builtins.iter', 'builtins.filter',
                     'builtins.zip', 'builtins.enumerate', 'itertools.chain'}

    def _lazy_raises(self, cfg: CFG, e: ast.AST) -> Set[str]:
        """Idiom table (DESIGN 2.3): a lazy iterator built from
        `iter(callable, sentinel)` raises, when consumed, what the callable
        raises."""
        out: Set[str] = set()
        if not isinstance(e, ast.Call):
            return out
        name = cfg.res.path(e.func) or ''
        if name == 'builtins.iter' and len(e.args) == 2:
            fake = ast.Call(func=e.args[0], args=[], keywords=[])
            fn = Node(-1, 'call', fake, getattr(e, 'lineno', 0))
            out |= self._call(cfg, fn, lazy=True)
            return out
        if name in self.LAZY_BUILDERS:
            for a in e.args:
                out |= self._lazy_raises(cfg, a)
        return out

    def _call(self, cfg: CFG, n: Node, lazy: bool = False) -> Set[str]:
        call = n.ast
        assert isinstance(call, ast.Call)
        info = callee_info(cfg, call)
        n.meta['callee'] = info
        if not lazy and (info.get('name') or '') not in self.LAZY_BUILDERS:
            extra: Set[str] = set()
            for a in call.args:
                extra |= self._lazy_raises(cfg, a)
            if extra:
                n.meta['lazy_raises'] = sorted(extra)
                return extra | self._call(cfg, n, lazy=True)
        kind = info['kind']
        if kind == 'user':
            return {ANY}
        if kind == 'package':
            out: Set[str] = set()
            for sc in info['scopes']:
                if sc.is_async or sc.is_generator:
                    continue  # calling creates the coroutine/generator only
                if sc.kind == 'class':
                    init = find_method(self.program, sc, '__init__')
                    if init is not None:
                        out |= self.summary(init)[0]
                    continue
                out |= self.summary(sc)[0]
            return out
        # a dunder of the iteration protocol called by hand on a value the caller supplied (`iterable.__aiter__()`,
        # `it.__next__()`) runs the caller's code like the `for` statement it replaces
        if kind == 'method' and isinstance(call.func, ast.Attribute) and call.func.attr in ('__aiter__', '__iter__', '__anext__', '__next__') \
                and isinstance(call.func.value, ast.Name) and is_user_value(cfg, call.func.value):
            return {ANY}
        name = info['name'] or ''
        if name in ('builtins.sorted', 'builtins.min', 'builtins.max', 'builtins.sum') and (
                any(isinstance(a_, ast.Name) and is_user_value(cfg, a_) for a_ in call.args)
                or (len(call.args) == 1 and isinstance(call.args[0], (ast.Name, ast.Attribute)))):
            # ordering / adding up the elements of a collection (or values the caller supplied) runs their comparison methods:
            # unorderable elements raise.  (The numeric forms `max(0, n - 1)` stay total.)
            self.table_hits[name] = self.table_hits.get(name, 0) + 1
            return {'TypeError'}
        if name in model.TOTAL_CALLS:
            return set()
        if name == 'builtins.getattr' and len(call.args) == 3 and not call.keywords:
            self.table_hits[name] = self.table_hits.get(name, 0) + 1
            return set()            # getattr(o, name, default) does not raise AttributeError
        if name in model.CALL_RAISES:
            self.table_hits[name] = self.table_hits.get(name, 0) + 1
            return set(model.CALL_RAISES[name])
        meth = info.get('method')
        if meth == 'items' and isinstance(call.func, ast.Attribute) and isinstance(call.func.value, ast.Name):
            fnode = cfg.cur_scope.node
            kw = getattr(getattr(fnode, 'args', None), 'kwarg', None)
            if kw is not None and kw.arg == call.func.value.id:
                return set()  # **kwargs is always a dict
            if not is_user_value(cfg, call.func.value):
                return set()
        if meth == 'acquire' and isinstance(call.func, ast.Attribute):
            # Lock.acquire(blocking, timeout) validates a timeout it is handed: ValueError for a negative one other than -1 (or
            # one combined with blocking=False), OverflowError for one that is too large - before anything is acquired
            tmo = call.args[1] if len(call.args) > 1 else next((k.value for k in call.keywords if k.arg == 'timeout'), None)
            if isinstance(tmo, ast.Name) and is_user_value(cfg, tmo):
                return {'ValueError', 'OverflowError'}
        if meth == 'release' and isinstance(call.func, ast.Attribute) and not (cfg.res.path(call.func.value) or '').startswith('self.'):
            # Lock.release() raises only when the lock is not held; for a lock
            # that lives in a closure / local / global the pairing is visible
            # in this very function (held-lock analysis), so it is total here.
            return set()
        if meth and meth in model.METHOD_RAISES and kind != 'lib-func':
            self.table_hits['.' + meth] = self.table_hits.get('.' + meth, 0) + 1
            return set(model.METHOD_RAISES[meth])
        self.unknown_callees[name or ast.unparse(call.func)] = \
            self.unknown_callees.get(name or ast.unparse(call.func), 0) + 1
        if self.unknown_calls_raise:
            return {self.unknown_calls_raise}
        return set()

    def _await(self, cfg: CFG, n: Node) -> Tuple[Set[str], bool]:
        aw = n.ast
        assert isinstance(aw, ast.Await)
        v = aw.value
        if isinstance(v, ast.Call):
            info = callee_info(cfg, v)
            n.meta['awaited'] = info
            if info['kind'] == 'user':
                return {ANY, 'CancelledError'}, True
            if info['kind'] == 'package':
                out: Set[str] = set()
                susp = False
                for sc in info['scopes']:
                    cl, s = self.summary(sc)
                    out |= cl
                    susp = susp or s
                # the callee's own cancel edges are part of its summary: a
                # CancelledError it catches does not escape here
                return out, susp
            name = info['name'] or ''
            if name in model.AWAIT_RAISES:
                out = set(model.AWAIT_RAISES[name])
                # wait_for(X, t) / shield(X): add what X may raise when X is an
                # awaited package coroutine or library call we know
                return out | {'CancelledError'}, True
            meth = info.get('method')
            if meth in model.AWAIT_METHOD_RAISES:
                return set(model.AWAIT_METHOD_RAISES[meth]) | {'CancelledError'}, True
            return {ANY, 'CancelledError'}, True
        # awaiting a future / task / arbitrary awaitable held in a variable
        return {ANY, 'CancelledError'}, True

    def _raise(self, cfg: CFG, n: Node) -> Set[str]:
        r = n.ast
        assert isinstance(r, ast.Raise)
        if r.exc is None:
            # re-raise what the innermost handler caught
            h = enclosing_handler(r)
            if h is None:
                return {'RuntimeError'}
            for node in cfg.nodes:
                if node.kind == 'except' and node.ast is h:
                    return set(node.meta.get('caught', ())) or set()
            return {ANY}
        exc = r.exc
        if isinstance(exc, ast.Call):
            exc = exc.func
        c = canon_exc(cfg.res.path(exc))
        if c is not None:
            return {c}
        if isinstance(exc, ast.Name):
            # `raise e` for a handler variable
            h = enclosing_handler(r)
            if h is not None and h.name == exc.id:
                for node in cfg.nodes:
                    if node.kind == 'except' and node.ast is h:
                        return set(node.meta.get('caught', ())) or {ANY}
        return {ANY}


def enclosing_handler(node: ast.AST) -> Optional[ast.ExceptHandler]:
    p = parent(node)
    while p is not None and not isinstance(p, FuncNode + (ast.Lambda, ast.ClassDef)):
        if isinstance(p, ast.ExceptHandler):
            return p
        p = parent(p)
    return None


def resolve_class(program: Program, unit, d: Optional[str]) -> Optional[Scope]:
    """The package class a (dotted) name denotes in *unit*: defined there, or imported from another module of the package."""
    if not d:
        return None
    if d in unit.scopes and unit.scopes[d].kind == 'class':
        return unit.scopes[d]
    head = d.split('.')[0]
    full = unit.aliases.get(head)
    if full is None:
        return None
    full = full + d[len(head):]
    for u2 in program.units.values():
        if full.startswith(u2.modname + '.'):
            q = full[len(u2.modname) + 1:]
            if q in u2.scopes and u2.scopes[q].kind == 'class':
                return u2.scopes[q]
            # re-exported from yet another module
            if q in u2.aliases and u2 is not unit:
                return resolve_class(program, u2, q)
    return None


def find_method(program: Program, cls: Scope, name: str, _seen=None) -> Optional[Scope]:
    """Method *name* of package class *cls*, following package base classes."""
    u = cls.unit
    s = u.scopes.get(f'{cls.qualname}.{name}')
    if s is not None and s.kind == 'function':
        return s
    for b in getattr(cls.node, 'bases', []):
        bc = resolve_class(program, u, dotted(b))
        if bc is not None and bc is not cls:
            r = find_method(program, bc, name)
            if r is not None:
                return r
    return None


def subclasses(program: Program, cls: Scope) -> List[Scope]:
    out = []
    for u in program.units.values():
        for s in u.classes():
            if s is cls:
                continue
            for b in getattr(s.node, 'bases', []):
                if resolve_class(program, u, dotted(b)) is cls:
                    out.append(s)
                    out.extend(subclasses(program, s))
    return out


def is_user_value(cfg: CFG, name: ast.Name, _depth: int = 0) -> bool:
    """Is the variable a caller-supplied value (a parameter of this or an
    enclosing function, or a single-assignment copy of one)?"""
    scope = cfg.cur_scope
    bs = scope.binding_scope(name.id)
    if bs is None or bs.kind != 'function':
        return False
    if name.id in bs.params:
        # a parameter of a private helper that is being inlined stands for the argument its (only visible) caller gave
        for c in reversed(getattr(cfg, 'ctx', []) or []):
            if getattr(c, 'kind', None) == 'inline' and getattr(c, 'scope', None) is bs and _depth < 4:
                arg = getattr(c, 'binding', {}).get(name.id)
                host = getattr(c, 'caller_scope', None)
                if arg is None or host is None:
                    break
                if isinstance(arg, ast.Name):
                    saved = cfg.cur_scope
                    cfg.cur_scope = host
                    try:
                        return is_user_value(cfg, arg, _depth + 1)
                    finally:
                        cfg.cur_scope = saved
                return False
        # rebinding of a parameter to a known library object does not matter
        # for raise purposes: stay conservative (user value)
        return name.id not in ('self', 'cls')
    # single assignment from a parameter
    r = Resolver(bs)
    if r.assigned_once(name.id):
        v = r._alias.get(name.id)
        if isinstance(v, ast.Name) and v.id in bs.params:
            return True
    # ... or something taken off one: `close = getattr(iterable, 'close', None)`, `cb = opts.on_done`
    stores = [x for x in own_nodes(bs.node) if isinstance(x, ast.Assign) and len(x.targets) == 1
              and isinstance(x.targets[0], ast.Name) and x.targets[0].id == name.id]
    others = [x for x in own_nodes(bs.node) if isinstance(x, ast.Name) and x.id == name.id and isinstance(x.ctx, (ast.Store, ast.Del))]
    if len(stores) == 1 and len(others) == 1 and _depth < 4:
        v = stores[0].value
        src = None
        if isinstance(v, ast.Call) and isinstance(v.func, ast.Name) and v.func.id == 'getattr' and v.args and isinstance(v.args[0], ast.Name):
            src = v.args[0]
        elif isinstance(v, ast.Attribute) and isinstance(v.value, ast.Name):
            src = v.value
        if src is not None and src.id not in ('self', 'cls'):
            saved = cfg.cur_scope
            cfg.cur_scope = bs
            try:
                return is_user_value(cfg, src, _depth + 1)
            finally:
                cfg.cur_scope = saved
    return False


def may_be_user_mapping(cfg: CFG, name: ast.Name) -> bool:
    """Can the variable denote an object the caller handed in - a parameter, or a single-assignment choice
    (`cache if cache is not None else {}`, `cache or {}`) one of whose alternatives is a parameter?"""
    if is_user_value(cfg, name):
        return True
    from .match import closure_value
    bs = cfg.cur_scope.binding_scope(name.id)
    if bs is None or bs.kind != 'function' or name.id in bs.params:
        return False
    v = closure_value(bs, name.id)
    todo, leaves = [v], []
    while todo:
        x = todo.pop()
        if isinstance(x, ast.IfExp):
            todo += [x.body, x.orelse]
        elif isinstance(x, ast.BoolOp):
            todo += list(x.values)
        elif x is not None:
            leaves.append(x)
    return any(isinstance(x, ast.Name) and x.id in bs.params and x.id not in ('self', 'cls') for x in leaves)


def callee_info(cfg: CFG, call: ast.Call) -> dict:
    """Classify the callee of *call*:
    kind in {'package','user','lib','lib-func','unknown'}."""
    cached = cfg.callee_cache.get(id(call))
    if cached is not None:
        return cached
    info = _callee_info(cfg, call)
    cfg.callee_cache[id(call)] = info
    return info


def _callee_info(cfg: CFG, call: ast.Call) -> dict:
    f = call.func
    scope = cfg.cur_scope
    unit = scope.unit
    program = cfg.program
    res = cfg.res
    # super().__init__ etc.
    if isinstance(f, ast.Attribute):
        meth = f.attr
        recv = f.value
        rp = res.path(recv)
        # self.method(...)
        if isinstance(recv, ast.Name) and recv.id == 'self':
            cls = scope.enclosing_class()
            if cls is None and scope.enclosing_function() is not None:
                # nested function inside a method
                ef = scope.enclosing_function()
                cls = ef.enclosing_class() if ef else None
            if cls is not None:
                m = find_method(program, cls, meth)
                if m is not None:
                    scopes = [m]
                    if _is_abstract(m):
                        scopes = [find_method(program, sc, meth) for sc in subclasses(program, cls)]
                        scopes = [s for s in scopes if s is not None and s is not m] or [m]
                    else:
                        # overrides in subclasses
                        for sc in subclasses(program, cls):
                            o = sc.unit.scopes.get(f'{sc.qualname}.{meth}')
                            if o is not None and o not in scopes:
                                scopes.append(o)
                    return {'kind': 'package', 'name': f'{cls.qualname}.{meth}',
                            'scopes': scopes, 'method': meth}
                # attribute holding a callable: user-supplied if assigned from
                # a constructor parameter
                if _attr_from_param(program, cls, meth):
                    return {'kind': 'user', 'name': f'self.{meth}', 'method': meth}
                return {'kind': 'unknown', 'name': f'self.{meth}', 'method': meth}
        full = res.path(f)
        if full:
            head = full.split('.')[0]
            if full.startswith('builtins.'):
                return {'kind': 'lib-func', 'name': full, 'method': None}
            if head in ('asyncio', 'os', 'time', 'fcntl', 'msvcrt', 'threading', 'logging',
                        'itertools', 'functools', 'operator', 'collections', 'queue',
                        'concurrent', 'weakref', 'contextlib', 'abc', 'ast', 'sys', 'typing'):
                return {'kind': 'lib', 'name': full, 'method': meth}
        return {'kind': 'method', 'name': full or f'?.{meth}', 'method': meth,
                'receiver': rp}
    if isinstance(f, ast.Name):
        bs = scope.binding_scope(f.id)
        if bs is None:
            full = res.path(f)
            return {'kind': 'lib-func', 'name': full or f.id, 'method': None}
        # a def in some scope of this unit?
        if bs.kind == 'function':
            qn = f'{bs.qualname}.<locals>.{f.id}'
        elif bs.qualname:
            qn = f'{bs.qualname}.{f.id}'
        else:
            qn = f.id
        defs = [s for q, s in unit.scopes.items()
                if (q == qn or q.startswith(qn + '#')) and s.kind in ('function', 'class')]
        is_var = _has_nondef_binding(bs, f.id)
        if defs and not is_var:
            return {'kind': 'package', 'name': qn, 'scopes': defs, 'method': None}
        if bs.kind == 'module' and f.id in unit.aliases:
            full = unit.aliases[f.id]
            # imported from another package module?
            for u in program.units.values():
                if full.startswith(u.modname + '.'):
                    q = full[len(u.modname) + 1:]
                    if q in u.scopes:
                        return {'kind': 'package', 'name': full, 'scopes': [u.scopes[q]], 'method': None}
            full = res.path(f) or full
            return {'kind': 'lib', 'name': full, 'method': full.rsplit('.', 1)[-1]}
        if bs.kind == 'function':
            if is_user_value(cfg, f):
                return {'kind': 'user', 'name': f.id, 'method': None}
            # local variable bound to partial(...) / attribute alias
            r = Resolver(bs)
            if r.assigned_once(f.id):
                for nnode in own_nodes(bs.node):
                    if (isinstance(nnode, ast.Assign) and len(nnode.targets) == 1
                            and isinstance(nnode.targets[0], ast.Name)
                            and nnode.targets[0].id == f.id):
                        v = nnode.value
                        if isinstance(v, ast.Call) and (r.path(v.func) or '').endswith('functools.partial') and v.args:
                            inner = r.path(v.args[0])
                            return {'kind': 'partial', 'name': inner or '?', 'method': (inner or '').rsplit('.', 1)[-1],
                                    'partial': v}
                        p = r.path(v)
                        if p:
                            return {'kind': 'method', 'name': p, 'method': p.rsplit('.', 1)[-1], 'receiver': p.rsplit('.', 1)[0]}
        return {'kind': 'unknown', 'name': f.id, 'method': None}
    if isinstance(f, ast.Call):
        # e.g. wraps(func)(...)
        return {'kind': 'unknown', 'name': ast.unparse(f), 'method': None}
    return {'kind': 'unknown', 'name': ast.unparse(f), 'method': None}


def _has_nondef_binding(scope: Scope, name: str) -> bool:
    if name in scope.params:
        return True
    for n in own_nodes(scope.node):
        if isinstance(n, ast.Name) and n.id == name and isinstance(n.ctx, ast.Store):
            return True
    return False


def _is_abstract(m: Scope) -> bool:
    return any((dotted(d) or '').endswith('abstractmethod') for d in m.decorators)


def _attr_from_param(program: Program, cls: Scope, attr: str) -> bool:
    init = find_method(program, cls, '__init__')
    if init is None:
        return False
    for n in own_nodes(init.node):
        if isinstance(n, ast.Assign):
            for t in n.targets:
                if (isinstance(t, ast.Attribute) and isinstance(t.value, ast.Name)
                        and t.value.id == 'self' and t.attr == attr
                        and isinstance(n.value, ast.Name) and n.value.id in init.params):
                    return True
    return False


_cfg_cache: Dict[tuple, CFG] = {}


def build(scope: Scope, program: Program, raise_model: Optional[RaiseModel] = None,
          inline_methods: bool = False, inline_nested: bool = True, no_inline: Tuple[str, ...] = (),
          expand_deferred: bool = False, inline_module_helpers: bool = False) -> CFG:
    if raise_model is None:
        raise_model = default_model(program)
    key = (id(raise_model), scope.unit.rel, scope.qualname, inline_methods, inline_nested, tuple(no_inline), expand_deferred,
           inline_module_helpers)
    if key not in _cfg_cache:
        _cfg_cache[key] = CFG(scope, program, raise_model, inline_methods, inline_nested, tuple(no_inline), expand_deferred,
                              inline_module_helpers)
    return _cfg_cache[key]


_models: Dict[int, RaiseModel] = {}


def default_model(program: Program) -> RaiseModel:
    if id(program) not in _models:
        _models[id(program)] = RaiseModel(program)
    return _models[id(program)]
