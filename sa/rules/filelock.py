"""FileLock: C02, C12, C13 (DESIGN 4.B)."""
from __future__ import annotations

import ast
from fractions import Fraction
from typing import Dict, List, Optional, Set, Tuple

from ..absint import CounterInterp, Lin, Outcome, State, Undecided
from ..cfg import CFG, Edge, Node, build, callee_info, find_method, subclasses
from ..core import Ctx, construct_key, norm
from ..load import AnalysisError, Resolver, Scope, dotted, own_nodes, parent
from ..paths import find_path, must_pass, reach, render
from ..dataflow import resolve

FILE = 'aiuti/filelock.py'


class LockRoles:
    def __init__(self, ctx: Ctx):
        p = ctx.program
        u = p.unit(FILE)
        self.unit = u
        # the base class: the class whose __init__ builds a threading lock - in filelock.py or, after a module split, in
        # another module of the package that filelock.py imports it from
        self.cls: Optional[Scope] = None
        all_classes = [(uu, c) for uu in [u] + [x for x in p.units.values() if x is not u] for c in uu.classes()]
        for u, c in all_classes:
            if self.cls is not None and u is not self.unit:
                break
            init = u.scopes.get(f'{c.qualname}.__init__')
            if init is None:
                continue
            r = Resolver(init)
            local_vals: Dict[str, List[ast.expr]] = {}
            for n in own_nodes(init.node):
                if isinstance(n, ast.Assign) and len(n.targets) == 1 and isinstance(n.targets[0], ast.Name):
                    local_vals.setdefault(n.targets[0].id, []).append(n.value)

            def lock_factories(fe: ast.AST, depth: int = 3) -> List[Optional[str]]:
                """canonical names of what the callee expression may denote"""
                if isinstance(fe, ast.IfExp):
                    return lock_factories(fe.body, depth) + lock_factories(fe.orelse, depth)
                if isinstance(fe, ast.Name) and fe.id in local_vals and depth > 0:
                    return [x for v in local_vals[fe.id] for x in lock_factories(v, depth - 1)]
                return [r.path(fe)]

            def builds_lock(v: ast.AST, depth: int = 2) -> bool:
                if isinstance(v, ast.IfExp):
                    return builds_lock(v.body, depth) and builds_lock(v.orelse, depth)
                if isinstance(v, ast.Call) and isinstance(v.func, ast.Attribute) and isinstance(v.func.value, ast.Name) \
                        and v.func.value.id == 'self' and depth > 0:
                    # a factory method of the class (`self._make_thread_lock()`): every value it returns builds a lock
                    m_ = u.scopes.get(f'{c.qualname}.{v.func.attr}')
                    if m_ is not None and not m_.is_async and not m_.is_generator:
                        rets_ = [x for x in own_nodes(m_.node) if isinstance(x, ast.Return)]
                        rm_ = Resolver(m_)

                        def one(e_: Optional[ast.AST]) -> bool:
                            if isinstance(e_, ast.IfExp):
                                return one(e_.body) and one(e_.orelse)
                            return isinstance(e_, ast.Call) and rm_.path(e_.func) in ('threading.Lock', 'threading.RLock')
                        return bool(rets_) and all(one(x.value) for x in rets_)
                if isinstance(v, ast.Call) and isinstance(v.func, ast.Name) and depth > 0:
                    # ... or a module-level factory function (`_new_thread_lock(reentrant)`)
                    mf_ = next((x for x in u.module_scope.children if x.kind == 'function' and x.name == v.func.id), None)
                    if mf_ is not None and not mf_.is_async and not mf_.is_generator:
                        rets_ = [x for x in own_nodes(mf_.node) if isinstance(x, ast.Return)]
                        rm_ = Resolver(mf_)

                        def one2(e_: Optional[ast.AST]) -> bool:
                            if isinstance(e_, ast.IfExp):
                                return one2(e_.body) and one2(e_.orelse)
                            return isinstance(e_, ast.Call) and rm_.path(e_.func) in ('threading.Lock', 'threading.RLock')
                        if rets_ and all(one2(x.value) for x in rets_):
                            return True
                if isinstance(v, ast.Call):
                    fs = lock_factories(v.func)
                    return bool(fs) and all(f in ('threading.Lock', 'threading.RLock') for f in fs)
                return False
            for n in own_nodes(init.node):
                if isinstance(n, ast.Assign) and builds_lock(n.value):
                    t = n.targets[0]
                    if isinstance(t, ast.Attribute) and isinstance(t.value, ast.Name) and t.value.id == 'self':
                        self.cls = c
                        self.tl = t.attr
                        self.unit = u
        self.has_tl = self.cls is not None
        if self.cls is None:
            # the thread lock is a protective construct: fall back to the class that defines acquire/release
            for u, c in all_classes:
                if u.scopes.get(f'{c.qualname}.acquire') is not None and u.scopes.get(f'{c.qualname}.release') is not None \
                        and self.cls is None:
                    self.cls = c
                    self.tl = '<no thread lock>'
                    self.unit = u
        u = self.unit
        if self.cls is None:
            raise AnalysisError('no lock class (acquire/release) in filelock.py')
        cls = self.cls
        self.init = u.scopes[f'{cls.qualname}.__init__']
        m = lambda name: p.func(FILE, f'{cls.qualname}.{name}')
        self.acquire = m('acquire')
        self.release = m('release')
        self.acquire_ctx = m('acquire_ctx')
        self.enter = m('__enter__')
        self.exit_ = m('__exit__')
        # FD: attribute initialised to None and tested `is not None` by a property
        self.fd = None
        self.locked_props: Set[str] = set()
        none_attrs = set()
        for n in own_nodes(self.init.node):
            if isinstance(n, (ast.Assign, ast.AnnAssign)):
                tg = n.targets[0] if isinstance(n, ast.Assign) else n.target
                if isinstance(tg, ast.Attribute) and isinstance(n.value, ast.Constant) and n.value.value is None:
                    none_attrs.add(tg.attr)
        for f in [s for s in u.functions() if s.enclosing_class() is cls]:
            if any((dotted(d) or '') == 'property' for d in f.decorators):
                gp_ = build(f, p)
                rets = [n for n in gp_.nodes if n.kind == 'return' and n.ast.value is not None]
                for n in rets:
                    v = resolve(gp_, n, n.ast.value)
                    if len(rets) == 1 and isinstance(v, ast.Compare) and len(v.ops) == 1 \
                            and isinstance(v.ops[0], ast.IsNot) and isinstance(v.left, ast.Attribute) \
                            and isinstance(v.comparators[0], ast.Constant) and v.comparators[0].value is None \
                            and v.left.attr in none_attrs:
                        self.fd = v.left.attr
                        self.locked_props.add(f.name)
        self.locked_prop_missing = False
        if self.fd is None:
            # no property reports the descriptor: the descriptor attribute is still the None-initialised attribute that a
            # method using os.open assigns - the missing / rewritten `is_locked` is then a finding, not a reason to give up
            cands_ = set()
            for f in [s for s in u.functions() if s.enclosing_class() is cls and s is not self.init]:
                if not any(isinstance(x, ast.Attribute) and x.attr == 'open' and isinstance(x.value, ast.Name) and x.value.id == 'os' for x in ast.walk(f.node)):
                    continue
                for n in own_nodes(f.node):
                    if isinstance(n, ast.Assign):
                        for t_ in n.targets:
                            if isinstance(t_, ast.Attribute) and isinstance(t_.value, ast.Name) and t_.value.id == 'self' and t_.attr in none_attrs \
                                    and not (isinstance(n.value, ast.Constant) and n.value.value is None):
                                cands_.add(t_.attr)
            if len(cands_) == 1:
                self.fd = cands_.pop()
                self.locked_prop_missing = True
        # CNT: int attribute initialised to 0 and augmented in acquire
        self.cnt = None
        acq_incs = []
        for n in own_nodes(self.acquire.node):
            if isinstance(n, ast.AugAssign) and isinstance(n.target, ast.Attribute) and isinstance(n.op, ast.Add):
                acq_incs.append(n.target.attr)
        if len(set(acq_incs)) > 1:
            # several counters are incremented: the depth counter is the one that is also decremented / re-assigned
            # outside the constructor (a write-only statistics counter is not)
            other_writes = set()
            for f in [s_ for s_ in u.functions() if s_.enclosing_class() is cls and s_ is not self.init]:
                for n in own_nodes(f.node):
                    if isinstance(n, ast.AugAssign) and isinstance(n.target, ast.Attribute) and not isinstance(n.op, ast.Add):
                        other_writes.add(n.target.attr)
                    elif isinstance(n, (ast.Assign, ast.AnnAssign)):
                        for t_ in (n.targets if isinstance(n, ast.Assign) else [n.target]):
                            if isinstance(t_, ast.Attribute):
                                other_writes.add(t_.attr)
            acq_incs = [a_ for a_ in acq_incs if a_ in other_writes]
        if acq_incs:
            self.cnt = acq_incs[-1]
        if self.cnt is None:
            # ... or in a private helper of the class: the attribute that the constructor sets to an int literal (or that
            # some method decrements) and that some method increments
            int_attrs = set()
            for n in own_nodes(self.init.node):
                if isinstance(n, (ast.Assign, ast.AnnAssign)) and getattr(n, 'value', None) is not None:
                    tg = n.targets[0] if isinstance(n, ast.Assign) else n.target
                    if isinstance(tg, ast.Attribute) and isinstance(n.value, ast.Constant) and isinstance(n.value.value, int) \
                            and not isinstance(n.value.value, bool):
                        int_attrs.add(tg.attr)
            incs = set()
            for f in [s_ for s_ in u.functions() if s_.enclosing_class() is cls]:
                for n in own_nodes(f.node):
                    if isinstance(n, ast.AugAssign) and isinstance(n.target, ast.Attribute) and isinstance(n.op, ast.Add) \
                            and isinstance(n.target.value, ast.Name) and n.target.value.id == 'self':
                        incs.add(n.target.attr)
            cand = sorted(incs & int_attrs) or sorted(incs)
            if len(cand) == 1:
                self.cnt = cand[0]
        missing = [k for k in ('fd', 'cnt') if getattr(self, k) is None]
        if missing:
            raise AnalysisError(f'FileLock roles not found: {missing}')
        # OS-level helpers: abstract methods
        self.abstract = [f for f in u.functions() if f.enclosing_class() is cls and any(
            (dotted(d) or '').endswith('abstractmethod') for d in f.decorators)]
        # _acquire: method with os.open ; _release: method with os.close and a store FD = None
        self.os_acquire = self.os_release = None
        meths = [s for s in u.functions() if s.enclosing_class() is cls and s is not self.init]
        infos = []
        for f in meths:
            g = build(f, p, inline_methods=True)
            names = {callee_info(g, n.ast).get('name') for n in g.nodes if n.kind == 'call'}
            own_stmts = {id(x) for x in own_nodes(f.node)}
            own_stores = [n for n in g.nodes if n.kind == 'store_attr' and n.meta['attr'] == self.fd
                          and (not n.meta.get('inlined') or id(n.meta.get('stmt')) in own_stmts)]
            sets = [n for n in own_stores if not (isinstance(n.meta.get('value'), ast.Constant) and n.meta['value'].value is None)]
            clears = [n for n in own_stores if isinstance(n.meta.get('value'), ast.Constant) and n.meta['value'].value is None]
            infos.append((f, names, sets, clears))
        # the OS acquire helper publishes a descriptor (the os.open may sit in a helper of its own);
        # the OS release helper clears the attribute and closes
        for f, names, sets, clears in infos:
            if sets and 'os.open' in names and self.os_acquire is None:
                self.os_acquire = f
        for f, names, sets, clears in infos:
            if clears and 'os.close' in names and f is not self.os_acquire and 'os.open' not in names and self.os_release is None:
                self.os_release = f
        if self.os_acquire is None or self.os_release is None:
            raise AnalysisError('OS-level acquire/release helpers not found (os.open / os.close)')
        self.subs = subclasses(p, cls)
        # every module that holds a lock class (base or platform subclass)
        self.units = [self.unit] + [sc_.unit for sc_ in self.subs if sc_.unit is not self.unit]
        self.units = list({id(x): x for x in self.units}.values())
        ga = build(self.os_acquire, p, inline_methods=True)      # (the hook may be called from a helper of the OS acquire helper)
        self.oslock_name = self.osunlock_name = None
        for n in ga.nodes:
            if n.kind == 'call':
                info = callee_info(ga, n.ast)
                if info['kind'] == 'package' and any(s in self.abstract or _overrides(s, self.abstract) for s in info['scopes']):
                    self.oslock_name = info['method']
        gr = build(self.os_release, p, inline_methods=True)
        for n in gr.nodes:
            if n.kind == 'call':
                info = callee_info(gr, n.ast)
                if info['kind'] == 'package' and any(s in self.abstract or _overrides(s, self.abstract) for s in info['scopes']):
                    self.osunlock_name = info['method']
        if not self.oslock_name:
            raise AnalysisError('abstract OS lock hook not found')
        # (an explicit unlock before close() is optional: closing the descriptor drops the lock)

    def interp(self, program) -> CounterInterp:
        return CounterInterp(program, self.cls, self.tl, self.cnt, self.fd, self.locked_props)

    def publish(self, ctx: Ctx) -> None:
        ctx.extra['roles'] = {'class': self.cls.qualname, 'TL': self.tl, 'FD': self.fd, 'CNT': self.cnt,
                              'is_locked': sorted(self.locked_props), 'os_acquire': self.os_acquire.qualname,
                              'os_release': self.os_release.qualname, 'OSLOCK': self.oslock_name,
                              'OSUNLOCK': self.osunlock_name, 'subclasses': [s.qualname for s in self.subs]}


def _overrides(s: Scope, abstract: List[Scope]) -> bool:
    return any(s.name == a.name for a in abstract)


def _entry_state(cmin: int, locked: Optional[bool]) -> State:
    st = State(cmin)
    st.v['CNT'] = Lin(1, 0)
    st.v['DEPTH'] = Lin(1, 0)
    st.locked = locked
    return st


def _ret_const(oc: Outcome):
    v = oc.value
    if isinstance(v, ast.Constant):
        return v.value
    return v


def run_acquire(ctx: Ctx, r: LockRoles):
    it = r.interp(ctx.program)
    outs = it.run(r.acquire, _entry_state(0, None))
    return it, outs


def _rule_with_protocol(ctx: Ctx, r: 'LockRoles', enter_rule: Optional[str], exit_rule: Optional[str]) -> None:
    """The with-statement / acquire_ctx protocol.  enter_rule: the protected region (normal return of `__enter__`, the
    `yield` of a @contextmanager method) is reached only through the success edge of an acquire() call of this function.
    exit_rule: `__exit__` calls release() on every path; after the yield of a context-manager method every exit passes
    release()."""
    p = ctx.program
    meths = [f for uu in r.units for f in uu.functions() if f.enclosing_class() is not None and f.enclosing_function() is None]
    enters = [f for f in meths if f.name == '__enter__']
    exits_ = [f for f in meths if f.name == '__exit__']
    ctxs = [f for f in meths if f.is_generator and any((dotted(d) or '').endswith('contextmanager') for d in f.decorators)]
    # (a context manager of the class that never speaks to the lock - no acquire / release / enter / exit of self, directly or
    # through another such method - scopes something else: a descriptor, a rollback)
    def _speaks_to_lock(f_: Scope) -> bool:
        return any(isinstance(x, ast.Call) and isinstance(x.func, ast.Attribute) and isinstance(x.func.value, ast.Name) and x.func.value.id == 'self'
                   and (x.func.attr in ('acquire', 'release', '__enter__', '__exit__', r.acquire.name, r.release.name)
                        or any(c_.name == x.func.attr and c_ is not f_ for c_ in ctxs_all))
                   for x in ast.walk(f_.node)) or any(
            isinstance(x, ast.With) and any(isinstance(it.context_expr, ast.Name) and it.context_expr.id == 'self' for it in x.items) for x in ast.walk(f_.node))
    ctxs_all = list(ctxs)
    ctxs = [f for f in ctxs if _speaks_to_lock(f)]

    # a method that only hands back what acquire() answered (`try_acquire`: `return self.acquire(blocking=False)`) is an
    # acquire() as far as this protocol goes: its truthy answer is acquire()'s
    forwarders: Set[Scope] = set()
    grew = True
    while grew:
        grew = False
        for m in meths:
            if m in forwarders or m is r.acquire or m.is_generator or m.is_async:
                continue
            rets = [x for x in own_nodes(m.node) if isinstance(x, ast.Return)]
            gm = None
            ok = bool(rets)
            for x in rets:
                if not isinstance(x.value, ast.Call):
                    ok = False
                    break
                gm = gm or build(m, p)
                ci = callee_info(gm, x.value)
                if not (ci['kind'] == 'package' and any(t is r.acquire or t in forwarders for t in ci.get('scopes', []))):
                    ok = False
                    break
            if ok:
                forwarders.add(m)
                grew = True

    def calls_of(g, target):
        tg = {target} | (forwarders if target is r.acquire else set())
        return [n for n in g.nodes if n.kind == 'call' and callee_info(g, n.ast)['kind'] == 'package'
                and tg & set(callee_info(g, n.ast).get('scopes', []))]

    def success_edges(g, acqs):
        out = set()
        for a in acqs:
            br = [x for x in g.nodes if x.kind == 'branch' and x.meta['test'] is a.ast]
            par = parent(a.ast)
            if not br and isinstance(par, ast.Assign) and len(par.targets) == 1 and isinstance(par.targets[0], ast.Name):
                br = [x for x in g.nodes if x.kind == 'branch' and isinstance(x.meta['test'], ast.Name) and x.meta['test'].id == par.targets[0].id]
            for b in br:
                out |= {id(e) for e in g.succ[b.id] if e.label == 'true'}
        return out

    def result_var(g, acqs):
        """The local that holds acquire()'s answer (assigned once, from the acquire call)."""
        out = set()
        for a in acqs:
            par = parent(a.ast)
            if isinstance(par, ast.Assign) and len(par.targets) == 1 and isinstance(par.targets[0], ast.Name):
                nm = par.targets[0].id
                stores = [x for x in ast.walk(g.scope.node) if isinstance(x, ast.Name) and x.id == nm and isinstance(x.ctx, (ast.Store, ast.Del))]
                if len(stores) == 1:
                    out.add(nm)
        return out

    def telling(g, acqs, se):
        """Yields that tell the with-statement the truth about the lock instead of promising it: `yield False` where no
        successful acquire() can have happened, and `yield <the acquire result>`.  -> (reports_failure, reports_result)"""
        got = result_var(g, acqs)
        after_success = reach(g, [], start_edges=[e for n in g.nodes for e in g.succ[n.id] if id(e) in se], flag_sensitive=False) if se else set()
        fail, res = [], []
        for y in g.nodes:
            if y.kind != 'yield':
                continue
            v = y.ast.value if isinstance(y.ast, ast.Yield) else None
            if isinstance(v, ast.Constant) and v.value is False and y.id not in after_success:
                fail.append(y)
            elif isinstance(v, ast.Name) and v.id in got:
                res.append(y)
        return fail, res, got
    def _one_level(g, f, rels):
        # leaving one with-block gives back one level: release() is called without `force` (a forced release inside a nested
        # with-block of a re-entrant lock drops the lock the outer block still relies on)
        for rc in rels:
            forced = list(rc.ast.args) + [k.value for k in rc.ast.keywords if k.arg in (None, 'force')]
            ok1 = all(isinstance(a_, ast.Constant) and not a_.value for a_ in forced)
            ctx.check(exit_rule, f'{f.qualname}: {norm(rc.ast)} gives back exactly one level', g.loc(rc), ok1, 'release() without force',
                      'the with-statement / context manager can force the release: for a re-entrant lock an inner block (say, one left by an '
                      'exception) drops the OS lock and every level while an outer block of the same thread is still inside',
                      construct=construct_key(f.qualname, 'forced release on exit'))
    if enter_rule:
        for f in enters + ctxs:
            g = build(f, p, inline_methods=True)
            acqs = calls_of(g, r.acquire)
            se = success_edges(g, acqs)
            fail, res, _ = telling(g, acqs, se) if f in ctxs else ([], [], set())
            region = [n for n in g.nodes if n.kind == 'yield' and n not in fail and n not in res] if f in ctxs else \
                [n for n in g.nodes if n.kind == 'return'] + [n for n in g.nodes if n.kind == 'implicit_return']
            if f in ctxs and (fail or res) and not region and acqs:
                ctx.holds(enter_rule, f'{f.qualname}: every yield hands the with-statement the truth about acquire() (False only where no '
                          'acquire() succeeded, or acquire()\'s own answer): the caller decides, nothing is promised', f'{FILE}:{f.lineno}')
                continue
            w = None
            for t in region:
                w = w or find_path(g, [g.entry], [t], edge_ok=lambda e: id(e) not in se)
            ctx.check(enter_rule, f'{f.qualname}: the protected region is entered only after a successful acquire()', f'{FILE}:{f.lineno}',
                      w is None and bool(se) and bool(region),
                      'every path to the with-body passes the success edge of acquire()',
                      'the with-body can be entered without the lock having been acquired (no acquire() on the way, or its failure ignored)',
                      witness=render(g, w), construct=construct_key(f.qualname, 'body entered without acquire'))
    if exit_rule:
        for f in exits_:
            g = build(f, p, inline_methods=True)
            rels = calls_of(g, r.release)
            w = must_pass(g, [g.entry], [g.exit], rels)
            ctx.check(exit_rule, f'{f.qualname}: every normal path calls release()', f'{FILE}:{f.lineno}', w is None and bool(rels),
                      'leaving the with-block gives the lock back', 'a path through __exit__ does not release: the lock stays held after the with-block',
                      witness=render(g, w), construct=construct_key(f.qualname, 'exit without release'))
            _one_level(g, f, rels)
        for f in ctxs:
            g = build(f, p, inline_methods=True)
            rels = calls_of(g, r.release)
            acqs = calls_of(g, r.acquire)
            fail, res, got = telling(g, acqs, success_edges(g, acqs))
            ys = [n for n in g.nodes if n.kind == 'yield' and n not in fail]
            starts = [e for y in ys for e in g.succ[y.id]]
            # a path that learns afterwards that acquire() said no has nothing to give back

            def not_refused(e, g=g, got=got):
                t = e.src.meta.get('test') if e.src.kind == 'branch' else None
                if isinstance(t, ast.Name) and t.id in got:
                    return e.label != 'false'
                if isinstance(t, ast.UnaryOp) and isinstance(t.op, ast.Not) and isinstance(t.operand, ast.Name) and t.operand.id in got:
                    return e.label != 'true'
                return True
            w = must_pass(g, [], [g.exit, g.raise_exit], rels, start_edges=starts, edge_ok=not_refused if res else None) if starts else None
            _one_level(g, f, rels)
            ctx.check(exit_rule, f'{f.qualname}: after the yield every exit (normal, exception thrown in by the with-body) passes release()',
                      f'{FILE}:{f.lineno}', w is None and bool(rels) and bool(starts),
                      'released in a finally', 'an exception in the with-body (or its normal end) leaves the lock held',
                      witness=render(g, w), construct=construct_key(f.qualname, 'ctx exit without release'))


def _interrupt(o: Outcome) -> bool:
    from ..model import carries_exception
    return o.kind == 'raise' and bool(o.classes) and not carries_exception(o.classes)


def _interrupt_after_clean_release(o: Outcome) -> bool:
    """A raise outcome that carries no `Exception` (KeyboardInterrupt / SystemExit out of a user callback, say) and leaves
    everything released: the lock's state is what a normal return would have left."""
    from ..model import carries_exception
    s = o.state
    return o.kind == 'raise' and not carries_exception(o.classes or ()) and bool(o.classes) and s.locked is False \
        and s.v['CNT'] == Lin(0, 0) and s.v['DEPTH'] == Lin(0, 0)


def run_release(ctx: Ctx, r: LockRoles, locked: Optional[bool]):
    it = r.interp(ctx.program)
    # a caller that holds the lock holds the thread lock at least once
    outs = it.run(r.release, _entry_state(1 if locked else 0, locked))
    return it, outs


# ---------------------------------------------------------------------------
# C02
# ---------------------------------------------------------------------------

def c02(ctx: Ctx) -> None:
    r = LockRoles(ctx)
    from .common import rule_unbound
    rule_unbound(ctx, 'C02-U1', [s_ for uu in r.units for s_ in uu.functions() if s_.enclosing_class() is not None and s_.enclosing_function() is None], 'the FileLock classes')
    p = ctx.program
    ctx.trusted += ['flock(2) / msvcrt.locking exclude between open file descriptions',
                    'threading.Lock / RLock semantics']
    ctx.rule('C02-R1', 'acquire() returns True only holding the thread lock once more than on entry', 1)
    ctx.rule('C02-R2', 'acquire() returns True only with the OS lock held (descriptor set)', 1)
    ctx.rule('C02-R3', 'the descriptor attribute is written only by __init__ (None), the OS acquire helper after a successful OS lock, and the OS release helper (None)', 3)
    ctx.rule('C02-R4', 'the descriptor given to the OS lock is opened in the same activation (fresh open file description)', 1)
    ctx.rule('C02-R5', 'every concrete OS lock is exclusive, non-blocking iff block is false, and uses flock / msvcrt.locking', 2)
    ctx.rule('C02-R6', 'release(): OS lock dropped before the thread lock; unlock and close apply to the swapped-out descriptor', 2)
    ctx.rule('C02-R7', 'the result of acquire() is never dropped at a call site inside the package', 1)
    ctx.rule('C02-R8', 'a function that both acquires and releases reaches release() only through the success edge of its own acquire()', 1)
    ctx.rule('C02-R10', 'release() never releases the in-process lock more often than the caller holds it (= C12-R12)', 1)
    ctx.rule('C02-R12', 'the with-body of `with lock:` / `with lock.acquire_ctx():` is entered only through the success edge of acquire()', 1)
    ctx.rule('C02-R11', 'the lock-file descriptor is closed only by the OS acquire helper (failed attempt) and the OS release helper', 1)
    # R1/R2 via the affine interpreter
    if not r.has_tl:
        ctx.violation('C02-R1', 'no in-process threading lock attribute', f'{FILE}:{r.init.lineno}',
                      'two threads sharing one FileLock object both take the is_locked fast path',
                      construct=construct_key(r.init.qualname, 'no thread lock'))
    try:
        it, outs = run_acquire(ctx, r)
        trues = [o for o in outs if o.kind == 'return' and _ret_const(o) is True]
        if not trues:
            ctx.violation('C02-R1', 'acquire() never returns True', f'{FILE}:{r.acquire.lineno}',
                          construct=construct_key(r.acquire.qualname, 'no return True'))
        seen = set()
        for o in trues:
            s = o.state
            key = (o.node.line, repr(s.v['DEPTH']), s.locked)
            if key in seen:
                continue
            seen.add(key)
            okd = s.v['DEPTH'] == Lin(1, 1)
            ctx.check('C02-R1', f'return True at line {o.node.line} with DEPTH={s.v["DEPTH"]!r}',
                      f'{FILE}:{o.node.line}', okd,
                      'thread lock held (entry depth + 1)', 'success reported without holding the in-process lock',
                      witness=s.trace, construct=construct_key(r.acquire.qualname, 'return True without TL', repr(s.v['DEPTH'])))
            ctx.check('C02-R2', f'return True at line {o.node.line} with LOCKED={s.locked}',
                      f'{FILE}:{o.node.line}', s.locked is True,
                      'descriptor set on this path', 'success reported although the OS lock is not (known to be) held',
                      witness=s.trace, construct=construct_key(r.acquire.qualname, 'return True without OS lock'))
        # an unsuccessful acquire() leaves the in-process lock as it found it: a clean-up that gives back a level this
        # activation never took (the acquire itself raised) releases the lock of the thread that is inside
        seen_f = set()
        for o in outs:
            if o.kind == 'return' and _ret_const(o) is True:
                continue
            s = o.state
            keep = s.v['DEPTH'] == Lin(1, 0) if s.c_known is None else s.v['DEPTH'] == Lin(0, s.c_known)
            key = (o.kind, repr(s.v['DEPTH']))
            if keep or key in seen_f:
                continue
            seen_f.add(key)
            ctx.violation('C02-R1', f'acquire() fails ({o.kind}) at line {o.node.line} with DEPTH={s.v["DEPTH"]!r}', f'{FILE}:{o.node.line}',
                          'a failed acquire() changes the depth of the in-process lock: it gives back a level it never took (the holder\'s), or keeps one - '
                          'the next acquire() of another thread takes the is_locked fast path while the holder is inside',
                          witness=s.trace, construct=construct_key(r.acquire.qualname, 'failed acquire changes TL depth', o.kind, repr(s.v['DEPTH'])))
    except Undecided as e:
        ctx.undecided('C02-R1', 'acquire()', f'{FILE}:{r.acquire.lineno}', str(e))
    # R3: writers of FD
    expected = {r.init.qualname: 'none', r.os_acquire.qualname: 'fd', r.os_release.qualname: 'none'}
    ga = build(r.os_acquire, p, inline_methods=True)
    for f in p.all_functions():
        g = build(f, p)
        for n in g.nodes:
            if n.kind == 'store_attr' and n.meta['attr'] == r.fd:
                v = n.meta.get('value')
                is_none = isinstance(v, ast.Constant) and v.value is None
                exp = expected.get(f.qualname) if f.unit in r.units else None
                if exp is None and f.name == '__setstate__' and f.unit in r.units:
                    exp = 'none'        # the unpickling side of object creation: like __init__, it may only say "nothing held"
                ok = (exp == 'none' and is_none) or (exp == 'fd' and not is_none)
                ctx.check('C02-R3', f'{f.qualname}: {norm(n.meta.get("stmt") or n.ast)}', g.loc(n), ok,
                          'expected writer', 'unexpected writer of the descriptor attribute (is_locked is the success oracle)',
                          construct=construct_key(f.qualname, 'writes', r.fd, v if v is not None else 'swap'))
    # ... and nothing writes the instance state wholesale around that rule: `self.__dict__.update(state)` in a __setstate__ (copy /
    # pickle support), `vars(self).update`, `setattr(self, name, ...)` carry a *held* descriptor and counter over into an object
    # whose thread lock is fresh - unless the method then resets both
    for f in [f_ for uu in r.units for f_ in uu.functions() if f_.enclosing_class() is not None and f_.enclosing_function() is None]:
        g = build(f, p)
        whole = []
        for n in g.nodes:
            if n.kind != 'call':
                continue
            fn_ = n.ast.func
            if isinstance(fn_, ast.Attribute) and fn_.attr in ('update', '__setitem__', 'setdefault') and (
                    (isinstance(fn_.value, ast.Attribute) and fn_.value.attr == '__dict__' and isinstance(fn_.value.value, ast.Name) and fn_.value.value.id == 'self')
                    or (isinstance(fn_.value, ast.Call) and isinstance(fn_.value.func, ast.Name) and fn_.value.func.id == 'vars'
                        and fn_.value.args and isinstance(fn_.value.args[0], ast.Name) and fn_.value.args[0].id == 'self')):
                whole.append(n)
            elif isinstance(fn_, ast.Name) and fn_.id == 'setattr' and n.ast.args and isinstance(n.ast.args[0], ast.Name) and n.ast.args[0].id == 'self' \
                    and not (len(n.ast.args) > 1 and isinstance(n.ast.args[1], ast.Constant) and n.ast.args[1].value not in (r.fd, r.cnt)):
                whole.append(n)
            elif isinstance(fn_, ast.Attribute) and fn_.attr == '__setattr__' and n.ast.args and isinstance(n.ast.args[0], ast.Name) and n.ast.args[0].id == 'self':
                whole.append(n)
        whole += [n for n in g.nodes if n.kind == 'store_attr' and n.meta['attr'] == '__dict__']
        for n in whole:
            resets_fd = [x for x in g.nodes if x.kind == 'store_attr' and x.meta['attr'] == r.fd and isinstance(x.meta.get('value'), ast.Constant)
                         and x.meta['value'].value is None]
            resets_cnt = [x for x in g.nodes if x.kind == 'store_attr' and x.meta['attr'] == r.cnt and isinstance(x.meta.get('value'), ast.Constant)
                          and x.meta['value'].value == 0]
            st_ = [e for e in g.succ[n.id] if e.label != 'exc']
            w1 = must_pass(g, [], [g.exit], resets_fd, start_edges=st_, edge_ok=lambda e: e.label != 'exc') if st_ else None
            w2 = must_pass(g, [], [g.exit], resets_cnt, start_edges=st_, edge_ok=lambda e: e.label != 'exc') if st_ else None
            ctx.check('C02-R3', f'{f.qualname}: {norm(n.ast)[:60]} writes the whole instance state', g.loc(n),
                      w1 is None and w2 is None and bool(resets_fd) and bool(resets_cnt),
                      'followed by a reset of the descriptor and the counter: the new object holds nothing',
                      'the descriptor and the depth counter of a (possibly held) lock are copied into another object (copy / pickle support): '
                      'that object says is_locked with a free thread lock, its acquire() takes the fast path and succeeds without the OS lock',
                      witness=render(g, w1 or w2), construct=construct_key(f.qualname, 'wholesale state write'))
    # store in the OS acquire helper: only after normal completion of OSLOCK(fd) with the same fd
    oslocks = [n for n in ga.nodes if n.kind == 'call' and callee_info(ga, n.ast).get('method') == r.oslock_name
               and callee_info(ga, n.ast)['kind'] == 'package']
    stores = [n for n in ga.nodes if n.kind == 'store_attr' and n.meta['attr'] == r.fd]
    for s in stores:
        w = find_path(ga, [ga.entry], [s], edge_ok=lambda e: not (e.src in oslocks and e.label != 'exc'))
        v = s.meta.get('value')
        same = bool(oslocks) and isinstance(v, ast.Name) and all(
            o.ast.args and isinstance(o.ast.args[0], ast.Name) and o.ast.args[0].id == v.id for o in oslocks)
        if not same and bool(oslocks) and isinstance(v, ast.Name):
            # the descriptor may come back from a helper (`fd, locked = self._open_locked(block)`): on every path reaching the
            # store, what the stored name denotes is the variable that was handed to the OS lock
            from ..paths import envs_at as _envs_at
            from ..dataflow import leaves as _leaves
            lockargs = {o.ast.args[0].id for o in oslocks if o.ast.args and isinstance(o.ast.args[0], ast.Name)}
            # (definitions of the name that reach the store on a feasible path: `return None, False` sets the flag that keeps
            # its `None` away from the store)
            defs_ = [n_ for n_ in ga.nodes if n_.kind == 'store_name' and n_.meta['name'] == v.id]
            live_ = [d_ for d_ in defs_ if find_path(ga, [d_], [s], avoid=[x_ for x_ in defs_ if x_ is not d_]) is not None]
            vals_ = []
            for d_ in live_:
                dv_ = d_.meta.get('value')
                vals_ += _leaves(ga, d_, dv_) if isinstance(dv_, ast.Name) else [dv_]

            def _root(e_):
                from ..dataflow import unalias as _ua
                return e_
            same = bool(vals_) and len(lockargs) == 1 and all(
                (isinstance(x, ast.Name) and x.id in lockargs) or (isinstance(x, ast.Call) and ga.res.path(x.func) == 'os.open') for x in vals_)
        ctx.check('C02-R3', f'{norm(s.meta.get("stmt"))} only after {r.oslock_name}() returned normally', ga.loc(s),
                  w is None and same, 'descriptor recorded only after a successful OS lock on that descriptor',
                  'the descriptor can be recorded without a successful OS lock on it',
                  witness=render(ga, w), construct=construct_key(r.os_acquire.qualname, 'FD set without OS lock'))
    # R4
    for o in oslocks:
        a0 = o.ast.args[0] if o.ast.args else None
        ok = False
        why = 'argument is not a local name'
        if isinstance(a0, ast.Name):
            # every value the argument can have on a path reaching the call is an os.open(...) of this activation
            from ..paths import envs_at
            from ..dataflow import leaves
            envs = envs_at(ga, o)
            vals = [lf for env in envs for lf in leaves(ga, o, a0, env=env)]
            ok = bool(vals) and all(isinstance(v, ast.Call) and ga.res.path(v.func) == 'os.open' for v in vals)
            why = 'descriptor is not the result of os.open in this activation'
        ctx.check('C02-R4', f'{norm(o.ast)}', ga.loc(o), ok, 'fresh os.open per acquisition', why,
                  construct=construct_key(r.os_acquire.qualname, o.ast, 'fd provenance'))
    if not oslocks:
        ctx.violation('C02-R4', 'no OS lock call in the OS acquire helper', f'{FILE}:{r.os_acquire.lineno}',
                      construct=construct_key(r.os_acquire.qualname, 'no OS lock'))
    # R5 siblings
    for sub in r.subs:
        lk = find_method(p, sub, r.oslock_name)
        ul = find_method(p, sub, r.osunlock_name) if r.osunlock_name else None
        if lk is None or lk in r.abstract:
            ctx.undecided('C02-R5', f'{sub.qualname} has no {r.oslock_name}', f'{FILE}:{sub.lineno}', 'missing override')
            continue
        verdict, why = classify_oslock(p, lk, ul)
        inst = f'{sub.qualname}.{r.oslock_name}: {why}'
        where = f'{FILE}:{lk.lineno}'
        if verdict == 'good':
            ctx.holds('C02-R5', inst, where)
        elif verdict == 'refuses':
            ctx.holds('C02-R5', inst, where, 'always raises: never reports a lock it does not hold')
        elif verdict == 'bad':
            ctx.violation('C02-R5', inst, where, why, construct=construct_key(lk.qualname, 'oslock', why))
        else:
            ctx.undecided('C02-R5', inst, where, why)
        # ... and its counterpart really unlocks: every normal path of the unlock hook applies the same primitive with the unlock
        # flag to the descriptor it is given (a hook that leaves it to "the close that follows" keeps the lock alive in every
        # process that shares the open file description, and for good if that close fails)
        if ul is not None and verdict == 'good':
            gu = build(ul, p)
            fdp_u = ul.params[1] if len(ul.params) > 1 else None
            prims_u = []
            for n in gu.nodes:
                if n.kind != 'call':
                    continue
                nm_ = gu.res.path(resolve(gu, n, n.ast.func)) or gu.res.path(n.ast.func) or ''
                if nm_ in ('fcntl.flock', 'msvcrt.locking') and n.ast.args and isinstance(n.ast.args[0], ast.Name) and n.ast.args[0].id == fdp_u:
                    flag_ = resolve(gu, n, n.ast.args[1]) if len(n.ast.args) > 1 else None
                    names_ = {gu.res.path(x) or norm(x) for x in ast.walk(flag_) if isinstance(x, (ast.Attribute, ast.Name))} if flag_ is not None else set()
                    if names_ & {'fcntl.LOCK_UN', 'msvcrt.LK_UNLCK'}:
                        prims_u.append(n)
            wun = must_pass(gu, [gu.entry], [gu.exit], prims_u, edge_ok=lambda e: e.label != 'exc')
            ctx.check('C02-R5', f'{ul.qualname}: every normal path unlocks the descriptor ({len(prims_u)} unlocking call(s))', f'{FILE}:{ul.lineno}',
                      wun is None and bool(prims_u), 'flock(fd, LOCK_UN) / locking(fd, LK_UNLCK, n)',
                      'the unlock hook can return without unlocking: release() reports success while the OS lock lives on with the open file '
                      'description (a forked child, a failed close) - nobody can acquire the lock file again',
                      witness=render(gu, wun), construct=construct_key(ul.qualname, 'unlock hook does not unlock'))
    # the public alias: each arm of the platform selection picks a class whose primitive lives in the module that arm has
    # just found importable; whatever is left gets a class that refuses (a class that "locks" with a module that is None
    # fails on first use, one that returns without locking reports locks nobody holds)
    _rule_platform_alias(ctx, r)
    _rule_locked_property(ctx, r, 'C02-R1')
    # R6
    gr = build(r.release, p, inline_methods=True)
    tlrel = [n for n in gr.nodes if n.kind == 'call' and isinstance(n.ast.func, ast.Attribute)
             and n.ast.func.attr == 'release' and _self_attr(n.ast.func.value, r.tl)]
    osrel = sites_of(gr, r.os_release)
    if not osrel:
        ctx.violation('C02-R6', 'release() never drops the OS lock', f'{FILE}:{r.release.lineno}',
                      construct=construct_key(r.release.qualname, 'no OS release'))
    w = find_path(gr, tlrel, osrel) if tlrel and osrel else None
    # also helper-inlined releases of TL before the OS release
    ctx.check('C02-R6', 'no thread-lock release precedes the OS release', f'{FILE}:{r.release.lineno}',
              w is None and bool(tlrel) and bool(osrel),
              'OS unlock+close happen while the in-process lock is still held',
              'the in-process lock is released before the OS lock: the next thread takes the is_locked fast path on a lock being dropped',
              witness=render(gr, w), construct=construct_key(r.release.qualname, 'TL released before OS lock'))
    g2 = build(r.os_release, p)
    swap = [n for n in g2.nodes if n.kind == 'store_name' and isinstance(n.meta.get('value'), ast.Attribute)
            and n.meta['value'].attr == r.fd]
    swapped = {n.meta['name'] for n in swap}
    uses = [n for n in g2.nodes if n.kind == 'call' and (
        callee_info(g2, n.ast).get('name') == 'os.close' or callee_info(g2, n.ast).get('method') == r.osunlock_name)]
    def _arg_name(n_: Node) -> Optional[str]:
        if not n_.ast.args:
            return None
        a_ = n_.ast.args[0]
        if isinstance(a_, ast.Name) and a_.id in swapped:
            return a_.id
        a_ = resolve(g2, n_, a_, keep=tuple(swapped))      # (`with self._closing_fd(fd) as held_fd: self._unlock(held_fd)`)
        return a_.id if isinstance(a_, ast.Name) else None
    ok = bool(swapped) and len(uses) >= 2 and all(_arg_name(n) in swapped for n in uses)
    # ... and the lock is given up by *unlocking*, not merely by closing: flock belongs to the open file description, which a
    # forked child (or a dup) shares - a bare close leaves the lock held for as long as any sharer lives
    unl_ = [n for n in g2.nodes if n.kind == 'call' and callee_info(g2, n.ast).get('method') == r.osunlock_name and callee_info(g2, n.ast)['kind'] == 'package']
    cls_ = [n for n in g2.nodes if n.kind == 'call' and callee_info(g2, n.ast).get('name') == 'os.close']
    wu_ = must_pass(g2, [g2.entry], cls_, unl_, edge_ok=lambda e: e.label != 'exc') if cls_ else None
    ctx.check('C02-R6', f'{r.os_release.name}: every path to os.close() has called {r.osunlock_name}() first', f'{FILE}:{r.os_release.lineno}',
              wu_ is None and bool(unl_) and bool(cls_), 'explicit unlock, then close',
              'the descriptor can be closed without the explicit unlock: the OS lock survives in every process that shares the open file '
              'description (a child forked while the lock was held), so the lock file stays locked after release()',
              witness=render(g2, wu_), construct=construct_key(r.os_release.qualname, 'close without unlock'))
    ctx.check('C02-R6', f'unlock/close operate on the swapped-out descriptor {sorted(swapped)}',
              f'{FILE}:{r.os_release.lineno}', ok, 'both calls take the descriptor that was held',
              'unlock/close do not (both) apply to the descriptor that was held',
              construct=construct_key(r.os_release.qualname, 'unlock/close target'))
    # R7
    for f in p.all_functions():
        if f is r.acquire:
            continue
        g = build(f, p)
        for n in g.nodes:
            if n.kind != 'call':
                continue
            fn = n.ast.func
            if not (isinstance(fn, ast.Attribute) and fn.attr == 'acquire'):
                continue
            info = callee_info(g, n.ast)
            if not (info['kind'] == 'package' and r.acquire in info.get('scopes', [])):
                continue
            par = parent(n.ast)
            inst = f'{f.qualname}: {norm(n.ast)}'
            ck = construct_key(f.qualname, n.ast)
            if isinstance(par, ast.Return):
                ctx.holds('C02-R7', inst, g.loc(n), 'result returned to the caller')
                continue
            if isinstance(par, ast.Assign) and len(par.targets) == 1 and isinstance(par.targets[0], ast.Name) \
                    and sum(1 for x in g.nodes if x.kind == 'store_name' and x.meta['name'] == par.targets[0].id) == 1 \
                    and any(x.kind == 'yield' and isinstance(x.ast, ast.Yield) and isinstance(x.ast.value, ast.Name)
                            and x.ast.value.id == par.targets[0].id for x in g.nodes) and f.is_generator:
                ctx.holds('C02-R7', inst, g.loc(n), 'result handed to the with-statement (`yield <result>`): the caller decides (C02-R12 / C12-R14 '
                          'check the rest of that protocol)')
                continue
            # must be the test of a branch; on the "False" edge no normal exit / yield is reachable
            br = [x for x in g.nodes if x.kind == 'branch' and x.meta['test'] is n.ast]
            if not br and isinstance(par, ast.Assign) and len(par.targets) == 1 and isinstance(par.targets[0], ast.Name):
                var = par.targets[0].id
                if sum(1 for x in g.nodes if x.kind == 'store_name' and x.meta['name'] == var) == 1:
                    br = [x for x in g.nodes if x.kind == 'branch' and isinstance(x.meta['test'], ast.Name)
                          and x.meta['test'].id == var]
            if not br:
                ctx.violation('C02-R7', inst, g.loc(n),
                              'the outcome of acquire() is discarded: after a timed-out or non-blocking failure the '
                              'caller proceeds as if it held the lock', construct=ck)
                continue
            b = br[0]
            fe = [e for e in g.succ[b.id] if e.label == 'false']
            targets = [g.exit] + [x for x in g.nodes if x.kind == 'yield']
            w = find_path(g, [], targets, start_edges=fe)
            ctx.check('C02-R7', inst, g.loc(n), w is None,
                      'a failed acquire raises before the protected region is entered',
                      'after a failed acquire the protected region is still entered',
                      witness=render(g, w), construct=ck)
    # R9: flock excludes only contenders that opened the same inode
    ctx.rule('C02-R9', 'the lock file is never unlinked / renamed / replaced (all contenders lock the same inode)', 1)
    hits = [h for uu in r.units for h in soft_lock_hits(uu.tree, uu.aliases)
            if h[1] in ('os.unlink', 'os.remove', '.unlink', 'shutil.rmtree', 'os.rename', 'os.replace', '.rename', '.replace', 'shutil.move')]
    ctx.check('C02-R9', f'{FILE}: unlink/rename calls: {[h[1] for h in hits]}', f'{FILE}:{hits[0][0] if hits else 1}', not hits,
              'the path always names the inode the holder locked',
              'after an unlink the holder keeps its lock on the orphaned inode while the next contender creates and locks a fresh file: two holders',
              construct=construct_key(FILE, 'unlinks lock file', sorted({h[1] for h in hits})))
    # ... and the path that is opened is the path the caller named: a textual rewrite (normpath / abspath collapse `dir/..` without
    # looking at symlinks, case folding, stripping) can make two spellings of one file two different lock files
    opens_ = []
    for f in [f_ for uu in r.units for f_ in uu.functions() if f_.enclosing_class() is not None]:
        for x in own_nodes(f.node):
            if isinstance(x, ast.Call) and Resolver(f).path(x.func) == 'os.open' and x.args:
                opens_.append((f, x))
    path_attrs = {a0.attr for _, x in opens_ for a0 in [x.args[0]] if isinstance(a0, ast.Attribute) and isinstance(a0.value, ast.Name) and a0.value.id == 'self'}
    IDENT = {'os.fspath', 'os.fsdecode', 'os.fsencode', 'builtins.str', 'os.path.realpath', 'os.path.expanduser', 'os.path.expandvars', 'pathlib.Path'}
    for n in own_nodes(r.init.node):
        if isinstance(n, (ast.Assign, ast.AnnAssign)) and getattr(n, 'value', None) is not None:
            tg = n.targets[0] if isinstance(n, ast.Assign) else n.target
            if isinstance(tg, ast.Attribute) and tg.attr in path_attrs:
                v = n.value
                while isinstance(v, ast.Call) and Resolver(r.init).path(v.func) in IDENT and len(v.args) == 1 and not v.keywords:
                    v = v.args[0]
                ok = isinstance(v, ast.Name) and v.id in r.init.params
                ctx.check('C02-R9', f'self.{tg.attr} = {norm(n.value)}', f'{FILE}:{n.lineno}', ok, 'the path as given (or resolved through the file system)',
                          'the lock path is rewritten textually before it is opened: two spellings of the same file can end up as two lock files '
                          '(normpath / abspath drop `link/..` although `link` is a symlink), and flock only excludes contenders on the same inode',
                          construct=construct_key(r.init.qualname, 'lock path rewritten', n.value))
    # R8: a function that acquires and releases may release only what it acquired
    for f in p.all_functions():
        if f in (r.acquire, r.release) or f.unit not in r.units:
            continue
        g = build(f, p, inline_methods=True)
        acqs = [n for n in g.nodes if n.kind == 'call' and callee_info(g, n.ast)['kind'] == 'package'
                and r.acquire in callee_info(g, n.ast).get('scopes', [])]
        rels = [n for n in g.nodes if n.kind == 'call' and callee_info(g, n.ast)['kind'] == 'package'
                and r.release in callee_info(g, n.ast).get('scopes', [])]
        if not acqs or not rels:
            continue
        succ_edges = set()
        for a in acqs:
            br = [x for x in g.nodes if x.kind == 'branch' and x.meta['test'] is a.ast]
            par = parent(a.ast)
            if not br and isinstance(par, ast.Assign) and len(par.targets) == 1 and isinstance(par.targets[0], ast.Name):
                br = [x for x in g.nodes if x.kind == 'branch' and isinstance(x.meta['test'], ast.Name) and x.meta['test'].id == par.targets[0].id]
            for b in br:
                succ_edges |= {id(e) for e in g.succ[b.id] if e.label == 'true'}
        for rel in rels:
            w = find_path(g, [g.entry], [rel], edge_ok=lambda e: id(e) not in succ_edges)
            ctx.check('C02-R8', f'{f.qualname}: {norm(rel.ast)} only after its own successful acquire', g.loc(rel), w is None and bool(succ_edges),
                      'the release is reachable only through the success edge of this function\'s acquire',
                      'after a failed (timed-out / non-blocking) acquire this function still calls release(): it unlocks and closes the '
                      'descriptor of the thread that really holds the lock, letting a third contender in',
                      witness=render(g, w), construct=construct_key(f.qualname, 'release without own acquire'))
    _rule_fresh_acquire_can_succeed(ctx, r, 'C02-R1')
    _rule_surplus_release(ctx, r, 'C02-R10')
    ctx.rule('C02-R13', 'counter and descriptor are touched only while the in-process lock is surely held: nothing after an unlock in the same activation (= C12-R10)', 2)
    _rule_state_after_unlock(ctx, r, 'C02-R13')
    _rule_with_protocol(ctx, r, 'C02-R12', None)
    # R11: who may close a descriptor
    closers = []
    allowed = {r.os_acquire.qualname, r.os_release.qualname}
    for f in p.all_functions():
        if f.unit not in r.units:
            continue
        gf = build(f, p)
        for n in gf.nodes:
            if n.kind == 'call' and gf.res.path(n.ast.func) == 'os.close':
                closers.append((f, gf, n))
    # helpers called (inlined) only from the two OS helpers count as part of them
    def owner_ok(f: Scope) -> bool:
        if f.qualname in allowed:
            return True
        for host in (r.os_acquire, r.os_release):
            gh = build(host, p, inline_methods=True)
            if any(x.kind == 'inline_enter' and x.meta.get('name') == f.qualname for x in gh.nodes):
                callers = [c for c in p.all_functions() if c.unit in r.units and c is not f and any(
                    isinstance(x, ast.Attribute) and x.attr == f.name for x in ast.walk(c.node))]
                if all(c.qualname in allowed for c in callers):
                    return True
        return False
    for f, gf, n in closers:
        ctx.check('C02-R11', f'{f.qualname}: {norm(n.ast)}', gf.loc(n), owner_ok(f), 'closed by its owner',
                  'a second place closes the descriptor: after a failed attempt the same descriptor *number* is closed twice, and if another '
                  'FileLock object in the process was handed that number in between, the second close drops that object\'s OS lock while it '
                  'still reports is_locked', construct=construct_key(f.qualname, 'closes descriptor'))
    r.publish(ctx)


def _rule_locked_property(ctx: Ctx, r: 'LockRoles', rule: str) -> None:
    """`is_locked` is true exactly while the descriptor is held: some property of the class returns `self.FD is not None`."""
    ctx.check(rule, f'locked property: {sorted(r.locked_props) or None} reports `self.{r.fd} is not None`', f'{FILE}:{r.init.lineno}',
              not r.locked_prop_missing and bool(r.locked_props), 'is_locked is the descriptor state',
              f'no property of the lock class returns `self.{r.fd} is not None`: is_locked (and the fast path of acquire / the no-op test of '
              'release that read it) no longer says whether this object holds the OS lock - e.g. a counter-based answer is true for a thread '
              'that has only taken the in-process lock', construct=construct_key(r.cls.qualname, 'locked property'))


def _rule_platform_alias(ctx: Ctx, r: 'LockRoles') -> None:
    p = ctx.program
    u = r.unit
    sub_names = {c.name: c for c in r.subs}
    if not sub_names:
        return

    def prim_module(cls: Scope) -> Optional[str]:
        lk = find_method(p, cls, r.oslock_name)
        if lk is None:
            return None
        g = build(lk, p)
        for n in g.nodes:
            if n.kind == 'call':
                nm = g.res.path(resolve(g, n, n.ast.func)) or g.res.path(n.ast.func) or ''
                if nm.split('.')[0] in ('fcntl', 'msvcrt'):
                    return nm.split('.')[0]
        return 'none'
    # names assigned one of the lock classes at module level: the alias
    assigns: Dict[str, List[Tuple[ast.Assign, Tuple[Tuple[str, bool], ...]]]] = {}

    def walk(stmts, conds):
        for st in stmts:
            if isinstance(st, ast.Assign) and len(st.targets) == 1 and isinstance(st.targets[0], ast.Name) \
                    and isinstance(st.value, ast.Name) and st.value.id in sub_names:
                assigns.setdefault(st.targets[0].id, []).append((st, conds))
            elif isinstance(st, ast.If):
                t = st.test
                neg = False
                while isinstance(t, ast.UnaryOp) and isinstance(t.op, ast.Not):
                    t, neg = t.operand, not neg
                if isinstance(t, ast.Compare) and len(t.ops) == 1 and isinstance(t.ops[0], (ast.IsNot, ast.Is)) and isinstance(t.left, ast.Name) \
                        and isinstance(t.comparators[0], ast.Constant) and t.comparators[0].value is None:
                    nm, pos = t.left.id, isinstance(t.ops[0], ast.IsNot) != neg
                elif isinstance(t, ast.Name):
                    nm, pos = t.id, not neg
                else:
                    nm, pos = None, True
                walk(st.body, conds + (((nm, pos),) if nm else (('?', True),)))
                walk(st.orelse, conds + (((nm, not pos),) if nm else (('?', True),)))
    walk(u.tree.body, ())
    n_inst = 0
    for alias, sts in assigns.items():
        if len(sts) < 2:
            continue        # a plain alias of one class is not a platform selection
        for st, conds in sts:
            cls = sub_names[st.value.id]
            pm = prim_module(cls)
            true_mods = [nm for nm, pos in conds if pos and nm in ('fcntl', 'msvcrt')]
            n_inst += 1
            if pm in ('fcntl', 'msvcrt'):
                ok = pm in true_mods
                ctx.check('C02-R5', f'{alias} = {cls.name} (locks with {pm}) under {[("" if pos else "not ") + nm for nm, pos in conds]}', f'{FILE}:{st.lineno}', ok,
                          f'selected only where `{pm}` was found importable',
                          f'the platform alias selects {cls.name}, which locks with `{pm}`, on an arm that has not established that `{pm}` is available: '
                          'on the other platform every acquire fails (or the wrong primitive is used)',
                          construct=construct_key('platform alias', alias, cls.name, pm, sorted(true_mods)))
            else:
                lk = find_method(p, cls, r.oslock_name)
                verdict, why = classify_oslock(p, lk, None) if lk is not None else ('unknown', 'no lock hook')
                ctx.check('C02-R5', f'{alias} = {cls.name} (no locking primitive) as the fallback: {why}', f'{FILE}:{st.lineno}', verdict == 'refuses',
                          'the fallback class refuses to lock', 'the class used where no locking module is available does not refuse: it reports locks nobody holds',
                          construct=construct_key('platform alias', alias, cls.name, 'fallback', verdict))
    if not n_inst:
        ctx.note('no platform selection of a lock class at module level (a single lock class, or selection elsewhere)')


def sites_of(g: CFG, callee: Scope) -> List[Node]:
    """Nodes of g at which *callee* is invoked: call nodes, or inline_enter nodes when it was inlined."""
    out = []
    for n in g.nodes:
        if n.kind == 'inline_enter' and n.meta.get('name') == callee.qualname:
            out.append(n)
        elif n.kind == 'call':
            info = callee_info(g, n.ast)
            if info['kind'] == 'package' and callee in info.get('scopes', []):
                out.append(n)
    return out


def _self_attr(e: ast.AST, attr: str) -> bool:
    return isinstance(e, ast.Attribute) and isinstance(e.value, ast.Name) and e.value.id == 'self' and e.attr == attr


def classify_oslock(p, lk: Scope, ul: Optional[Scope]) -> Tuple[str, str]:
    """Fold the flag expression of a concrete `_lock(fd, block)` over block in {True, False}."""
    body = [s for s in lk.node.body if not (isinstance(s, ast.Expr) and isinstance(s.value, ast.Constant))]
    if len(body) == 1 and isinstance(body[0], ast.Raise):
        return 'refuses', 'unsupported platform: raises'
    glk = build(lk, p)
    res = glk.res
    params = lk.params
    if len(params) < 3:
        return 'unknown', 'signature is not (self, fd, block)'
    fdp, blockp = params[1], params[2]
    prim_nodes = [n for n in glk.nodes if n.kind == 'call' and (res.path(resolve(glk, n, n.ast.func)) or res.path(n.ast.func) or '').split('.')[0] in ('fcntl', 'msvcrt')]
    if len(prim_nodes) == 0:
        raises_ = [n for n in glk.nodes if n.kind == 'raise']
        if not raises_ or find_path(glk, [glk.entry], [glk.exit]) is not None:
            return 'bad', 'returns normally without applying any locking primitive: success is reported with nothing locked'
        return 'refuses', 'always raises'
    # success is reported by returning normally: the last locking call on every such path must itself have returned
    # (a retry loop that runs out after a failed attempt, a handler that swallows the refusal ... report a lock nobody granted)
    failed_ = [e for n in prim_nodes for e in glk.succ[n.id] if e.label == 'exc']
    if failed_:
        cls_ = lk.enclosing_class()
        last_iter: Dict[int, Tuple[str, int]] = {}      # for_iter node id -> (loop variable, its value in the last iteration)
        for n in glk.nodes:
            if n.kind == 'for_iter' and isinstance(n.ast, ast.For) and isinstance(n.ast.target, ast.Name) and isinstance(n.ast.iter, ast.Call) \
                    and isinstance(n.ast.iter.func, ast.Name) and n.ast.iter.func.id == 'range' and 1 <= len(n.ast.iter.args) <= 2 \
                    and not n.ast.iter.keywords and glk.scope.binding_scope('range') is None:
                hi = _const_int(n.ast.iter.args[-1], lk, cls_, p)
                stores = [x for x in ast.walk(lk.node) if isinstance(x, ast.Name) and x.id == n.ast.target.id and isinstance(x.ctx, ast.Store)]
                if hi is not None and len(stores) == 1:
                    last_iter[n.id] = (n.ast.target.id, hi - 1)

        def after_failure(e):
            if e.src in prim_nodes and e.label != 'exc':
                return False            # a later attempt that succeeded
            if e.src.kind == 'for_iter' and e.src.id in last_iter and e.label == 'true':
                return False            # the path that runs out of attempts is looked at in its last iteration
            if e.src.kind == 'branch' and e.label in ('true', 'false'):
                for var, val in last_iter.values():
                    tv = _fold_cmp(e.src.meta['test'], var, val, lk, cls_, p)
                    if tv is not None and tv != (e.label == 'true'):
                        return False
            return True
        wf = find_path(glk, [], [glk.exit], start_edges=failed_, edge_ok=after_failure)
        if wf is not None:
            return 'bad', ('returns normally although the last locking call failed (its error is swallowed / the retries ran out): success is '
                           'reported with nothing locked; path: ' + ' -> '.join(render(glk, wf)[:8]))
    for n in prim_nodes:
        nm_ = res.path(resolve(glk, n, n.ast.func)) or res.path(n.ast.func)
        if nm_ in ('fcntl.lockf', 'fcntl.fcntl'):
            return 'bad', (f'{nm_} (line {n.line}): POSIX record locks are per process and independent of flock() - two FileLock objects in one '
                           'process both succeed, and a holder that used flock() is not seen at all')
    if len(prim_nodes) != 1:
        return 'unknown', f'{len(prim_nodes)} locking primitive calls'
    pn = prim_nodes[0]
    name = res.path(resolve(glk, pn, pn.ast.func)) or res.path(pn.ast.func)
    # arguments with local temporaries substituted (parameters stay as they are)
    c = ast.Call(func=pn.ast.func, args=[resolve(glk, pn, a, keep=tuple(params)) for a in pn.ast.args], keywords=[])
    # path-sensitive folding: `if block: mode = A else: mode = B` - per path, the value of the flag
    # argument and what the path decided about `block`
    from ..sym import enum_paths, sym_env, subst
    from ..paths import walk_env, decisions
    per_block: Dict[bool, List[ast.expr]] = {True: [], False: []}
    for pth in enum_paths(glk, [pn], sources=[glk.entry]):
        dec = decisions(walk_env(glk, pth)).get(('p', blockp))
        env = sym_env(glk, pth)
        a1 = subst(pn.ast.args[1], env) if len(pn.ast.args) > 1 else None
        for b in ((True, False) if dec is None else (dec,)):
            per_block[b].append(a1)

    def fold_for(b: bool) -> Optional[Set[str]]:
        outs = []
        for a1 in per_block[b]:
            if a1 is None:
                return None
            bits = fold_bits(a1, {blockp: b}, res)
            if bits is None:
                return None
            outs.append(frozenset(bits))
        if not outs or len(set(outs)) != 1:
            return None
        return set(outs[0])
    if name == 'fcntl.flock':
        if len(c.args) != 2 or not (isinstance(c.args[0], ast.Name) and c.args[0].id == fdp):
            return 'bad', 'flock is not applied to the descriptor argument'
        out = {}
        for b in (True, False):
            bits = fold_for(b)
            if bits is None:
                return 'unknown', f'flag expression {norm(c.args[1])} not foldable'
            out[b] = bits
        if 'fcntl.LOCK_EX' not in out[True] or 'fcntl.LOCK_EX' not in out[False]:
            return 'bad', f'not exclusive: flags {sorted(out[True])} / {sorted(out[False])}'
        if 'fcntl.LOCK_SH' in out[True] | out[False] or 'fcntl.LOCK_UN' in out[True] | out[False]:
            return 'bad', 'shared/unlock bit in the lock flags'
        if 'fcntl.LOCK_NB' in out[True]:
            return 'bad', 'blocking request carries LOCK_NB'
        if 'fcntl.LOCK_NB' not in out[False]:
            return 'bad', 'non-blocking request lacks LOCK_NB (a non-blocking or timed acquire would block)'
        if out[True] != {'fcntl.LOCK_EX'} or out[False] != {'fcntl.LOCK_EX', 'fcntl.LOCK_NB'}:
            return 'unknown', f'unexpected flags {out}'
        return 'good', 'flock(fd, LOCK_EX | (LOCK_NB iff not block))'
    if name == 'msvcrt.locking':
        if len(c.args) != 3 or not (isinstance(c.args[0], ast.Name) and c.args[0].id == fdp):
            return 'bad', 'locking is not applied to the descriptor argument'
        out = {}
        for b in (True, False):
            bits = fold_for(b)
            if bits is None:
                return 'unknown', f'mode expression {norm(c.args[1])} not foldable'
            out[b] = bits
        if out[True] != {'msvcrt.LK_LOCK'} or out[False] != {'msvcrt.LK_NBLCK'}:
            return 'bad', f'modes {sorted(out[True])} / {sorted(out[False])}: expected LK_LOCK / LK_NBLCK'
        # same byte count in unlock
        if ul is not None:
            ucalls = [x for x in own_nodes(ul.node) if isinstance(x, ast.Call) and Resolver(ul).path(x.func) == 'msvcrt.locking']
            if len(ucalls) == 1 and len(ucalls[0].args) == 3 and norm(ucalls[0].args[2]) != norm(c.args[2]):
                return 'bad', 'lock and unlock use different byte counts'
        return 'good', 'msvcrt.locking(fd, LK_LOCK / LK_NBLCK, n)'
    if name in ('fcntl.lockf', 'fcntl.fcntl'):
        return 'bad', f'{name}: POSIX record locks are per process - two FileLock objects in one process both succeed'
    return 'unknown', f'unrecognised primitive {name}'


def _const_int(e: ast.AST, f: Scope, cls_: Optional[Scope], p) -> Optional[int]:
    """Integer value of a constant expression: literals, module constants, class-level constants read through
    self / cls / the class name, + and -."""
    if isinstance(e, ast.Constant) and isinstance(e.value, int) and not isinstance(e.value, bool):
        return e.value
    if isinstance(e, ast.BinOp) and isinstance(e.op, (ast.Add, ast.Sub)):
        l, r_ = _const_int(e.left, f, cls_, p), _const_int(e.right, f, cls_, p)
        if l is None or r_ is None:
            return None
        return l + r_ if isinstance(e.op, ast.Add) else l - r_
    if isinstance(e, ast.UnaryOp) and isinstance(e.op, ast.USub):
        v = _const_int(e.operand, f, cls_, p)
        return -v if v is not None else None

    def single(body, name):
        vals = [st.value for st in body if isinstance(st, (ast.Assign, ast.AnnAssign)) and st.value is not None
                and any(isinstance(t, ast.Name) and t.id == name for t in (st.targets if isinstance(st, ast.Assign) else [st.target]))]
        return vals[0] if len(vals) == 1 else None
    if isinstance(e, ast.Name) and f.binding_scope(e.id) is f.unit.module_scope:
        v = single(f.unit.tree.body, e.id)
        return _const_int(v, f, cls_, p) if v is not None else None
    if isinstance(e, ast.Attribute) and isinstance(e.value, ast.Name) and cls_ is not None and e.value.id in ('self', 'cls', cls_.name):
        # no instance attribute of that name anywhere in the package's classes
        for uu in p.units.values():
            for x in ast.walk(uu.tree):
                if isinstance(x, ast.Attribute) and x.attr == e.attr and isinstance(x.ctx, (ast.Store, ast.Del)):
                    return None
        c: Optional[Scope] = cls_
        seen = set()
        while c is not None and id(c) not in seen:
            seen.add(id(c))
            v = single(c.node.body, e.attr)
            if v is not None:
                return _const_int(v, f, c, p)
            nxt = None
            for b in c.node.bases:
                if isinstance(b, ast.Name):
                    nxt = next((k for uu in p.units.values() for k in uu.classes() if k.name == b.id), None)
                    if nxt is not None:
                        break
            c = nxt
    return None


def _fold_cmp(t: ast.AST, var: str, val: int, f: Scope, cls_: Optional[Scope], p) -> Optional[bool]:
    """Truth of a comparison between the loop variable (valued *val*) and constants; None when it is something else."""
    if isinstance(t, ast.UnaryOp) and isinstance(t.op, ast.Not):
        v = _fold_cmp(t.operand, var, val, f, cls_, p)
        return None if v is None else not v
    if not (isinstance(t, ast.Compare) and len(t.ops) == 1):
        return None

    def side(x):
        if isinstance(x, ast.Name) and x.id == var:
            return val
        if any(isinstance(y, ast.Name) and y.id == var for y in ast.walk(x)):
            if isinstance(x, ast.BinOp) and isinstance(x.op, (ast.Add, ast.Sub)):
                l, r_ = side(x.left), side(x.right)
                if l is None or r_ is None:
                    return None
                return l + r_ if isinstance(x.op, ast.Add) else l - r_
            return None
        return _const_int(x, f, cls_, p)
    if not any(isinstance(y, ast.Name) and y.id == var for y in ast.walk(t)):
        return None
    a, b = side(t.left), side(t.comparators[0])
    if a is None or b is None:
        return None
    op = t.ops[0]
    table = {ast.Lt: a < b, ast.LtE: a <= b, ast.Gt: a > b, ast.GtE: a >= b, ast.Eq: a == b, ast.NotEq: a != b}
    return table.get(type(op))


def fold_bits(e: ast.expr, env: Dict[str, bool], res: Resolver) -> Optional[Set[str]]:
    """Set of named flag bits of an or-expression, for a valuation of bool params."""
    if isinstance(e, ast.BinOp) and isinstance(e.op, ast.BitOr):
        l, r = fold_bits(e.left, env, res), fold_bits(e.right, env, res)
        if l is None or r is None:
            return None
        return l | r
    if isinstance(e, ast.IfExp):
        t = fold_bool(e.test, env)
        if t is None:
            return None
        return fold_bits(e.body if t else e.orelse, env, res)
    if isinstance(e, ast.Constant) and e.value == 0:
        return set()
    d = res.path(e)
    if d and '.' in d:
        return {d}
    return None


def fold_bool(e: ast.expr, env: Dict[str, bool]) -> Optional[bool]:
    if isinstance(e, ast.Name) and e.id in env:
        return env[e.id]
    if isinstance(e, ast.UnaryOp) and isinstance(e.op, ast.Not):
        v = fold_bool(e.operand, env)
        return None if v is None else not v
    if isinstance(e, ast.Constant) and isinstance(e.value, bool):
        return e.value
    return None


# ---------------------------------------------------------------------------
# C12
# ---------------------------------------------------------------------------

def c12(ctx: Ctx) -> None:
    r = LockRoles(ctx)
    from .common import rule_unbound
    rule_unbound(ctx, 'C12-U1', [s_ for uu in r.units for s_ in uu.functions() if s_.enclosing_class() is not None and s_.enclosing_function() is None], 'the FileLock classes')
    p = ctx.program
    ctx.trusted += ['threading.Lock / RLock semantics', 'time.time / time.sleep']
    ctx.assumptions += ['precondition of every method: counter == depth of the thread lock held by the calling thread (c), '
                        'and c >= 1 whenever the caller holds the lock; release is called by the acquiring thread']
    ctx.rule('C12-R14', '__exit__ releases on every path; acquire_ctx releases on every exit after its yield', 1)
    _rule_locked_property(ctx, r, 'C12-R1')
    ctx.rule('C12-R13', 'the outermost release (c == 1) and release(force=True) at any depth end with the OS lock dropped, counter 0, thread lock free', 2)
    ctx.rule('C12-R1', 'balance: on every exit of acquire/release, counter - depth(thread lock) = 0; '
                       'acquire: False/raise leave both unchanged, True adds one to both; '
                       'release: full/forced release ends at 0/0, nested release subtracts one from both', 6)
    ctx.rule('C12-R2', 'the OS release is reachable only under counter == 0 or force, after exactly one decrement', 1)
    ctx.rule('C12-R3', 'the thread lock is an RLock iff reentrant', 1)
    ctx.rule('C12-R4', 'release() of an unheld lock has no effect', 1)
    ctx.rule('C12-R5', 'descriptor accounting under OSError faults at open/lock/unlock/close', 2)
    ctx.rule('C12-R6', 'argument normalisation of (blocking, timeout) equals the threading.Lock table', 1)
    ctx.rule('C12-R7', 'a non-blocking acquire can never reach time.sleep; the thread lock gets the normalised arguments', 2)
    ctx.rule('C12-R8', 'timed wait: stage-2 clock starts after stage 1, every sleep cycle passes the deadline test, sleep(poll_interval)', 1)
    ctx.rule('C12-R9', 'every path through release() past the is_locked test releases the thread lock, also when the OS release fails', 1)
    ctx.rule('C12-R10', 'the nesting counter is updated only while the in-process lock is held', 1)
    ctx.rule('C12-R11', 'acquire_ctx() hands its (blocking, timeout, poll_interval) to acquire() unchanged, each in its own position', 1)
    _rule_forwarding(ctx, r)
    ctx.rule('C12-R12', 'release() never releases the in-process lock more often than the caller holds it', 1)
    _rule_fresh_acquire_can_succeed(ctx, r, 'C12-R1')
    # a nested acquire (this thread holds the lock: counter >= 1, descriptor set) takes the fast path: it never attempts the
    # OS lock again - a second open + flock on the same file from the same process contends with the descriptor it already holds
    try:
        it_n = r.interp(ctx.program)
        outs_n = it_n.run(r.acquire, _entry_state(1, True))
        ga_n = build(r.acquire, ctx.program, inline_methods=True)
        again = [s_ for o_ in sites_of(ga_n, r.os_acquire) for s_ in it_n.call_states.get(id(o_.ast), [])]
        ctx.check('C12-R1', f'nested acquire() (held, c >= 1): {len(outs_n)} path(s), OS attempts on them: {len(again)}', f'{FILE}:{r.acquire.lineno}',
                  not again and bool(outs_n), 'the holder re-enters without touching the OS lock',
                  'a nested acquire() of the holder attempts the OS lock again: a second descriptor is opened and locked against the one already held '
                  '(it blocks or fails for ever; on success the inner release drops a lock the outer level still relies on)',
                  witness=again[0].trace if again else [], construct=construct_key(r.acquire.qualname, 'nested acquire attempts the OS lock'))
    except Undecided as e:
        ctx.undecided('C12-R1', 'nested acquire()', f'{FILE}:{r.acquire.lineno}', str(e))
    _rule_surplus_release(ctx, r, 'C12-R12')
    # R1 acquire
    try:
        it, outs = run_acquire(ctx, r)
        seen = set()
        for o in outs:
            s = o.state
            rv = _ret_const(o) if o.kind == 'return' else 'raise'
            key = (o.kind, o.node.line, repr(s.v['CNT']), repr(s.v['DEPTH']), str(rv))
            if key in seen:
                continue
            seen.add(key)
            if o.kind == 'return' and rv is True:
                ok = s.v['CNT'] == Lin(1, 1) and s.v['DEPTH'] == Lin(1, 1)
                exp = 'CNT=c+1, DEPTH=c+1'
            else:
                ok = s.v['CNT'] == Lin(1, 0) and s.v['DEPTH'] == Lin(1, 0)
                if s.c_known is not None:
                    ok = s.v['CNT'] == Lin(0, s.c_known) and s.v['DEPTH'] == Lin(0, s.c_known)
                exp = 'CNT=c, DEPTH=c (nothing kept)'
            ctx.check('C12-R1', f'acquire: {o.kind} {rv if o.kind == "return" else sorted(o.classes or [])} at line {o.node.line}: '
                                f'CNT={s.v["CNT"]!r} DEPTH={s.v["DEPTH"]!r}', f'{FILE}:{o.node.line}', ok,
                      exp, f'expected {exp}: an unsuccessful acquire keeps a counter level or the in-process lock '
                           '(or a successful one does not take them)',
                      witness=s.trace, construct=construct_key(r.acquire.qualname, 'imbalance', o.kind, str(rv),
                                                               repr(s.v['CNT']), repr(s.v['DEPTH'])))
        ctx.extra['acquire_paths'] = it.paths
        seen10 = set()
        for gg, n_, s_ in it.unprotected:
            if n_.id in seen10:
                continue
            seen10.add(n_.id)
            ctx.violation('C12-R10', f'acquire(): {norm(n_.meta.get("stmt") or n_.ast)} with DEPTH={s_.v["DEPTH"]!r}', gg.loc(n_),
                          'the nesting counter is updated without holding the in-process lock: another thread\'s acquire/release interleaves '
                          'with it and the counter no longer matches the lock depth (the OS lock is kept or dropped at the wrong release)',
                          witness=s_.trace, construct=construct_key(r.acquire.qualname, 'counter update without TL'))
        if not it.unprotected:
            ctx.holds('C12-R10', 'acquire(): every counter update happens with the in-process lock held', f'{FILE}:{r.acquire.lineno}')
    except Undecided as e:
        ctx.undecided('C12-R1', 'acquire()', f'{FILE}:{r.acquire.lineno}', str(e))
    _rule_state_after_unlock(ctx, r)
    # R1 release (held), R2, R9 ; R4 (unheld)
    try:
        it, outs = run_release(ctx, r, True)
        seen = set()
        for o in outs:
            s = o.state
            forced = s.facts.get('force')
            key = (o.kind, repr(s.v['CNT']), repr(s.v['DEPTH']), s.locked, str(s.c_known), forced)
            if key in seen:
                continue
            seen.add(key)
            full = s.locked is False
            if full:
                ok = s.v['CNT'] == Lin(0, 0) and s.v['DEPTH'] == Lin(0, 0)
                exp = 'full/forced release: CNT=0, DEPTH=0 (any thread can acquire again)'
            else:
                exp = 'nested release: CNT=c-1, DEPTH=c-1, still locked'
                # (the path must know that it is an inner level: c >= 2; "still locked with c - 1 levels" for c == 1
                # would be a released counter with the OS lock kept)
                ok = s.v['CNT'] == Lin(1, -1) and s.v['DEPTH'] == Lin(1, -1) and (s.c_known is None or s.c_known >= 2) \
                    and (s.c_known is not None or s.cmin >= 2)
                if s.c_known is not None:
                    ok = s.v['CNT'] == Lin(0, s.c_known - 1) and s.v['DEPTH'] == Lin(0, s.c_known - 1) and s.c_known >= 2
            if o.kind == 'raise' and not _interrupt(o):
                # (an interrupt - KeyboardInterrupt / SystemExit out of a user callback - is not release() failing; the state it
                # leaves is held to the same standard as a return)
                ok = False
                exp = 'release() does not raise'
            inst = (f'release(force={forced}) with c={s.c_known if s.c_known is not None else ">=" + str(s.cmin)}: '
                    f'{o.kind}, CNT={s.v["CNT"]!r} DEPTH={s.v["DEPTH"]!r} LOCKED={s.locked}')
            ctx.check('C12-R1', inst, f'{FILE}:{o.node.line}', ok, exp,
                      f'expected {exp}: after this release the counter and the in-process lock disagree - '
                      'e.g. the RLock stays owned and no other thread can ever acquire',
                      witness=s.trace,
                      construct=construct_key(r.release.qualname, 'force at depth>=2 leaves RLock owned')
                      if (forced and full and s.v['CNT'] == Lin(0, 0) and s.v['DEPTH'] != Lin(0, 0)) else
                      construct_key(r.release.qualname, 'imbalance', o.kind, str(forced), repr(s.v['CNT']), repr(s.v['DEPTH']), s.locked))
        # completeness: the outermost release and a forced release give the lock up entirely
        fparam = r.release.params[1] if len(r.release.params) > 1 else None
        for label, seed_force, ck in (('outermost release (c == 1, not forced)', False, 1), ('forced release at any depth', True, None)):
            it2 = r.interp(ctx.program)
            st0 = _entry_state(1, True)
            if fparam is not None:
                st0.facts[fparam] = seed_force
            elif seed_force:
                continue
            if ck is not None:
                st0.fix_c(Fraction(ck))
            outs2 = it2.run(r.release, st0)
            bad2 = [o for o in outs2 if not ((o.kind == 'return' or _interrupt_after_clean_release(o)) and o.state.locked is False
                                             and o.state.v['CNT'] == Lin(0, 0) and o.state.v['DEPTH'] == Lin(0, 0))]
            o2 = bad2[0] if bad2 else None
            ctx.check('C12-R13', f'{label}: {len(outs2)} path(s)', f'{FILE}:{(o2.node.line if o2 else r.release.lineno)}', not bad2 and bool(outs2),
                      'every path ends with the OS lock dropped, the counter 0 and the thread lock free',
                      (f'a path ends {o2.kind} with CNT={o2.state.v["CNT"]!r} DEPTH={o2.state.v["DEPTH"]!r} LOCKED={o2.state.locked}: the lock is '
                       'not given up although this was the last / a forced release - nobody can acquire it again') if o2 else 'no path',
                      witness=o2.state.trace if o2 else [], construct=construct_key(r.release.qualname, 'incomplete release', label))
        # R9: every outcome released TL at least once
        for o in outs:
            s = o.state
            if not (s.v['DEPTH'] != Lin(1, 0) or s.c_known is not None and s.v['DEPTH'] != Lin(0, s.c_known)):
                ctx.violation('C12-R9', f'release path keeps the thread lock: {s.describe()}', f'{FILE}:{o.node.line}',
                              'a path through release() does not release the in-process lock', witness=s.trace,
                              construct=construct_key(r.release.qualname, 'TL kept'))
        # specifically: paths where the OS release raised
        gr = build(r.release, p, inline_methods=True)
        osrel = sites_of(gr, r.os_release)
        tlrel = [n for n in gr.nodes if n.kind == 'call' and isinstance(n.ast.func, ast.Attribute)
                 and n.ast.func.attr == 'release' and _self_attr(n.ast.func.value, r.tl)]
        failed = [o for o in outs if o.state.facts.get('raised:' + r.os_release.name)]
        if not failed:
            ctx.note('the OS release helper cannot raise under the raise model; C12-R9 failure path not exercised')
            ctx.holds('C12-R9', 'the OS release helper has no raising call under the raise model: no failure path to check',
                      f'{FILE}:{r.os_release.lineno}')
        seen9 = set()
        for o in failed:
            s = o.state
            key = (repr(s.v['DEPTH']), str(s.c_known), o.kind)
            if key in seen9:
                continue
            seen9.add(key)
            lowered = (s.v['DEPTH'] != Lin(1, 0)) if s.c_known is None else (s.v['DEPTH'] != Lin(0, s.c_known))
            ctx.check('C12-R9', f'OS release raised (c={s.c_known if s.c_known is not None else ">=" + str(s.cmin)}): '
                                f'{o.kind}, DEPTH={s.v["DEPTH"]!r}', f'{FILE}:{o.node.line}', lowered and (o.kind == 'return' or _interrupt_after_clean_release(o)),
                      'a failing unlock/close still frees the in-process lock',
                      'a failing unlock/close leaves the in-process lock held forever (or escapes from release())',
                      witness=s.trace, construct=construct_key(r.release.qualname, 'OS release failure keeps TL'))
        # R2: states at the OS-release call
        sts = []
        for o_ in osrel:
            sts += it.call_states.get(id(o_.ast), [])
        if not sts:
            ctx.violation('C12-R2', 'the OS release is never reached from release()', f'{FILE}:{r.release.lineno}',
                          construct=construct_key(r.release.qualname, 'no OS release'))
        seen = set()
        for s in sts:
            forced = s.facts.get('force')
            key = (repr(s.v['CNT']), str(s.c_known), forced)
            if key in seen:
                continue
            seen.add(key)
            one_dec = (s.v['CNT'] == Lin(1, -1)) or (s.c_known is not None and s.v['CNT'] == Lin(0, s.c_known - 1))
            outermost = (s.c_known == 1) or forced is True
            ctx.check('C12-R2', f'OS release reached with CNT={s.v["CNT"]!r}, c={s.c_known}, force={forced}',
                      f'{FILE}:{osrel[0].line}', one_dec and outermost,
                      'outermost (c == 1) or forced, after exactly one decrement',
                      'the OS lock is dropped by an inner release of a nested (reentrant) hold, or the decrement count is off',
                      witness=s.trace, construct=construct_key(r.release.qualname, 'inner release drops OS lock', repr(s.v['CNT']), str(s.c_known), str(forced)))
    except Undecided as e:
        ctx.undecided('C12-R1', 'release()', f'{FILE}:{r.release.lineno}', str(e))
    try:
        it, outs = run_release(ctx, r, False)
        for o in outs:
            s = o.state
            ok = s.effects == 0 and o.kind == 'return'
            ctx.check('C12-R4', f'release() on an unheld lock: {o.kind}, {s.effects} effect(s)', f'{FILE}:{o.node.line}', ok,
                      'no counter / lock / descriptor write on the path', 'releasing an unheld lock changes state or raises',
                      witness=s.trace, construct=construct_key(r.release.qualname, 'unheld release has effects'))
    except Undecided as e:
        ctx.undecided('C12-R4', 'release() unheld', f'{FILE}:{r.release.lineno}', str(e))
    _rule_with_protocol(ctx, r, None, 'C12-R14')
    # R15: a fresh object holds nothing: the constructor sets the depth counter to 0 (the precondition counter == depth
    # of the interpretation above starts from there)
    ctx.rule('C12-R15', 'the constructor initialises the depth counter to 0', 1)
    cinit = [n for n in own_nodes(r.init.node) if isinstance(n, (ast.Assign, ast.AnnAssign)) and getattr(n, 'value', None) is not None
             and any(_self_attr(t_, r.cnt) for t_ in (n.targets if isinstance(n, ast.Assign) else [n.target]))]
    okc = len(cinit) == 1 and isinstance(cinit[0].value, ast.Constant) and cinit[0].value.value == 0 and not isinstance(cinit[0].value.value, bool)
    ctx.check('C12-R15', f'{r.init.qualname}: {[norm(x) for x in cinit]}', f'{FILE}:{cinit[0].lineno if cinit else r.init.lineno}', okc,
              'self.<counter> = 0, once', 'a new lock object does not start with depth 0: the first release is taken for an inner one (or the attribute is missing)',
              construct=construct_key(r.init.qualname, 'counter initialisation'))
    # R3
    _rule_lock_kind(ctx, r)
    # R5
    _rule_fd_accounting(ctx, r)
    # R6-R8
    _rule_arguments(ctx, r)
    r.publish(ctx)


def _rule_state_after_unlock(ctx: Ctx, r: LockRoles, rule: str = 'C12-R10') -> None:
    """C12-R10, the other direction: counter and descriptor are the state the in-process lock protects.  Once an
    activation of acquire() / release() (private helpers read in place) has given a level of that lock back it may have
    given back the last one, and whatever it reads or writes of that state afterwards belongs to the next holder."""
    if not r.has_tl:
        return
    p = ctx.program
    for f in (r.acquire, r.release):
        g = build(f, p, inline_methods=True)
        unlocks = [n for n in g.nodes if n.kind == 'call' and isinstance(n.ast.func, ast.Attribute) and n.ast.func.attr == 'release'
                   and _self_attr(n.ast.func.value, r.tl)]
        bad = None
        seen: Set[int] = set()
        # (an unlock that raises has not given anything back)
        stack = [e.dst for u_ in unlocks for e in g.succ[u_.id] if e.label != 'exc']
        while stack and bad is None:
            n = stack.pop()
            if n.id in seen:
                continue
            seen.add(n.id)
            if n is g.exit or n is g.raise_exit:
                continue
            exprs = [x for x in (n.ast, n.meta.get('test'), n.meta.get('value')) if isinstance(x, ast.AST)
                     and not isinstance(x, (ast.FunctionDef, ast.AsyncFunctionDef, ast.stmt))]
            if n.kind in ('inline_enter', 'inline_exit', 'with_enter', 'with_exit', 'finally_enter', 'cleanup_end', 'except', 'for_iter', 'while'):
                exprs = [x for x in (n.meta.get('test'),) if isinstance(x, ast.AST)]
                if n.kind == 'for_iter' and isinstance(n.ast, (ast.For, ast.AsyncFor)):
                    exprs.append(n.ast.iter)
            hit = next((a for x in exprs for a in ast.walk(x) if isinstance(a, ast.Attribute)
                        and (_self_attr(a, r.cnt) or (r.fd is not None and _self_attr(a, r.fd))
                             or any(_self_attr(a, lp) for lp in r.locked_props))), None)
            if hit is not None and not (n.kind == 'call' and n in unlocks):
                bad = (n, hit)
                break
            # a fresh acquisition of the in-process lock starts a new protected region
            if n.kind == 'call' and isinstance(n.ast.func, ast.Attribute) and n.ast.func.attr == 'acquire' and _self_attr(n.ast.func.value, r.tl):
                continue
            for e in g.succ[n.id]:
                stack.append(e.dst)
        ctx.check(rule, f'{f.name}(): nothing reads or writes counter / descriptor after giving a level of the in-process lock back '
                             f'({len(unlocks)} release site(s))', g.loc(bad[0]) if bad else f'{FILE}:{f.lineno}', bad is None and bool(unlocks),
                  'the protected state is only touched while the lock is surely held',
                  (f'{norm(bad[0].meta.get("stmt") or bad[0].ast)} touches self.{bad[1].attr} after the in-process lock may have been given up: another '
                   "thread's acquire() interleaves, its counter is decremented / its lock released by this activation") if bad else
                  'no release site of the in-process lock found',
                  construct=construct_key(f.qualname, 'protected state touched after unlock', norm(bad[0].meta.get('stmt') or bad[0].ast) if bad else ''))


def _rule_fresh_acquire_can_succeed(ctx: Ctx, r: LockRoles, rule: str) -> None:
    """Safety rules are satisfied by an acquire() that never succeeds; the property also says the lock *can* be taken: from a
    normally returning call of the OS acquire helper some path leads to `return True` (the success test after the attempt is
    not constantly false, the success branch is not dead)."""
    g = build(r.acquire, ctx.program, inline_methods=True, no_inline=(r.os_acquire.qualname,))     # (the attempt may sit in a helper of acquire())
    attempts = sites_of(g, r.os_acquire)
    trues = [n for n in g.nodes if n.kind == 'return' and isinstance(n.ast.value, ast.Constant) and n.ast.value.value is True]
    if not attempts:
        ctx.undecided(rule, 'acquire(): no call of the OS acquire helper found on the expanded graph', f'{FILE}:{r.acquire.lineno}', 'attempt site not recognised')
        return
    if not trues:
        # (success reported through a variable / a helper's return value: followed by the interpretation under C02-R1, not here)
        rets_ = [n for n in g.nodes if n.kind == 'return' and n.ast.value is not None and not (isinstance(n.ast.value, ast.Constant) and n.ast.value.value is False)]
        trues = rets_
    starts = [e for a_ in attempts for e in g.succ[a_.id] if e.label != 'exc']
    w = find_path(g, [], trues, start_edges=starts) if attempts and trues else None
    ctx.check(rule, f'acquire(): an OS attempt ({len(attempts)} site(s)) can be followed by `return True`', f'{FILE}:{r.acquire.lineno}',
              w is not None, 'a free lock can be taken', 'no path leads from an attempt on the OS lock to `return True`: acquire() of a free lock never succeeds '
              '(it polls for ever, or reports failure while holding the descriptor)',
              construct=construct_key(r.acquire.qualname, 'fresh acquire cannot succeed'))


def _rule_surplus_release(ctx: Ctx, r: LockRoles, rule: str) -> None:
    """release() gives back exactly the levels its caller holds: a surplus release() of a plain threading.Lock succeeds
    when another thread has taken the lock meanwhile - and frees *that* thread's hold."""
    try:
        it, outs = run_release(ctx, r, True)
    except Undecided as e:
        ctx.undecided(rule, 'release()', f'{FILE}:{r.release.lineno}', str(e))
        return
    seen = set()
    for g_, n_, st_, count, final in it.surplus:
        k = (n_.id, repr(count), repr(final))
        if k in seen:
            continue
        seen.add(k)
        ctx.violation(rule, f'release(): {count!r} thread-lock releases with depth {st_.v["DEPTH"]!r} held (facts {dict(st_.facts)})', g_.loc(n_),
                      'one release more than the caller holds: on the non-reentrant kind the extra release() does not fail if another thread '
                      'has just acquired the lock - it unlocks that thread\'s hold and a third contender gets in beside it',
                      witness=st_.trace, construct=construct_key(r.release.qualname, 'surplus thread-lock release', repr(count), repr(final)))
    if not it.surplus:
        ctx.holds(rule, 'release(): on no path more thread-lock levels are released than the caller holds', f'{FILE}:{r.release.lineno}')


def _rule_forwarding(ctx: Ctx, r: LockRoles) -> None:
    p = ctx.program
    f = r.acquire_ctx
    g = build(f, p, inline_methods=True)
    aparams = [x for x in r.acquire.params if x != 'self']
    fparams = [x for x in f.params if x != 'self']
    calls = [n for n in g.nodes if n.kind == 'call' and callee_info(g, n.ast)['kind'] == 'package'
             and r.acquire in callee_info(g, n.ast).get('scopes', [])]
    for n in calls:
        c = n.ast
        bound: Dict[str, ast.AST] = {}
        ok = True
        pos = list(c.args)
        if len(pos) == 1 and isinstance(pos[0], ast.Starred):
            # *args of an inlined helper: the tuple the caller passed
            v = resolve(g, n, pos[0].value)
            pos = list(v.elts) if isinstance(v, ast.Tuple) else None
        if pos is None or any(isinstance(a, ast.Starred) for a in pos):
            ctx.undecided('C12-R11', f'{norm(c)}', g.loc(n), 'star arguments not resolved')
            continue
        for prm, a in zip(aparams, pos):
            bound[prm] = a
        for k in c.keywords:
            if k.arg is not None:
                bound[k.arg] = k.value
        from ..dataflow import unalias
        mism = []
        for prm in aparams:
            if prm in bound and prm in fparams:
                got = norm(unalias(g, n, bound[prm]))
                if got != prm:
                    mism.append(f'{prm} <- {got}')
        missing = [prm for prm in aparams if prm in fparams and prm not in bound and prm in ('blocking', 'timeout')]
        ctx.check('C12-R11', f'{f.qualname}: {norm(c)}', g.loc(n), not mism and not missing,
                  'same-named parameters are forwarded to the same-named parameters',
                  f'arguments reach acquire() in the wrong slot or not at all ({mism + ["missing " + m for m in missing]}): a blocking '
                  'acquire_ctx() becomes a non-blocking / differently timed one',
                  construct=construct_key(f.qualname, 'forwarding', mism, missing))
    if not calls:
        ctx.violation('C12-R11', 'acquire_ctx() does not call acquire()', f'{FILE}:{f.lineno}', construct=construct_key(f.qualname, 'no acquire'))


def _rule_lock_kind(ctx: Ctx, r: LockRoles) -> None:
    """Evaluate the constructor under reentrant = True / False: which lock class ends up in the thread-lock attribute?"""
    from ..sym import enum_paths, sym_env, subst, simplify
    init = r.init
    p = ctx.program
    g = build(init, p, inline_methods=True, inline_module_helpers=True)      # (a private factory that picks the lock class is part of the constructor)
    res = g.res
    stores = [n for n in g.nodes if n.kind == 'store_attr' and n.meta['attr'] == r.tl]
    rp = next((x for x in init.params if 'reentrant' in x), None)
    if rp is None or not stores:
        ctx.violation('C12-R3', 'thread lock kind does not depend on `reentrant`', f'{FILE}:{init.lineno}',
                      'one lock kind for both modes', construct=construct_key(init.qualname, 'lock kind fixed'))
        return
    # attributes that hold the option
    opt_attrs = {n.meta['attr'] for n in g.nodes if n.kind == 'store_attr' and isinstance(n.meta.get('value'), ast.Name)
                 and n.meta['value'].id == rp}

    # parameters of an inlined factory stand for what the constructor handed in (`_new_thread_lock(reentrant)` / `(self._reentrant)`)
    bound_params = {n.meta['name']: n.meta.get('value') for n in g.nodes if n.kind == 'store_name' and n.meta.get('inlined_param')
                    and n.meta.get('value') is not None}

    def fold(e: ast.AST, b: bool, _d: int = 0) -> Optional[bool]:
        if isinstance(e, ast.Name) and e.id == rp:
            return b
        if isinstance(e, ast.Name) and e.id in bound_params and _d < 4 and not (isinstance(bound_params[e.id], ast.Name) and bound_params[e.id].id == e.id):
            return fold(bound_params[e.id], b, _d + 1)
        if isinstance(e, ast.Attribute) and isinstance(e.value, ast.Name) and e.value.id == 'self' and e.attr in opt_attrs:
            return b
        if isinstance(e, ast.UnaryOp) and isinstance(e.op, ast.Not):
            v = fold(e.operand, b)
            return None if v is None else not v
        if isinstance(e, ast.Constant):
            return bool(e.value)
        return None

    def pick(e: ast.AST, b: bool) -> ast.AST:
        while isinstance(e, ast.IfExp):
            t = fold(e.test, b)
            if t is None:
                break
            e = e.body if t else e.orelse
        return e
    kinds: Dict[bool, Set[Optional[str]]] = {True: set(), False: set()}
    for st in stores:
        for pth in enum_paths(g, [st], sources=[g.entry]):
            for b in (True, False):
                feasible = True
                for e in pth:
                    if e.src.kind == 'branch' and e.label in ('true', 'false'):
                        t = fold(e.src.meta['test'], b)
                        if t is not None and t != (e.label == 'true'):
                            feasible = False
                            break
                if not feasible:
                    continue
                env = sym_env(g, pth)
                v = st.meta.get('value')
                sv = pick(subst(v, env), b) if v is not None else None
                if isinstance(sv, ast.Call):
                    f = pick(simplify(sv.func), b)
                    kinds[b].add(res.path(f))
                else:
                    kinds[b].add(None)
    ok = kinds[True] == {'threading.RLock'} and kinds[False] == {'threading.Lock'}
    ctx.check('C12-R3', f'{rp}=True -> {sorted(map(str, kinds[True]))}, {rp}=False -> {sorted(map(str, kinds[False]))}',
              f'{FILE}:{stores[0].line}', ok, 'RLock iff reentrant',
              'lock kind does not follow the reentrant option (a non-reentrant lock would not refuse a second acquire, '
              'or a reentrant one would deadlock)',
              construct=construct_key(init.qualname, 'lock kind', sorted(map(str, kinds[True])), sorted(map(str, kinds[False]))))


def _rule_fd_accounting(ctx: Ctx, r: LockRoles) -> None:
    p = ctx.program
    g = build(r.os_acquire, p, inline_methods=True)
    opens = [n for n in g.nodes if n.kind == 'call' and g.res.path(n.ast.func) == 'os.open']
    closes = [n for n in g.nodes if n.kind == 'call' and g.res.path(n.ast.func) == 'os.close']
    stores = [n for n in g.nodes if n.kind == 'store_attr' and n.meta['attr'] == r.fd]
    # fault model of the property: OSError at open/lock/unlock/close
    def in_model(e: Edge) -> bool:
        return e.label != 'exc' or (e.classes is not None and 'OSError' in e.classes)
    for o in opens:
        starts = [e for e in g.succ[o.id] if e.label != 'exc']
        w = must_pass(g, [], [g.exit, g.raise_exit], closes + stores, edge_ok=in_model, start_edges=starts)
        ctx.check('C12-R5', f'{r.os_acquire.name}: descriptor from {norm(o.ast)} is closed or recorded on every path',
                  g.loc(o), w is None, 'closed on lock failure, recorded on success',
                  'a failed lock attempt leaks the descriptor', witness=render(g, w),
                  construct=construct_key(r.os_acquire.qualname, 'fd leak'))
        # failing open leaves nothing: exc edge of open reaches exit without a store
        ee = [e for e in g.succ[o.id] if e.label == 'exc']
        reached = reach(g, [], start_edges=ee)
        bad = [s for s in stores if s.id in reached]
        if bad:
            # reachable in the graph is not yet reachable on a path: `fd = _NO_FD` ... `if fd is _NO_FD: return` decides it
            from ..paths import envs_at as _envs_at
            wf = find_path(g, [], bad, start_edges=ee, init_envs=_envs_at(g, o))
            if wf is None:
                bad = []
        ctx.check('C12-R5', f'{r.os_acquire.name}: a failing {norm(o.ast)} records nothing', g.loc(o), not bad,
                  'no descriptor recorded', 'descriptor recorded although open failed',
                  construct=construct_key(r.os_acquire.qualname, 'store after failed open'))
        # non-OSError escapes (outside the fault model): note only
        esc = [e for n in g.nodes for e in g.succ[n.id] if e.dst is g.raise_exit and e.classes and
               not ({'OSError'} >= set(e.classes)) and find_path(g, [], [e.src], start_edges=starts) is not None]
        if esc:
            ctx.note(f'{r.os_acquire.name}: exception classes outside the OSError fault model can escape after open '
                     f'({sorted(set().union(*[set(e.classes) for e in esc]))}) without closing the descriptor '
                     '(e.g. RuntimeError of the unsupported-platform lock) - outside the property\'s fault model')
    g2 = build(r.os_release, p)
    clears = [n for n in g2.nodes if n.kind == 'store_attr' and n.meta['attr'] == r.fd]
    closes2 = [n for n in g2.nodes if n.kind == 'call' and g2.res.path(n.ast.func) == 'os.close']
    raising = [n for n in g2.nodes if 'OSError' in n.raises and n.kind == 'call']
    w = None
    for x in raising:
        w = w or must_pass(g2, [g2.entry], [x], clears)
    w2 = must_pass(g2, [], [g2.exit, g2.raise_exit], closes2, edge_ok=in_model,
                   start_edges=[e for c in clears for e in g2.succ[c.id]])
    ctx.check('C12-R5', f'{r.os_release.name}: descriptor cleared before anything may raise, close on every path',
              f'{FILE}:{r.os_release.lineno}', w is None and w2 is None and bool(clears) and bool(closes2),
              'is_locked is false and the descriptor is closed whatever unlock/close do',
              'a failing unlock leaves the descriptor open or the object looking locked',
              witness=render(g2, w or w2), construct=construct_key(r.os_release.qualname, 'release accounting'))


# -- argument normalisation -----------------------------------------------------

SIGNS = ('None', 'neg', 'zero', 'pos')


class Sym:
    """Abstract value: ('bool', b) | ('num', sign) with sign in neg/zero/pos/default | ('none',)"""


def _eval_abs(e: ast.expr, env: Dict[str, tuple], default_attr: str):
    if isinstance(e, ast.Name):
        return env.get(e.id)
    if isinstance(e, ast.Constant):
        if e.value is None:
            return ('none',)
        if isinstance(e.value, bool):
            return ('bool', e.value)
        if isinstance(e.value, (int, float)):
            return ('num', 'neg' if e.value < 0 else 'zero' if e.value == 0 else 'pos')
    if isinstance(e, ast.UnaryOp) and isinstance(e.op, ast.USub) and isinstance(e.operand, ast.Constant):
        v = -e.operand.value
        return ('num', 'neg' if v < 0 else 'zero' if v == 0 else 'pos')
    if isinstance(e, ast.UnaryOp) and isinstance(e.op, ast.Not):
        v = _eval_abs(e.operand, env, default_attr)
        if v and v[0] == 'bool':
            return ('bool', not v[1])
        return None
    if isinstance(e, ast.Attribute) and isinstance(e.value, ast.Name) and e.value.id == 'self' and e.attr == default_attr:
        return ('num', 'default')
    if isinstance(e, ast.IfExp):
        t = _eval_abs(e.test, env, default_attr)
        if t is None or t[0] != 'bool':
            return None
        return _eval_abs(e.body if t[1] else e.orelse, env, default_attr)
    if isinstance(e, ast.Compare) and len(e.ops) == 1:
        l = _eval_abs(e.left, env, default_attr)
        rr = _eval_abs(e.comparators[0], env, default_attr)
        op = e.ops[0]
        if isinstance(op, (ast.Is, ast.IsNot)) and rr == ('none',):
            if l is None:
                return None
            return ('bool', (l == ('none',)) == isinstance(op, ast.Is))
        if l and rr and l[0] == 'num' and rr == ('num', 'zero') and l[1] != 'default':
            s = l[1]
            if isinstance(op, ast.Lt):
                return ('bool', s == 'neg')
            if isinstance(op, ast.GtE):
                return ('bool', s != 'neg')
            if isinstance(op, ast.Gt):
                return ('bool', s == 'pos')
            if isinstance(op, ast.LtE):
                return ('bool', s != 'pos')
        if l and l == ('num', 'default') and rr == ('num', 'zero') and isinstance(op, ast.Lt):
            return ('sym', 'default<0')
        return None
    if isinstance(e, ast.BoolOp):
        vals = [_eval_abs(v, env, default_attr) for v in e.values]
        if any(v is None for v in vals):
            return None
        if isinstance(e.op, ast.And):
            for v in vals[:-1]:
                if v[0] == 'bool' and not v[1]:
                    return v
                if v[0] != 'bool':
                    return None
            return vals[-1]
        for v in vals[:-1]:
            if v[0] == 'bool' and v[1]:
                return v
            if v[0] != 'bool':
                return None
        return vals[-1]
    return None


def _exec_abs(stmts: List[ast.stmt], env: Dict[str, tuple], default_attr: str, stop) -> bool:
    """Execute the leading normalisation statements abstractly; stops at `stop`
    (a statement predicate).  Returns False if something is not understood."""
    for s in stmts:
        if stop(s):
            return True
        if isinstance(s, ast.Expr):
            continue            # an expression statement binds no local
        if isinstance(s, ast.If):
            t = _eval_abs(s.test, env, default_attr)
            if t is None or t[0] != 'bool':
                if _inert(s.body) and _inert(s.orelse):
                    continue    # an argument check on something else (the poll interval, ...): it refuses or does nothing
                return False
            if not _exec_abs(s.body if t[1] else s.orelse, env, default_attr, stop):
                return False
            continue
        if isinstance(s, ast.AnnAssign):
            if s.value is None:
                continue
            s = ast.Assign(targets=[s.target], value=s.value)
        if isinstance(s, ast.Assign) and len(s.targets) == 1 and isinstance(s.targets[0], ast.Name):
            name = s.targets[0].id
            if name in env:
                v = _eval_abs(s.value, env, default_attr)
                if v is None:
                    return False
                env[name] = v
            continue
        if isinstance(s, ast.Assign):
            if any(isinstance(x, ast.Name) and x.id in env for t in s.targets for x in ast.walk(t)):
                return False        # a tracked name is re-bound in a form this domain does not follow
            continue
        if isinstance(s, ast.Pass):
            continue
        if isinstance(s, (ast.FunctionDef, ast.AsyncFunctionDef)) and s.name not in env:
            continue            # defining a nested helper binds its name and does nothing else
        return False
    return True


def _inert(stmts: List[ast.stmt]) -> bool:
    """Statements that bind nothing: expression statements, pass, raise, and ifs made of those (validation blocks)."""
    return all(isinstance(s, (ast.Expr, ast.Pass, ast.Raise)) or (isinstance(s, ast.If) and _inert(s.body) and _inert(s.orelse))
               for s in stmts)


class _NotUnderstood(Exception):
    pass


class _Refuses(Exception):
    """The folded statements raise for this sample: acquire() refuses the arguments."""


def _conc(e: ast.AST, env: Dict[str, object], default_attr: str, default_val: float):
    """Value of a side-effect free expression over booleans / numbers / None for concrete inputs (constant folding)."""
    if isinstance(e, ast.Name):
        if e.id in env:
            return env[e.id]
        raise _NotUnderstood(e.id)
    if isinstance(e, ast.Constant):
        return e.value
    if isinstance(e, ast.Attribute) and isinstance(e.value, ast.Name) and e.value.id == 'self' and e.attr == default_attr:
        return default_val
    if isinstance(e, ast.UnaryOp):
        v = _conc(e.operand, env, default_attr, default_val)
        if isinstance(e.op, ast.Not):
            return not v
        if isinstance(e.op, ast.USub):
            return -v
        raise _NotUnderstood(norm(e))
    if isinstance(e, ast.BoolOp):
        v = None
        for x in e.values:
            v = _conc(x, env, default_attr, default_val)
            if isinstance(e.op, ast.And) and not v:
                return v
            if isinstance(e.op, ast.Or) and v:
                return v
        return v
    if isinstance(e, ast.IfExp):
        return _conc(e.body if _conc(e.test, env, default_attr, default_val) else e.orelse, env, default_attr, default_val)
    if isinstance(e, ast.Compare):
        l = _conc(e.left, env, default_attr, default_val)
        for op, c in zip(e.ops, e.comparators):
            r_ = _conc(c, env, default_attr, default_val)
            try:
                ok = {ast.Is: l is r_, ast.IsNot: l is not r_, ast.Eq: l == r_, ast.NotEq: l != r_}.get(type(op))
                if ok is None:
                    ok = {ast.Lt: lambda: l < r_, ast.LtE: lambda: l <= r_, ast.Gt: lambda: l > r_, ast.GtE: lambda: l >= r_}[type(op)]()
            except (TypeError, KeyError):
                raise _NotUnderstood(norm(e))
            if not ok:
                return False
            l = r_
        return True
    if isinstance(e, ast.BinOp) and isinstance(e.op, (ast.Add, ast.Sub, ast.Mult)):
        a, b = _conc(e.left, env, default_attr, default_val), _conc(e.right, env, default_attr, default_val)
        try:
            return a + b if isinstance(e.op, ast.Add) else a - b if isinstance(e.op, ast.Sub) else a * b
        except TypeError:
            raise _NotUnderstood(norm(e))
    if isinstance(e, ast.Call) and isinstance(e.func, ast.Name) and e.func.id in ('max', 'min', 'float', 'bool', 'abs') and not e.keywords:
        args = [_conc(a, env, default_attr, default_val) for a in e.args]
        try:
            return {'max': max, 'min': min, 'float': float, 'bool': bool, 'abs': abs}[e.func.id](*args)
        except (TypeError, ValueError):
            raise _NotUnderstood(norm(e))
    if isinstance(e, ast.Tuple) and not any(isinstance(x, ast.Starred) for x in e.elts):
        return tuple(_conc(x, env, default_attr, default_val) for x in e.elts)
    if isinstance(e, ast.Subscript) and isinstance(e.slice, ast.Constant) and isinstance(e.slice.value, int):
        v = _conc(e.value, env, default_attr, default_val)
        if isinstance(v, tuple) and -len(v) <= e.slice.value < len(v):
            return v[e.slice.value]
        raise _NotUnderstood(norm(e))
    if isinstance(e, ast.Call) and isinstance(e.func, ast.Attribute) and isinstance(e.func.value, ast.Name) and e.func.value.id == 'self' \
            and e.func.attr in _CONC_HELPERS and not any(isinstance(a, ast.Starred) for a in e.args) and all(k.arg for k in e.keywords):
        # a private, pure helper method of the lock class (`self._wait_policy(blocking=..., timeout=...)`): folded too
        fn = _CONC_HELPERS[e.func.attr]
        if fn in _CONC_STACK or len(_CONC_STACK) > 3:
            raise _NotUnderstood(norm(e))
        a = fn.args
        if a.vararg or a.kwarg or a.posonlyargs:
            raise _NotUnderstood(norm(e))
        names = [x.arg for x in a.args][1:]
        if len(e.args) > len(names):
            raise _NotUnderstood(norm(e))
        loc: Dict[str, object] = {}
        for nm, d in zip(reversed([x.arg for x in a.args]), reversed(a.defaults)):
            loc[nm] = _conc(d, {}, default_attr, default_val)
        for kw, d in zip(a.kwonlyargs, a.kw_defaults):
            if d is not None:
                loc[kw.arg] = _conc(d, {}, default_attr, default_val)
        for nm, x in zip(names, e.args):
            loc[nm] = _conc(x, env, default_attr, default_val)
        for k in e.keywords:
            if k.arg not in names + [x.arg for x in a.kwonlyargs]:
                raise _NotUnderstood(norm(e))
            loc[k.arg] = _conc(k.value, env, default_attr, default_val)
        if any(nm not in loc for nm in names + [x.arg for x in a.kwonlyargs]):
            raise _NotUnderstood(norm(e))
        _CONC_STACK.append(fn)
        try:
            ret = _run_conc(fn.body, loc, default_attr, default_val)
        finally:
            _CONC_STACK.pop()
        return ret[0] if ret is not None else None
    raise _NotUnderstood(norm(e))


#: private methods of the lock class that `_conc` may fold through (set by _rule_arguments)
_CONC_HELPERS: Dict[str, ast.FunctionDef] = {}
_CONC_STACK: List[ast.FunctionDef] = []


def _run_conc(stmts: List[ast.stmt], env: Dict[str, object], default_attr: str, default_val: float):
    """Fold the body of a pure helper (if / assignments / return over booleans, numbers, None, tuples):
    (value,) when a return is reached, None when the statements fall through."""
    for s_ in stmts:
        if isinstance(s_, ast.Expr) and isinstance(s_.value, ast.Constant):
            continue
        if isinstance(s_, ast.Pass):
            continue
        if isinstance(s_, ast.Return):
            return (_conc(s_.value, env, default_attr, default_val) if s_.value is not None else None,)
        if isinstance(s_, ast.If):
            r_ = _run_conc(s_.body if _conc(s_.test, env, default_attr, default_val) else s_.orelse, env, default_attr, default_val)
            if r_ is not None:
                return r_
            continue
        if isinstance(s_, ast.AnnAssign) and s_.value is not None:
            s_ = ast.Assign(targets=[s_.target], value=s_.value)
        if isinstance(s_, ast.Assign) and len(s_.targets) == 1:
            _assign_conc(s_.targets[0], s_.value, env, default_attr, default_val, strict=True)
            continue
        raise _NotUnderstood(type(s_).__name__)
    return None


def _assign_conc(tg: ast.AST, value: ast.AST, env: Dict[str, object], default_attr: str, default_val: float, strict: bool) -> None:
    names = [x.id for x in ast.walk(tg) if isinstance(x, ast.Name)]
    try:
        v = _conc(value, env, default_attr, default_val)
        if isinstance(tg, ast.Name):
            env[tg.id] = v
            return
        if isinstance(tg, ast.Tuple) and all(isinstance(x, ast.Name) for x in tg.elts) and isinstance(v, tuple) and len(v) == len(tg.elts):
            for x, y in zip(tg.elts, v):
                env[x.id] = y
            return
        raise _NotUnderstood(norm(tg))
    except _NotUnderstood:
        if strict:
            raise
        for nm in names:
            env.pop(nm, None)     # a local that does not matter (id(self), a file name, ...); if it does, its next use is not understood


def _conc_reach(stmts: List[ast.stmt], env: Dict[str, object], default_attr: str, default_val: float, target: ast.AST, depth: int = 0):
    """Fold the statements up to the one that evaluates *target* (the thread-lock acquire call), following into a private
    helper method of the class when the call sits there; returns the environment in which *target*'s arguments are to be
    read (the caller's *env* holds the values at the level of the statements given), or None if it is not reached."""
    def holder(st: ast.stmt):
        """the call `self._helper(...)` in *st* whose helper (transitively) contains the target"""
        for x in ast.walk(st):
            if isinstance(x, ast.Call) and isinstance(x.func, ast.Attribute) and isinstance(x.func.value, ast.Name) \
                    and x.func.value.id == 'self' and x.func.attr in _CONC_HELPERS:
                fn = _CONC_HELPERS[x.func.attr]
                if any(y is target for y in ast.walk(fn)):
                    return x, fn
        return None
    found: List[Dict[str, object]] = []

    def stop(st: ast.stmt) -> bool:
        if any(x is target for x in ast.walk(st)):
            found.append(env)
            return True
        h = holder(st) if depth < 3 else None
        if h is not None:
            call, fn = h
            a = fn.args
            if a.vararg or a.kwarg or a.posonlyargs or any(isinstance(z, ast.Starred) for z in call.args) or any(k.arg is None for k in call.keywords):
                raise _NotUnderstood(norm(call))
            names = [z.arg for z in a.args][1:]
            loc: Dict[str, object] = {}
            for nm, d in zip(reversed([z.arg for z in a.args]), reversed(a.defaults)):
                loc[nm] = _conc(d, {}, default_attr, default_val)
            for kw, d in zip(a.kwonlyargs, a.kw_defaults):
                if d is not None:
                    loc[kw.arg] = _conc(d, {}, default_attr, default_val)

            def val(e_):
                try:
                    return _conc(e_, env, default_attr, default_val)
                except _NotUnderstood:
                    return _UNKNOWN
            for nm, z in zip(names, call.args):
                loc[nm] = val(z)
            for k in call.keywords:
                loc[k.arg] = val(k.value)
            loc = {k: v for k, v in loc.items() if v is not _UNKNOWN}
            inner = _conc_reach(fn.body, loc, default_attr, default_val, target, depth + 1)
            if inner is None:
                raise _NotUnderstood('thread-lock acquire not reached in ' + fn.name)
            found.append(inner)
            return True
        return False
    if _exec_conc(stmts, env, default_attr, default_val, stop) and found:
        return found[0]
    return None


_UNKNOWN = object()


def _exec_conc(stmts: List[ast.stmt], env: Dict[str, object], default_attr: str, default_val: float, stop) -> bool:
    """Fold the leading normalisation statements for concrete inputs; True once `stop` is reached."""
    for s_ in stmts:
        if stop(s_):
            return True
        if isinstance(s_, ast.Expr):
            continue
        if isinstance(s_, ast.If):
            try:
                tv = _conc(s_.test, env, default_attr, default_val)
            except _NotUnderstood:
                if _inert(s_.body) and _inert(s_.orelse):
                    continue    # an argument check on something else (the poll interval, ...): it refuses or does nothing
                raise
            if _exec_conc(s_.body if tv else s_.orelse, env, default_attr, default_val, stop):
                return True
            continue
        if isinstance(s_, ast.Raise):
            raise _Refuses(norm(s_))
        if isinstance(s_, ast.AnnAssign):
            if s_.value is None:
                continue
            s_ = ast.Assign(targets=[s_.target], value=s_.value)
        if isinstance(s_, ast.Assign) and len(s_.targets) == 1 and isinstance(s_.targets[0], (ast.Name, ast.Tuple)):
            _assign_conc(s_.targets[0], s_.value, env, default_attr, default_val, strict=False)
            continue
        if isinstance(s_, ast.Assign):
            for t_ in s_.targets:
                for x in ast.walk(t_):
                    if isinstance(x, ast.Name):
                        env.pop(x.id, None)
            continue
        if isinstance(s_, ast.Pass):
            continue
        if isinstance(s_, (ast.FunctionDef, ast.AsyncFunctionDef)):
            env.pop(s_.name, None)      # defining a nested helper binds its name and does nothing else
            continue
        raise _NotUnderstood(type(s_).__name__)
    return False


def _rule_arguments(ctx: Ctx, r: LockRoles) -> None:
    p = ctx.program
    acq = r.acquire
    # private helpers of acquire() (an extracted polling loop, an extracted clean-up) are part of it; the OS-level
    # helpers stay opaque call sites
    g = build(acq, p, inline_methods=True, no_inline=(r.os_acquire.qualname, r.os_release.qualname))
    params = acq.params
    if len(params) < 3:
        ctx.undecided('C12-R6', 'acquire signature', f'{FILE}:{acq.lineno}', 'unexpected parameters')
        return
    bp, tp = params[1], params[2]
    pollp = params[3] if len(params) > 3 else None
    # default timeout attribute: the attribute the constructor stores its `timeout` parameter in
    default_attr = None
    for n in own_nodes(r.init.node):
        if isinstance(n, (ast.Assign, ast.AnnAssign)):
            tg = n.targets[0] if isinstance(n, ast.Assign) else n.target
            if isinstance(tg, ast.Attribute) and isinstance(n.value, ast.Name) and n.value.id == 'timeout':
                default_attr = tg.attr
    # the default is stored as it was given: `self.timeout = timeout or -1` turns the valid default 0 ("try once") into -1 ("wait
    # for ever") before acquire() ever sees it
    for n in own_nodes(r.init.node):
        if isinstance(n, (ast.Assign, ast.AnnAssign)) and getattr(n, 'value', None) is not None:
            tg = n.targets[0] if isinstance(n, ast.Assign) else n.target
            if isinstance(tg, ast.Attribute) and isinstance(tg.value, ast.Name) and tg.value.id == 'self' \
                    and any(isinstance(x, ast.Name) and x.id == 'timeout' for x in ast.walk(n.value)):
                ctx.check('C12-R6', f'{r.init.qualname}: self.{tg.attr} = {norm(n.value)}', f'{FILE}:{n.lineno}',
                          isinstance(n.value, ast.Name), 'the default timeout is kept as given',
                          'the default timeout is transformed on its way into the attribute acquire() reads (a truthiness test loses 0, a clamp '
                          'loses -1): acquire() without arguments, the with-statement and acquire_ctx() wait differently from what was configured',
                          construct=construct_key(r.init.qualname, 'default timeout transformed'))
    tl_calls = [n for n in g.nodes if n.kind == 'call' and isinstance(n.ast.func, ast.Attribute)
                and n.ast.func.attr == 'acquire' and _self_attr(n.ast.func.value, r.tl)]
    os_calls = [n for n in g.nodes if n.kind == 'call' and callee_info(g, n.ast)['kind'] == 'package'
                and r.os_acquire in callee_info(g, n.ast).get('scopes', [])]
    if len(tl_calls) != 1 or not os_calls:
        ctx.undecided('C12-R6', 'acquire shape', f'{FILE}:{acq.lineno}',
                      f'{len(tl_calls)} thread-lock acquire call(s), {len(os_calls)} OS acquire call(s)')
        return
    tlc = tl_calls[0].ast
    stmt_of = lambda s: any(x is tlc for x in ast.walk(s))
    _CONC_HELPERS.clear()
    cls_sc = acq.parent
    while cls_sc is not None and cls_sc.kind != 'class':
        cls_sc = cls_sc.parent
    if cls_sc is not None:
        for m_ in cls_sc.children:
            if m_.kind == 'function' and m_.name.startswith('_') and not m_.name.startswith('__') and not m_.is_async \
                    and not m_.is_generator and not m_.decorators and m_ not in (r.os_acquire, r.os_release):
                _CONC_HELPERS[m_.name] = m_.node
    expected = {
        (False, 'None'): (('bool', False), 'nowait', ('bool', False)),
        (True, 'None'): (('bool', True), ('num', 'default'), ('sym', 'default<0')),
        (False, 'neg'): (('bool', False), 'nowait', ('bool', False)),
        (True, 'neg'): (('bool', True), ('num', 'neg'), ('bool', True)),
        (False, 'zero'): (('bool', True), ('num', 'zero'), ('bool', False)),
        (True, 'zero'): (('bool', True), ('num', 'zero'), ('bool', False)),
        (False, 'pos'): (('bool', True), ('num', 'pos'), ('bool', False)),
        (True, 'pos'): (('bool', True), ('num', 'pos'), ('bool', False)),
    }
    abs_undecided: List[str] = []
    for (b, tsign), (eb, et, eos) in expected.items():
        env = {bp: ('bool', b), tp: ('none',) if tsign == 'None' else ('num', tsign)}
        ok = _exec_abs(acq.node.body, env, default_attr or 'timeout', stmt_of)
        inst = f'(blocking={b}, timeout={tsign})'
        if not ok:
            abs_undecided.append(inst)
            continue
        a_b = _eval_abs(tlc.args[0], env, default_attr) if tlc.args else None
        a_t = _eval_abs(tlc.args[1], env, default_attr) if len(tlc.args) > 1 else None
        for k in tlc.keywords:
            if k.arg == 'blocking':
                a_b = _eval_abs(k.value, env, default_attr)
            if k.arg == 'timeout':
                a_t = _eval_abs(k.value, env, default_attr)
        oc = os_calls[0].ast
        blk = oc.args[0] if oc.args else next((k.value for k in oc.keywords if k.arg == 'block'), None)
        if blk is not None:
            blk = resolve(g, os_calls[0], blk, keep=(bp, tp))
        a_os = _eval_abs(blk, env, default_attr) if blk is not None else ('bool', True)
        good = a_b == eb and a_os == eos and (
            (et == 'nowait' and a_t is not None and a_t[0] == 'num' and a_t[1] == 'neg') or a_t == et)
        ctx.check('C12-R6', f'{inst} -> thread lock ({a_b}, {a_t}), OS lock blocking={a_os}', f'{FILE}:{tl_calls[0].line}',
                  good, 'matches the threading.Lock argument table',
                  f'expected thread lock ({eb}, {et}), OS blocking {eos}',
                  construct=construct_key(acq.qualname, 'normalisation', b, tsign, a_b, a_t, a_os))
    # the same table, exactly: the normalisation is folded for concrete (blocking, timeout, default timeout) samples and
    # compared with the threading.Lock contract
    bad_samples = []
    not_understood = None
    n_samples = 0
    oc0 = os_calls[0].ast
    blk0 = oc0.args[0] if oc0.args else next((k.value for k in oc0.keywords if k.arg == 'block'), None)
    if blk0 is not None:
        blk0 = resolve(g, os_calls[0], blk0, keep=(bp, tp))
    for b in (True, False):
        for tv_ in (None, -1, -0.5, 0, 0.5, 1, 10):
            for dv in (-1, 0, 2.5):
                env_c: Dict[str, object] = {bp: b, tp: tv_}
                try:
                    env_tl = _conc_reach(acq.node.body, env_c, default_attr or 'timeout', dv, tlc)
                    if env_tl is None:
                        raise _NotUnderstood('thread-lock acquire not reached')
                    got_b = _conc(tlc.args[0], env_tl, default_attr, dv) if tlc.args else True
                    got_t = _conc(tlc.args[1], env_tl, default_attr, dv) if len(tlc.args) > 1 else -1
                    for k in tlc.keywords:
                        if k.arg == 'blocking':
                            got_b = _conc(k.value, env_tl, default_attr, dv)
                        if k.arg == 'timeout':
                            got_t = _conc(k.value, env_tl, default_attr, dv)
                    got_os = _conc(blk0, env_c, default_attr, dv) if blk0 is not None else True
                except _NotUnderstood as ex_:
                    not_understood = str(ex_)
                    break
                except _Refuses as ex_:
                    # the property quantifies over timeouts None / -1 / 0 / positive: refusing one of those is a
                    # behaviour threading.Lock does not have; other negative values are outside it
                    if tv_ is None or tv_ == -1 or tv_ >= 0:
                        n_samples += 1
                        bad_samples.append(f'(blocking={b}, timeout={tv_}, default={dv}) -> acquire() refuses the arguments: {ex_}')
                    continue
                n_samples += 1
                if tv_ is None:
                    want_b, want_t = b, (dv if b else -1)
                else:
                    want_b = b if tv_ < 0 else True
                    want_t = tv_ if want_b else -1
                want_os = bool(want_b) and want_t < 0
                t_ok = (got_t == want_t) or (not want_b and isinstance(got_t, (int, float)) and got_t < 0)
                if bool(got_b) != bool(want_b) or not t_ok or bool(got_os) != want_os:
                    bad_samples.append(f'(blocking={b}, timeout={tv_}, default={dv}) -> thread lock ({got_b}, {got_t}), OS blocking={got_os}; '
                                       f'expected ({want_b}, {want_t}), {want_os}')
    if not_understood is not None:
        ctx.note(f'C12-R6 concrete table skipped: {not_understood}')
        for inst in abs_undecided:
            ctx.undecided('C12-R6', inst, f'{FILE}:{acq.lineno}', 'normalisation statements not understood')
    else:
        if abs_undecided:
            ctx.note(f'sign-domain rows not decided ({len(abs_undecided)}); decided by the concrete sample table instead')
        ctx.check('C12-R6', f'normalisation folded for {n_samples} concrete (blocking, timeout, default) samples', f'{FILE}:{tl_calls[0].line}',
                  not bad_samples, 'matches the threading.Lock contract on every sample', '; '.join(bad_samples[:3]),
                  construct=construct_key(acq.qualname, 'normalisation samples', len(bad_samples)))
    # R7: from the OS acquire call, time.sleep is reachable only through the true edge of a `blocking` test
    sleeps = [n for n in g.nodes if n.kind == 'call' and g.res.path(n.ast.func) == 'time.sleep']
    def is_blocking_branch(n: Node) -> bool:
        if n.kind != 'branch' or not isinstance(n.meta['test'], ast.Name):
            return False
        if n.meta['test'].id == bp:
            return True
        # a copy of the normalised flag taken after the normalisation (`wait = _Wait(blocking, ...)` ... `wait.blocking`)
        rv = resolve(g, n, n.meta['test'], keep=(bp,))
        if isinstance(rv, ast.Name) and rv.id == bp:
            copies = [x for x in g.nodes if x.kind == 'store_name' and x.meta['name'] == n.meta['test'].id]
            later = [x for x in g.nodes if x.kind == 'store_name' and x.meta['name'] == bp and not x.meta.get('inlined_param')
                     and any(find_path(g, [c_], [x]) is not None for c_ in copies)]
            return len(copies) == 1 and not later
        return False
    for oc in os_calls:
        starts = [e for e in g.succ[oc.id] if e.label != 'exc']
        w = find_path(g, [], sleeps + os_calls, start_edges=starts,
                      edge_ok=lambda e: not (is_blocking_branch(e.src) and e.label == 'true')) if sleeps else None
        ctx.check('C12-R7', 'a non-blocking attempt never sleeps or retries', g.loc(oc), w is None,
                  'sleep / retry only on the true edge of the blocking test',
                  'a non-blocking acquire can reach time.sleep or a second OS attempt', witness=render(g, w),
                  construct=construct_key(acq.qualname, 'non-blocking sleeps'))
    ok = (len(tlc.args) >= 2 and isinstance(tlc.args[0], ast.Name) and tlc.args[0].id == bp
          and isinstance(tlc.args[1], ast.Name) and tlc.args[1].id == tp)
    ctx.check('C12-R7', f'thread lock receives the normalised arguments: {norm(tlc)}', f'{FILE}:{tl_calls[0].line}', ok,
              'stage 1 is governed by (blocking, timeout)', 'stage 1 ignores blocking/timeout',
              construct=construct_key(acq.qualname, tlc))
    # R8
    clock = [n for n in g.nodes if n.kind == 'store_name' and isinstance(n.meta.get('value'), ast.Call)
             and g.res.path(n.meta['value'].func) == 'time.time']
    def _is_tl_test(n: Node) -> bool:
        if n.meta['test'] is tlc:
            return True
        t_ = resolve(g, n, n.meta['test'], depth=2)
        return isinstance(t_, ast.Call) and (getattr(t_, 'lineno', None), getattr(t_, 'col_offset', None)) == (tlc.lineno, tlc.col_offset)
    tl_branch = [n for n in g.nodes if n.kind == 'branch' and _is_tl_test(n)]
    for c in clock:
        w = must_pass(g, [g.entry], [c], tl_branch)
        ctx.check('C12-R8', f'stage-2 clock {norm(c.meta["stmt"])} starts after stage 1', g.loc(c),
                  w is None and bool(tl_branch), 'clock taken after the thread lock was obtained',
                  'time spent waiting for the thread lock is charged to the OS-lock stage (or vice versa)',
                  witness=render(g, w), construct=construct_key(acq.qualname, 'clock before stage 1'))
    if not clock:
        ctx.violation('C12-R8', 'no stage-2 clock', f'{FILE}:{acq.lineno}', 'timed wait has no deadline',
                      construct=construct_key(acq.qualname, 'no clock'))
    clockvars = {c.meta['name'] for c in clock}

    def classify_T(n: Node):
        """Branches that compare the timeout parameter: returns (kind, ok_edge, expired_edge) or None.
        kind A : `0 <= timeout` (no deadline when false)      A- : `timeout < 0` (no deadline when true)
        kind B : `timeout < elapsed` (not yet expired when false; expired when true)
        kind AB: `0 <= timeout < elapsed`"""
        if n.kind != 'branch':
            return None
        t = resolve(g, n, n.meta['test'], keep=(tp,) + tuple(clockvars))
        if not isinstance(t, ast.Compare):
            return None
        names = {x.id for x in ast.walk(t) if isinstance(x, ast.Name)}
        if tp not in names:
            return None
        has_clock = bool(names & clockvars) and any(isinstance(x, ast.Call) and g.res.path(x.func) == 'time.time' for x in ast.walk(t))
        def is0(e):
            return isinstance(e, ast.Constant) and e.value == 0 and not isinstance(e.value, bool)
        def isT(e):
            return isinstance(e, ast.Name) and e.id == tp
        ops, cmps = t.ops, [t.left] + list(t.comparators)
        if len(ops) == 2 and is0(cmps[0]) and isinstance(ops[0], ast.LtE) and isT(cmps[1]) and isinstance(ops[1], (ast.Lt, ast.LtE)) and has_clock:
            return 'AB', 'false', 'true'
        if len(ops) == 1 and not has_clock:
            l, r_, op = cmps[0], cmps[1], ops[0]
            if (is0(l) and isT(r_) and isinstance(op, ast.LtE)) or (isT(l) and is0(r_) and isinstance(op, ast.GtE)):
                return 'A', 'false', None
            if (isT(l) and is0(r_) and isinstance(op, ast.Lt)) or (is0(l) and isT(r_) and isinstance(op, ast.Gt)):
                return 'A-', 'true', None
            return None
        if len(ops) == 1 and has_clock:
            l, r_, op = cmps[0], cmps[1], ops[0]
            if isT(l) and isinstance(op, (ast.Lt, ast.LtE)):
                return 'B', 'false', 'true'
            if isT(r_) and isinstance(op, (ast.Gt, ast.GtE)):
                return 'B', 'false', 'true'
            if isT(l) and isinstance(op, (ast.Gt, ast.GtE)):
                return 'B', 'true', 'false'
            if isT(r_) and isinstance(op, (ast.Lt, ast.LtE)):
                return 'B', 'true', 'false'
        return 'unknown', None, None
    tb = [(n, classify_T(n)) for n in g.nodes]
    tb = [(n, c) for n, c in tb if c is not None and n.loops]
    unknown = [n for n, c in tb if c[0] == 'unknown']
    for n in unknown:
        ctx.undecided('C12-R8', f'timeout comparison {norm(n.meta["test"])}', g.loc(n), 'unrecognised deadline comparison')
    ok_edges = {(n.id, c[1]) for n, c in tb if c[1]}
    expired = [(n, c[2]) for n, c in tb if c[2]]
    for s_ in sleeps:
        w = find_path(g, os_calls, [s_], edge_ok=lambda e: (e.src.id, e.label) not in ok_edges)
        ctx.check('C12-R8', f'every cycle to {norm(s_.ast)} passes the deadline test', g.loc(s_),
                  w is None and bool(expired), 'deadline tested (or no deadline: timeout < 0) between every attempt and the sleep',
                  'a timed acquire can sleep again without checking its deadline', witness=render(g, w),
                  construct=construct_key(acq.qualname, 'sleep without deadline test'))
        a = s_.ast.args[0] if s_.ast.args else None
        ctx.check('C12-R8', f'sleep argument {norm(a) if a is not None else None}', g.loc(s_),
                  isinstance(a, ast.Name) and a.id == pollp, 'sleeps for poll_interval',
                  'sleep duration is not the poll interval', construct=construct_key(acq.qualname, s_.ast))
    for n, lab in expired:
        te = [e for e in g.succ[n.id] if e.label == lab]
        # on an A- / A guarded path the deadline applies only when timeout >= 0; the expiry edge itself must leave the loop
        w = find_path(g, [], sleeps, start_edges=te)
        ctx.check('C12-R8', f'deadline test {norm(n.meta["test"])}: expiry leads out of the loop', g.loc(n), w is None,
                  'expired deadline does not sleep again', 'expired deadline still sleeps', witness=render(g, w),
                  construct=construct_key(acq.qualname, 'deadline ignored'))
    if not expired and not unknown:
        ctx.violation('C12-R8', 'no deadline test in the poll loop', f'{FILE}:{acq.lineno}', 'a timed acquire never times out',
                      construct=construct_key(acq.qualname, 'no deadline test'))


# ---------------------------------------------------------------------------
# C13
# ---------------------------------------------------------------------------

FORBIDDEN = {
    'os.unlink', 'os.remove', 'os.rename', 'os.replace', 'os.link', 'os.symlink', 'os.mkdir', 'os.makedirs',
    'os.rmdir', 'os.removedirs', 'os.write', 'os.getpid', 'os.getppid', 'os.kill', 'atexit.register', 'signal.signal',
    'shutil.rmtree', 'shutil.move', 'os.truncate', 'os.ftruncate', 'builtins.open', 'os.fdopen', 'os.utime',
    'os.path.exists', 'os.path.isfile', 'os.stat', 'os.access', 'os.lstat', 'os.path.getmtime', 'tempfile.mkstemp',
}
#: the held descriptor must stay the close-on-exec descriptor os.open() returned (PEP 446): a duplicate
#: or an inheritable descriptor survives the holder's death inside a child process and keeps the flock
FORBIDDEN |= {'os.dup', 'os.dup2', 'os.set_inheritable', 'fcntl.fcntl', 'os.fork', 'os.forkpty', 'os.openpty',
              'os.spawnl', 'os.spawnv', 'os.posix_spawn', 'subprocess.Popen', 'subprocess.run', 'os.system',
              # a fork hook runs lock code in the child on descriptors that share the parent's open file description:
              # unlocking there drops the parent's lock (the kernel forgets an owner that is still alive)
              'os.register_at_fork', 'multiprocessing.util.register_after_fork'}
FORBIDDEN_METHODS = {'unlink', 'rename', 'replace', 'touch', 'write_text', 'write_bytes', 'exists', 'is_file',
                     'rmdir', 'mkdir', 'symlink_to', 'hardlink_to'}

CONTROL_SNIPPET = '''
import os, atexit
from pathlib import Path
def _release(self):
    os.close(os.dup(self.fd))
    os.remove(self._lock_file)
    Path(self._lock_file).unlink()
    atexit.register(self.release)
    if os.path.exists(self._lock_file):
        open(self._lock_file, 'w').write(str(os.getpid()))
'''


def soft_lock_hits(tree: ast.AST, aliases: Dict[str, str]) -> List[Tuple[int, str]]:
    hits = []
    for n in ast.walk(tree):
        if isinstance(n, ast.Call):
            d = dotted(n.func)
            if d:
                head, _, rest = d.partition('.')
                full = (aliases.get(head, head) + ('.' + rest if rest else ''))
                if head == 'open' and not rest:
                    full = 'builtins.open'
                if full in FORBIDDEN:
                    hits.append((n.lineno, full))
                    continue
            if isinstance(n.func, ast.Attribute) and n.func.attr in FORBIDDEN_METHODS:
                hits.append((n.lineno, '.' + n.func.attr))
    return hits


def c13(ctx: Ctx) -> None:
    r = LockRoles(ctx)
    from .common import rule_unbound
    rule_unbound(ctx, 'C13-U1', [s_ for uu in r.units for s_ in uu.functions() if s_.enclosing_class() is not None and s_.enclosing_function() is None], 'the FileLock classes')
    p = ctx.program
    u = r.unit
    ctx.trusted += ['the kernel releases flock()/locking() locks when the owning process dies',
                    'C02-R3/R4/R5 (checked under C02) for exclusion among survivors']
    ctx.rule('C13-R1', 'no soft-lock / clean-up machinery in filelock.py: no unlink/rename/pid-file/atexit/signal/exists calls, no duplication or inheritance of the held descriptor', 1)
    ctx.rule('C13-R2', 'the open mode creates the file and never uses O_EXCL; existence never decides the outcome', 1)
    ctx.rule('C13-R3', 'exclusion is established only by kernel primitives released at process death (flock / msvcrt.locking)', 2)
    ctx.rule('C13-R4', 'the lock file is never deleted', 1)
    # positive control
    ctl = soft_lock_hits(ast.parse(CONTROL_SNIPPET), {'os': 'os', 'atexit': 'atexit'})
    if len(ctl) < 7:
        raise AnalysisError(f'C13 positive control matched only {len(ctl)} of 7 forbidden calls')
    ctx.extra['positive_control_hits'] = len(ctl)
    units = list(p.units.values()) if ctx.thorough else list(r.units)
    for unit in units:
        hits = soft_lock_hits(unit.tree, unit.aliases)
        if unit not in r.units:
            hits = [h for h in hits if h[1] not in ('builtins.open',)]
        calls = sum(1 for n in ast.walk(unit.tree) if isinstance(n, ast.Call))
        ctx.check('C13-R1', f'{unit.rel}: {calls} call sites scanned, forbidden: {[h[1] for h in hits]}',
                  f'{unit.rel}:{hits[0][0] if hits else 1}', not hits,
                  'ownership lives only in kernel objects that die with the process',
                  'persistent state / clean-up code appears: a crash between its steps can leave the lock stuck or let two in',
                  construct=construct_key(unit.rel, 'forbidden calls', sorted({h[1] for h in hits})), examined=calls)
        dels = [h for h in hits if h[1] in ('os.unlink', 'os.remove', '.unlink', 'shutil.rmtree', 'os.rename', 'os.replace', '.rename', '.replace')]
        if unit in r.units:
            ctx.check('C13-R4', f'{unit.rel}: deletions/renames of the lock file: {[h[1] for h in dels]}',
                      f'{unit.rel}:{dels[0][0] if dels else 1}', not dels, 'never deleted (no unlink race)',
                      'deleting the lock file lets a waiter lock the unlinked inode while a newcomer locks a fresh file',
                      construct=construct_key(unit.rel, 'deletes lock file', sorted({h[1] for h in dels})), examined=calls)
    # R2: open mode
    mode_bits = None
    where = f'{FILE}:{r.os_acquire.lineno}'
    ga = build(r.os_acquire, p, inline_methods=True)
    for n in ga.nodes:
        if n.kind == 'call' and ga.res.path(n.ast.func) == 'os.open' and len(n.ast.args) >= 2:
            m = n.ast.args[1]
            where = ga.loc(n)
            expr = m
            if isinstance(m, ast.Attribute) and isinstance(m.value, ast.Name) and m.value.id == 'self':
                # class attribute
                for s in r.cls.node.body:
                    tg = s.targets[0] if isinstance(s, ast.Assign) else getattr(s, 'target', None)
                    if isinstance(tg, ast.Name) and tg.id == m.attr and getattr(s, 'value', None) is not None:
                        expr = s.value
                for sub in r.subs:
                    for s in sub.node.body:
                        tg = s.targets[0] if isinstance(s, ast.Assign) else getattr(s, 'target', None)
                        if isinstance(tg, ast.Name) and tg.id == m.attr:
                            ctx.undecided('C13-R2', f'{sub.qualname} overrides {m.attr}', f'{FILE}:{s.lineno}', 'override not analysed')
            mode_bits = fold_bits(expr, {}, Resolver(u.module_scope))
            if mode_bits is None:
                ctx.undecided('C13-R2', f'open mode {norm(expr)}', where, 'not a foldable or-expression of os.O_* flags')
            else:
                ok = 'os.O_CREAT' in mode_bits and 'os.O_EXCL' not in mode_bits and \
                     ('os.O_RDWR' in mode_bits or 'os.O_WRONLY' in mode_bits or 'os.O_RDONLY' in mode_bits or True)
                ctx.check('C13-R2', f'open mode = {sorted(mode_bits)}', where, ok,
                          'O_CREAT without O_EXCL: a left-over file never blocks anybody',
                          'O_EXCL (or missing O_CREAT) makes file existence the lock: a crashed holder leaves it stuck',
                          construct=construct_key(r.os_acquire.qualname, 'open mode', sorted(mode_bits)))
    if mode_bits is None and not any(o.rule == 'C13-R2' for o in ctx.obs):
        ctx.undecided('C13-R2', 'open mode', where, 'os.open with a mode argument not found')
    # R3: primitives
    for sub in r.subs:
        lk = find_method(p, sub, r.oslock_name)
        if lk is None or lk in r.abstract:
            continue
        verdict, why = classify_oslock(p, lk, find_method(p, sub, r.osunlock_name) if r.osunlock_name else None)
        inst = f'{sub.qualname}.{r.oslock_name}: {why}'
        if verdict in ('good', 'refuses'):
            ctx.holds('C13-R3', inst, f'{FILE}:{lk.lineno}', 'kernel lock tied to the open file description')
        elif verdict == 'bad':
            ctx.violation('C13-R3', inst, f'{FILE}:{lk.lineno}', why, construct=construct_key(lk.qualname, 'primitive', why))
        else:
            ctx.undecided('C13-R3', inst, f'{FILE}:{lk.lineno}', why)
    r.publish(ctx)
