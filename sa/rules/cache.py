"""threadsafe_async_cache: C01, C05, C06, C14 (DESIGN 4.A)."""
from __future__ import annotations

import ast
from typing import Dict, List, Optional, Set, Tuple

from ..cfg import CFG, Edge, Node, build, callee_info
from ..core import Ctx, construct_key, norm
from ..load import AnalysisError, Resolver, Scope, dotted, own_nodes, parent
from ..paths import (envs_at, find_path, held_locks, must_pass, no_suspension, reach, render)
from ..sym import (call_name, calls_in, enum_paths, find_calls, is_opaque,
                   method_calls, simplify, subst, sym_env)
from ..dataflow import resolve, unalias, leaves

FILE = 'aiuti/asyncio.py'


class CacheRoles:
    """Discover the roles of the cache by construction, not by name."""

    def __init__(self, ctx: Ctx):
        p = ctx.program
        self.impl = p.func(FILE, 'threadsafe_async_cache')
        impl = self.impl
        self.outer = impl
        handed: Dict[str, ast.expr] = {}      # parameter of the closure holder -> what the public decorator passes for it
        if not any(c.kind == 'function' and c.is_async for c in impl.children):
            # the closure (tables, lock, wrapper coroutine) is built by a private factory the decorator returns the result
            # of - possibly in another module of the package: the factory is the implementation, the decorator selects
            # the mapping and hands it over
            for n in own_nodes(impl.node):
                if isinstance(n, ast.Return) and isinstance(n.value, ast.Call) and isinstance(n.value.func, ast.Name):
                    path = Resolver(impl).path(n.value.func) or ''
                    hname = n.value.func.id
                    cands = [sc for u_ in p.units.values() for sc in u_.functions()
                             if sc.name in (hname, path.split('.')[-1]) and sc.enclosing_function() is None and sc.enclosing_class() is None
                             and any(c.kind == 'function' and c.is_async for c in sc.children)]
                    if len(cands) == 1 and not n.value.keywords and not any(isinstance(a, ast.Starred) for a in n.value.args):
                        h = cands[0]
                        hp = list(h.params)
                        if len(n.value.args) <= len(hp):
                            handed = dict(zip(hp, n.value.args))
                            self.impl = impl = h
                            break
        # the wrapper: nested async def that the implementation returns
        nested = [c for c in impl.children if c.kind == 'function' and c.is_async]
        returned = None
        for n in own_nodes(impl.node):
            if isinstance(n, ast.Return) and n.value is not None:
                for nm in ast.walk(n.value):
                    if isinstance(nm, ast.Name):
                        for c in nested:
                            if c.name == nm.id:
                                returned = c
        if returned is None:
            if len(nested) != 1:
                raise AnalysisError('cannot find the wrapper coroutine of threadsafe_async_cache')
            returned = nested[0]
        self.wrapper: Scope = returned
        self.cfg: CFG = build(self.wrapper, p, inline_module_helpers=True)
        g = self.cfg
        ires = Resolver(impl)
        # closure variables of the implementation function and how they are built
        assigns: Dict[str, List[ast.expr]] = {}
        for n in own_nodes(impl.node):
            if isinstance(n, (ast.Assign, ast.AnnAssign)):
                tgts = n.targets if isinstance(n, ast.Assign) else [n.target]
                for t in tgts:
                    if isinstance(t, ast.Name) and n.value is not None:
                        assigns.setdefault(t.id, []).append(n.value)
        self.impl_assigns = assigns
        params = list(self.outer.params)
        self.func_param = params[0]
        kwonly = [a.arg for a in self.outer.node.args.kwonlyargs]
        self.cache_param = kwonly[0] if kwonly else None
        self.lock: Optional[str] = None
        self.cache: Optional[str] = None
        self.cache_expr: Optional[ast.expr] = None
        self.wrapped: Optional[str] = None
        if handed:
            # roles of the factory's parameters, from what the decorator passes
            oassigns: Dict[str, List[ast.expr]] = {}
            for n in own_nodes(self.outer.node):
                if isinstance(n, (ast.Assign, ast.AnnAssign)) and getattr(n, 'value', None) is not None:
                    for t in (n.targets if isinstance(n, ast.Assign) else [n.target]):
                        if isinstance(t, ast.Name):
                            oassigns.setdefault(t.id, []).append(n.value)
            for hp_, arg in handed.items():
                vals_ = [arg] + (oassigns.get(arg.id, []) if isinstance(arg, ast.Name) else [])
                for v in vals_:
                    names_ = {x.id for x in ast.walk(v) if isinstance(x, ast.Name)}
                    if self.cache_param in names_ and self.cache is None:
                        self.cache = hp_
                        self.cache_expr = v if not (isinstance(v, ast.Name) and v.id == self.cache_param) else None
                    if (isinstance(v, ast.Name) and v.id == self.func_param) and self.wrapped is None and self.cache != hp_:
                        self.wrapped = hp_
        self.lock_candidates: List[str] = []
        for name, vals in assigns.items():
            for v in vals:
                if isinstance(v, ast.Call) and ires.path(v.func) in ('threading.Lock', 'threading.RLock'):
                    self.lock = name
                    self.lock_candidates.append(name)
                names = {x.id for x in ast.walk(v) if isinstance(x, ast.Name)}
                if self.cache_param in names and self.cache is None:
                    self.cache, self.cache_expr = name, v
                if isinstance(v, ast.Name) and v.id == self.func_param:
                    self.wrapped = name
        if self.wrapped is None:
            self.wrapped = self.func_param
        if self.cache is None:
            # the parameter itself is used
            self.cache = self.cache_param
        # TABLE: closure dict that the wrapper subscript-stores with a tuple (or record) that
        # holds an asyncio.Event() value - whatever local names the parts travel through
        self.table: Optional[str] = None
        self.event_var: Optional[str] = None

        def is_event_call(x: ast.AST) -> bool:
            return isinstance(x, ast.Call) and g.res.path(x.func) == 'asyncio.Event'
        self._is_event_call = is_event_call
        for n in g.nodes:
            if n.kind == 'store_sub':
                base = unalias(g, n, n.ast.value)  # type: ignore[union-attr]
                v = n.meta.get('value')
                if isinstance(base, ast.Name) and self._is_closure(base.id) and v is not None:
                    for lf in leaves(g, n, v):
                        if isinstance(lf, ast.Tuple) and any(is_event_call(y) for el in lf.elts for y in leaves(g, n, el)):
                            self.table = base.id
        # EVENT: the local through which this activation reaches the marker's event: receiver of .set()
        # / .wait() whose possible values are an asyncio.Event() or element 1 of a table entry
        # (a name `event`, or an access path such as `in_flight[1]` when the marker record is kept whole)
        cands: Dict[str, int] = {}
        for n in g.nodes:
            if n.kind == 'call' and isinstance(n.ast.func, ast.Attribute) and n.ast.func.attr in ('set', 'wait'):
                rcv = unalias(g, n, n.ast.func.value)
                simple = isinstance(rcv, ast.Name) or (isinstance(rcv, ast.Subscript) and isinstance(rcv.value, ast.Name)
                                                       and isinstance(rcv.slice, ast.Constant))
                if simple and self.is_event_value(n, rcv):
                    cands[norm(rcv)] = cands.get(norm(rcv), 0) + (2 if n.ast.func.attr == 'set' else 1)
        if cands:
            self.event_var = max(sorted(cands), key=lambda k: cands[k])
        self.event_keep = tuple(x.id for x in ast.walk(ast.parse(self.event_var, mode='eval')) if isinstance(x, ast.Name)) if self.event_var else ()
        missing = [k for k in ('cache', 'wrapped') if getattr(self, k) is None]
        if missing:
            raise AnalysisError(f'cache roles not found: {missing}')
        # the creation lock is a *protective construct*: its absence is reported by the rules
        # (C01-R1 ...), it is not a vanished subject
        self.has_lock = self.lock is not None
        if self.lock is None:
            self.lock = '<no threading lock>'
        self.has_table = self.table is not None
        # events
        T, C = self.table, self.cache
        self.PROBE = [n for n in g.nodes if n.kind == 'load_sub' and self._base(n) == C]
        self.PROBE_GET = [n for n in g.nodes if n.kind == 'call' and self._recv_meth(n) in ((C, 'get'),)]
        # membership tests `key in TABLE` / `key not in TABLE` are look-ups as well
        self.MEMBER = [n for n in g.nodes if n.kind == 'branch' and self._member_test(n) is not None]
        self.LOOKUP = [n for n in g.nodes if (n.kind == 'load_sub' and self._base(n) == T)
                       or (n.kind == 'call' and self._recv_meth(n) == (T, 'get') and not self._is_ownership_read(n))] + self.MEMBER
        self.MARK = [n for n in g.nodes if n.kind == 'store_sub' and self._base(n) == T]
        self.PUBLISH = [n for n in g.nodes if n.kind == 'store_sub' and self._base(n) == C]
        self.UNMARK = [n for n in g.nodes if (n.kind == 'del_sub' and self._base(n) == T)
                       or (n.kind == 'call' and self._recv_meth(n) == (T, 'pop'))]
        self.TABLE_TOUCH = [n for n in g.nodes if
                            (n.kind in ('load_sub', 'store_sub', 'del_sub') and self._base(n) == T)
                            or (n.kind == 'call' and (self._recv_meth(n) or (None,))[0] == T)] + self.MEMBER
        self.CALL = [n for n in g.nodes if n.kind == 'await' and isinstance(n.ast.value, ast.Call)  # type: ignore
                     and isinstance(n.ast.value.func, ast.Name) and n.ast.value.func.id == self.wrapped]  # type: ignore
        self.CALL_ANY = [n for n in g.nodes if n.kind == 'call' and isinstance(n.ast.func, ast.Name)  # type: ignore
                         and n.ast.func.id == self.wrapped]  # type: ignore
        self.WAKE = [n for n in g.nodes if n.kind == 'call' and self.event_var is not None
                     and self._recv_meth(n) == (self.event_var, 'set')]
        # key variable: the index used at the probes
        keys = set()
        for n in self.PROBE + self.LOOKUP + self.MARK + self.PUBLISH:
            if n.kind == 'branch':
                keys.add(norm(n.meta['test'].left))
                continue
            sl = n.ast.slice if isinstance(n.ast, ast.Subscript) else (n.ast.args[0] if n.ast.args else None)
            keys.add(norm(sl))
        self.key_exprs = keys
        # loop head: outermost loop enclosing the CALL
        self.HEAD: Optional[Node] = None
        # the retry loop: the outermost loop around the decision (look-up / mark); the computation itself may sit after it
        anchor = next((n for n in self.MARK + self.LOOKUP + self.CALL if n.loops), None)
        if anchor is not None:
            outer = anchor.loops[0]
            for n in g.nodes:
                if n.kind in ('loop_head', 'for_iter') and n.ast is outer:
                    self.HEAD = n
        if len(getattr(self, 'lock_candidates', [])) > 1 and self.MARK:
            # several locks in the closure (one may guard statistics): the creation lock is the one held where the marker is stored
            held_c = held_locks(g, self.lock_candidates)
            at_mark = [c for c in self.lock_candidates if any(c in held_c[m.id] for m in self.MARK)]
            if at_mark:
                self.lock = at_mark[0]
        self.held = held_locks(g, [self.lock])

    def _member_test(self, n: Node) -> Optional[bool]:
        """True for a branch testing `k in TABLE`, False for `k not in TABLE`, None otherwise."""
        t = n.meta.get('test')
        if isinstance(t, ast.Compare) and len(t.ops) == 1 and isinstance(t.ops[0], (ast.In, ast.NotIn)):
            b = unalias(self.cfg, n, t.comparators[0])
            if isinstance(b, ast.Name) and b.id == self.table and self._is_closure(b.id):
                return isinstance(t.ops[0], ast.In)
        return None

    def _is_closure(self, name: str) -> bool:
        bs = self.wrapper.binding_scope(name)
        return bs is self.impl

    def _base(self, n: Node) -> Optional[str]:
        b = unalias(self.cfg, n, n.ast.value)  # type: ignore[union-attr]
        if isinstance(b, ast.Name) and self._is_closure(b.id):
            return b.id
        return None

    def _recv_meth(self, n: Node) -> Optional[Tuple[str, str]]:
        f = n.ast.func  # type: ignore[union-attr]
        if isinstance(f, ast.Attribute):
            v = unalias(self.cfg, n, f.value)
            if isinstance(v, ast.Name):
                return (v.id, f.attr)
            if isinstance(v, ast.Subscript) and isinstance(v.value, ast.Name) and isinstance(v.slice, ast.Constant):
                return (norm(v), f.attr)
        return None

    def is_event_value(self, n: Node, e: ast.AST) -> bool:
        """Can *e* at *n* denote the event of an in-flight marker (a fresh asyncio.Event() or element 1 of
        a table entry / marker tuple)?"""
        g = self.cfg
        for lf in leaves(g, n, e):
            if self._is_event_call(lf):
                return True
            if isinstance(lf, ast.Subscript) and isinstance(lf.slice, ast.Constant) and lf.slice.value == 1:
                if self.table is not None and any(isinstance(x, ast.Name) and x.id == self.table for x in ast.walk(lf.value)):
                    return True
        return False

    def _is_ownership_read(self, n: Node) -> bool:
        """A `TABLE.get(key)` whose value only feeds an ownership comparison (the guarded
        removal in the clean-up) is not the decide-who-computes LOOKUP."""
        g = self.cfg
        par = parent(n.ast)
        # directly inside a comparison
        x = n.ast
        while par is not None and isinstance(par, (ast.Subscript, ast.Attribute)):
            x, par = par, parent(par)
        if isinstance(par, ast.Compare):
            return True
        # assigned to a name that is used only in comparisons / subscripts on the way to a removal
        if isinstance(par, ast.Assign) and len(par.targets) == 1 and isinstance(par.targets[0], ast.Name):
            return any(part in ('finally', 'handler') for _, part in n.trys)
        return False

    def locked(self, n: Node) -> bool:
        return self.lock in self.held[n.id]

    # ownership tests: branch nodes comparing a read of TABLE with this
    # invocation's own event / marker
    def event_pos(self) -> int:
        """index of the Event in the marker tuple stored at MARK"""
        g = self.cfg
        for m in self.MARK:
            v = m.meta.get('value')
            for lf in (leaves(g, m, v) if v is not None else []):
                if isinstance(lf, ast.Tuple):
                    for i, el in enumerate(lf.elts):
                        if any(self._is_event_call(y) for y in leaves(g, m, el)):
                            return i
        return 1

    def ownership_branches(self) -> List[Tuple[Node, str]]:
        out = []
        self.bad_ownership = []
        g = self.cfg
        for n in g.nodes:
            if n.kind != 'branch' or n.meta.get('in_assert'):
                continue
            t = resolve(g, n, unalias(g, n, n.meta['test']), keep=self.event_keep)
            if not (isinstance(t, ast.Compare) and len(t.ops) == 1):
                continue
            sides = [t.left, t.comparators[0]]
            reads_table = [any(isinstance(x, ast.Name) and x.id == self.table for x in ast.walk(s)) for s in sides]
            if isinstance(t.ops[0], (ast.Is, ast.IsNot)) and any(isinstance(s_, (ast.Tuple, ast.List, ast.Dict, ast.Set)) for s_ in sides) \
                    and any(reads_table):
                # identity with a display built for the comparison: never the same object
                self.bad_ownership.append((n, 'compares the table entry by identity with a freshly built tuple, which is never the same object'))
                continue
            has_event = [any(isinstance(x, (ast.Name, ast.Subscript)) and norm(x) == self.event_var for x in ast.walk(s)) for s in sides]
            if (reads_table[0] and has_event[1] and not reads_table[1]) or \
               (reads_table[1] and has_event[0] and not reads_table[0]):
                tside = sides[0] if reads_table[0] else sides[1]
                # the entry's *event* element is what identifies the owner: (loop, event)[1]
                if isinstance(tside, ast.Subscript) and isinstance(tside.slice, ast.Constant) and isinstance(tside.slice.value, int) \
                        and tside.slice.value != self.event_pos():
                    self.bad_ownership.append((n, f'compares element {tside.slice.value} of the table entry with the event (the event is element {self.event_pos()})'))
                    continue
                op = t.ops[0]
                if isinstance(op, (ast.Is, ast.Eq)):
                    out.append((n, 'true'))
                elif isinstance(op, (ast.IsNot, ast.NotEq)):
                    out.append((n, 'false'))
        return out


def presence_branches(r: CacheRoles) -> List[Tuple[Node, str]]:
    """Branches testing a read of TABLE for None: (node, label of the edge meaning 'no marker')."""
    g = r.cfg
    out = []
    for n in g.nodes:
        if n.kind != 'branch' or n.meta.get('in_assert'):
            continue
        t = resolve(g, n, n.meta['test'])
        reads = any(isinstance(x, ast.Name) and x.id == r.table for x in ast.walk(t))
        if not reads:
            continue
        if isinstance(t, ast.Compare) and len(t.ops) == 1 and isinstance(t.comparators[0], ast.Constant) \
                and t.comparators[0].value is None and isinstance(t.ops[0], (ast.Is, ast.IsNot)):
            out.append((n, 'true' if isinstance(t.ops[0], ast.Is) else 'false'))
        elif isinstance(t, ast.Call) and isinstance(t.func, ast.Attribute) and t.func.attr == 'get':
            out.append((n, 'false'))
        elif isinstance(t, ast.Compare) and len(t.ops) == 1 and isinstance(t.ops[0], (ast.In, ast.NotIn)) \
                and isinstance(t.comparators[0], ast.Name) and t.comparators[0].id == r.table:
            out.append((n, 'false' if isinstance(t.ops[0], ast.In) else 'true'))
    return out


def _loc(g: CFG, n: Node) -> str:
    return g.loc(n)


def _roles(ctx: Ctx) -> CacheRoles:
    r = ctx.extra.get('_roles')
    if r is None:
        r = CacheRoles(ctx)
        ctx.extra['_roles'] = r
    return r


def _publish_roles(ctx: Ctx, r: CacheRoles) -> None:
    ctx.extra.pop('_roles', None)
    ctx.extra['roles'] = {
        'wrapper': r.wrapper.qualname, 'CACHE': r.cache, 'TABLE': r.table, 'LOCK': r.lock,
        'WRAPPED': r.wrapped, 'EVENT': r.event_var,
        'events': {k: [r.cfg.loc(n) for n in getattr(r, k)] for k in
                   ('PROBE', 'LOOKUP', 'MARK', 'PUBLISH', 'UNMARK', 'CALL', 'WAKE')},
        'HEAD': r.cfg.loc(r.HEAD) if r.HEAD else None,
        'cfg': r.cfg.stats(),
    }


def _require_table(ctx: Ctx, r: CacheRoles, rule: str) -> bool:
    """The in-flight table is the protective construct of the cache: if it is
    absent, the rules that need it report a violation, not a vanished anchor."""
    if not r.has_lock:
        ctx.violation(rule, 'creation lock', f'{FILE}:{r.impl.lineno}',
                      'no threading.Lock()/RLock() guards the in-flight table: two threads can both decide to compute',
                      construct=construct_key(r.impl.qualname, 'no threading lock'))
        return False
    if r.has_table and r.MARK and r.event_var:
        return True
    ctx.violation(rule, 'in-flight table', f'{FILE}:{r.wrapper.lineno}',
                  'the wrapper keeps no in-flight marker table (no closure dict stored with a tuple '
                  'holding an asyncio.Event())', construct=construct_key(r.wrapper.qualname, 'no in-flight table'))
    return False


# ---------------------------------------------------------------------------
# shared obligations
# ---------------------------------------------------------------------------

def lookup_vars(r: CacheRoles) -> Set[str]:
    """Names bound - directly, by unpacking, or through one more assignment - from the
    LOOKUP (the looked-up marker, its loop and its event)."""
    g = r.cfg
    out: Set[str] = set()
    for n in r.LOOKUP:
        st = parent(n.ast)
        while st is not None and not isinstance(st, ast.stmt):
            st = parent(st)
        if isinstance(st, (ast.Assign, ast.AnnAssign)):
            tgts = st.targets if isinstance(st, ast.Assign) else [st.target]
            for t in tgts:
                for x in ast.walk(t):
                    if isinstance(x, ast.Name):
                        out.add(x.id)
    # derived: `loop, event = marker` / `event = marker[1]`
    changed = True
    while changed:
        changed = False
        for n in g.nodes:
            if n.kind == 'store_name' and n.meta['name'] not in out:
                st = n.meta.get('stmt')
                v = st.value if isinstance(st, (ast.Assign, ast.AnnAssign, ast.NamedExpr)) else None
                if v is None and n.meta.get('inlined_param'):
                    v = n.meta.get('value')      # parameter of an inlined helper bound to a look-up variable
                if v is not None and not isinstance(v, ast.Call) and any(
                        isinstance(x, ast.Name) and x.id in out for x in ast.walk(v)) and \
                        all(isinstance(x, (ast.Name, ast.Subscript, ast.Constant, ast.Load, ast.Tuple, ast.Index, ast.Attribute))
                            for x in ast.walk(v)):
                    out.add(n.meta['name'])
                    changed = True
    return out


def _root_name(e: ast.AST) -> Optional[str]:
    while isinstance(e, (ast.Subscript, ast.Attribute)):
        e = e.value
    return e.id if isinstance(e, ast.Name) else None


def _atom(r: CacheRoles, n: Node, lv: Set[str]) -> Optional[str]:
    """'closed' / 'running' if branch node *n* tests is_closed()/is_running() of the
    looked-up marker's loop; 'missing' if it tests the looked-up marker for None."""
    if n.kind != 'branch':
        return None
    return _atom_expr(n.meta['test'], lv)


def _atom_expr(t: ast.AST, lv: Set[str]) -> Optional[str]:
    if isinstance(t, ast.Call) and isinstance(t.func, ast.Attribute) and _root_name(t.func.value) in lv and not t.args:
        if t.func.attr == 'is_closed':
            return 'closed'
        if t.func.attr == 'is_running':
            return 'running'
    if isinstance(t, ast.Compare) and len(t.ops) == 1 and isinstance(t.left, ast.Name) and t.left.id in lv \
            and isinstance(t.comparators[0], ast.Constant) and t.comparators[0].value is None:
        return 'missing' if isinstance(t.ops[0], ast.Is) else '!missing' if isinstance(t.ops[0], ast.IsNot) else None
    if isinstance(t, ast.Name) and t.id in lv:
        return '!missing'
    return None


def wait_awaits(r: CacheRoles) -> List[Node]:
    g = r.cfg
    return [n for n in g.nodes if n.kind == 'await' and n not in r.CALL
            and not any(part == 'handler' for _, part in n.trys)]


def takeover_paths(r: CacheRoles):
    """Paths from the LOOKUP of the in-flight table to MARK (compute / take-over)
    and to the first await of the wait stage (decide to wait), with the facts
    established on the way: found / closed / running of the looked-up marker."""
    g = r.cfg
    lv = lookup_vars(r)
    starts: List[Tuple[Edge, Optional[bool]]] = []
    for n in r.LOOKUP:
        for e in g.succ[n.id]:
            if n.kind == 'load_sub':
                starts.append((e, e.label != 'exc'))
            elif n.kind == 'branch':
                if e.label in ('true', 'false'):
                    starts.append((e, (e.label == 'true') == r._member_test(n)))
            elif e.label != 'exc':
                starts.append((e, None))
    stops = ([r.HEAD] if r.HEAD else [])
    waits = wait_awaits(r)

    from ..paths import walk_env, decisions, none_decisions

    def put(f: Dict[str, bool], a: str, v: bool) -> None:
        if a == 'missing':
            f['found'] = not v
        elif a == '!missing':
            f['found'] = v
        else:
            f[a] = v

    def facts(path: List[Edge], found: Optional[bool]) -> Dict[str, bool]:
        f: Dict[str, bool] = {}
        if found is not None:
            f['found'] = found
        # a look-up variable that is re-assigned something else on the way (`marker = None` to
        # invalidate a dead loop's entry) no longer speaks about the looked-up marker
        detached: Set[str] = set()
        for e in path:
            n = e.src
            if n.kind == 'store_name' and n.meta['name'] in lv and e.label != 'exc':
                v = n.meta.get('value')
                mentions = v is not None and any(
                    (isinstance(x, ast.Name) and (x.id == r.table or (x.id in lv and x.id not in detached))) for x in ast.walk(v))
                if v is not None and not mentions:
                    detached.add(n.meta['name'])
                else:
                    detached.discard(n.meta['name'])
            a = _atom(r, n, lv - detached)
            if a and e.label in ('true', 'false'):
                put(f, a, e.label == 'true')
        # boolean temporaries (`dead = loop.is_closed()` ... `if dead:`): what the path decided about them
        env_end = walk_env(g, path)
        for tok, val in decisions(env_end).items():
            if tok[0] != 'v':
                continue
            node = g.nodes[tok[1]]
            v = node.meta.get('value')
            if isinstance(v, ast.UnaryOp) and isinstance(v.op, ast.Not):
                v = v.operand
            a = _atom_expr(v, lv) if v is not None else None
            if a:
                put(f, a, val)
        for tok, val in none_decisions(env_end).items():
            if tok[0] != 'v':
                continue
            v = g.nodes[tok[1]].meta.get('value')
            if v is not None and _is_table_read(r, v):
                f['found'] = not val
        return f
    tm, tw = [], []
    for e, found in starts:
        for p in enum_paths(g, r.MARK, start_edges=[e], stop_at=stops + waits):
            tm.append((p, facts(p, found)))
        for p in enum_paths(g, waits, start_edges=[e], stop_at=stops + r.MARK + r.CALL):
            tw.append((p, facts(p, found)))
    return tm, tw


def ownership_guarded(r: CacheRoles, u: Node) -> bool:
    """Is UNMARK node *u* control-dependent on an ownership test evaluated
    under the same continuous hold of the lock?"""
    g = r.cfg
    for b, pol in r.ownership_branches():
        # u unreachable from entry when the ownership edge is removed
        p = find_path(g, [g.entry], [u], edge_ok=lambda e, b=b, pol=pol: not (e.src is b and e.label == pol))
        if p is None and r.locked(b):
            # no lock release between the test and the removal
            between = find_path(g, [b], [u], edge_ok=lambda e: True)
            if between is not None and all(r.locked(e.dst) for e in between):
                return True
    return False


def rule_owner_only_unmark(ctx: Ctx, r: CacheRoles, rule: str) -> None:
    g = r.cfg
    tm, _ = takeover_paths(r)
    tm = [(p, f) for p, f in tm if f.get('found') is not False]
    if not tm:
        ctx.holds(rule, 'no take-over path exists: every marker is removed only by the invocation that stored it',
                  _loc(g, r.MARK[0]), examined=len(r.UNMARK))
        return
    own = r.ownership_branches()
    for n_, why_ in getattr(r, 'bad_ownership', []):
        ctx.violation(rule, f'ownership test {norm(n_.meta["test"])}', _loc(g, n_),
                      f'{why_}: the test never matches, the marker is never removed and every later caller waits on a set event for ever',
                      construct=construct_key(r.wrapper.qualname, 'ownership test on the wrong element'))
    # the read feeding the ownership test must not be able to fail: it runs in the clean-up of every computation
    for b_, _pol in own:
        t_ = resolve(g, b_, unalias(g, b_, b_.meta['test']), keep=r.event_keep)
        for x in ast.walk(t_):
            if isinstance(x, ast.Subscript) and isinstance(x.value, ast.Call) and isinstance(x.value.func, ast.Attribute) \
                    and x.value.func.attr == 'get' and isinstance(x.value.func.value, ast.Name) and x.value.func.value.id == r.table:
                c_ = x.value
                dflt = c_.args[1] if len(c_.args) > 1 else None
                total = isinstance(dflt, ast.Tuple) and isinstance(x.slice, ast.Constant) and isinstance(x.slice.value, int) \
                    and -len(dflt.elts) <= x.slice.value < len(dflt.elts)
                # guarded by a presence test on the same read?
                guarded = any(pb is not b_ and find_path(g, [g.entry], [b_], edge_ok=lambda e, pb=pb, lab=lab: not (e.src is pb and e.label != lab)) is None
                              for pb, lab in presence_branches(r)) if not total else True
                ctx.check(rule, f'ownership read {norm(x)} cannot fail when the marker is gone', _loc(g, b_), total or guarded,
                          'a missing entry yields a default that is subscriptable (or is tested for first)',
                          'when another loop took the key over and already finished, the entry is gone: subscripting the None of '
                          '.get() raises TypeError out of the clean-up - a bookkeeping error replaces the caller\'s own outcome',
                          construct=construct_key(r.wrapper.qualname, 'ownership read may fail'))
    for u in r.UNMARK:
        ok = ownership_guarded(r, u)
        w = find_path(g, [g.entry], [u])
        ctx.check(rule, f'UNMARK {norm(u.ast)} is control-dependent on an ownership test',
                  _loc(g, u), ok,
                  detail_ok='removal governed by a comparison of the current table entry with this invocation\'s own event',
                  detail_bad=('a take-over path exists (a dead loop\'s marker may be overwritten), yet this removal is '
                              'unconditional: the dead loop\'s cleanup deletes the live computer\'s marker'),
                  witness=render(g, w), construct=construct_key(r.wrapper.qualname, u.ast), examined=len(own) + 1)


# ---------------------------------------------------------------------------
# C01
# ---------------------------------------------------------------------------

def c01(ctx: Ctx) -> None:
    r = _roles(ctx)
    from .common import rule_unbound
    rule_unbound(ctx, 'C01-U1', [r.impl], 'threadsafe_async_cache')
    g = r.cfg
    ctx.trusted += ['CPython dict get/set atomicity', 'threading.Lock semantics',
                    'the 10-line hand argument of DESIGN 4.A (premises are what is checked here)',
                    'the supplied mapping retains entries']
    ctx.rule('C01-R1', 'every access to the in-flight table happens with the creation lock held', 1)
    ctx.rule('C01-R2', 'every path lock-enter -> MARK passes a locked cache PROBE (double-check)', 1)
    ctx.rule('C01-R3', 'every path lock-enter -> MARK passes a LOOKUP of the table', 1)
    ctx.rule('C01-R4', 'take-over of an existing marker only when its loop is closed or not running', 1)
    ctx.rule('C01-R5', 'the wrapped function is awaited only after MARK by this invocation; no other call site', 1)
    ctx.rule('C01-R6', 'every path from normal completion of CALL to UNMARK passes PUBLISH', 1)
    ctx.rule('C01-R7', 'if a take-over path exists, every UNMARK is governed by an ownership test', 1)
    ctx.rule('C01-R8', 'every return yields a cache PROBE value or the value bound from CALL', 1)
    if not _require_table(ctx, r, 'C01-R1'):
        _publish_roles(ctx, r)
        return
    # the table is a plain dict: a mapping class of the package with behaviour of its own (an index that prunes the entries of
    # closed loops on insert, a size cap) removes markers behind the back of the protocol the rules below check
    from .common import mapping_with_policy
    for v_ in r.impl_assigns.get(r.table, []):
        fresh_ = (isinstance(v_, ast.Dict) and not v_.keys) or (isinstance(v_, ast.Call) and isinstance(v_.func, ast.Name) and not v_.args and not v_.keywords)
        ctx.check('C01-R1', f'in-flight table {r.table} = {norm(v_)[:70]} is created by this decoration', f'{FILE}:{getattr(v_, "lineno", r.impl.lineno)}', fresh_,
                  'an empty mapping built in the decorator body: one table per decorated function',
                  'the table is obtained from somewhere else (a module-level registry, a parameter, a shared object): decorations that end up with the same '
                  'table - same-named methods wrapped per instance, closures - take each other\'s markers for their own computations and wait for '
                  'events nobody will set (each has its own cache and its own lock)',
                  construct=construct_key(r.impl.qualname, 'in-flight table shared'))
        mp_ = mapping_with_policy(ctx.program, v_)
        ctx.check('C01-R1', f'in-flight table {r.table} = {norm(v_)}', f'{FILE}:{getattr(v_, "lineno", r.impl.lineno)}', mp_ is None,
                  'a plain dict: markers come and go only where the wrapper says so',
                  (f'{mp_[0]}({", ".join(mp_[1])}) overrides {mp_[2]}: the table adds or removes markers on its own - a live marker can vanish '
                   '(the next caller computes the key a second time) or a dead one survive') if mp_ else '',
                  construct=construct_key(r.impl.qualname, 'in-flight table with a policy of its own'))
    # R1
    inlined_helpers = {n.meta['name'] for n in g.nodes if n.kind == 'inline_enter'}
    for scope in [r.impl] + _descendants(r.impl):
        if scope is not r.wrapper and scope.qualname in inlined_helpers:
            # a helper called inline from the wrapper: its table accesses are checked, with the
            # caller's lock context, as part of the wrapper's own graph - provided it is never
            # used in any other way (passed around, called from elsewhere)
            other_uses = [x for sc in [r.impl] + _descendants(r.impl) for x in own_nodes(sc.node)
                          if isinstance(x, ast.Name) and x.id == scope.name and isinstance(x.ctx, ast.Load)
                          and not (isinstance(parent(x), ast.Call) and parent(x).func is x and
                                   any(nn.kind == 'inline_enter' and nn.ast is parent(x) for nn in g.nodes))]
            if not other_uses:
                continue
        sg = g if scope is r.wrapper else build(scope, ctx.program)
        if scope is r.wrapper:
            touches = r.TABLE_TOUCH
            held = r.held
        else:
            def _readonly_peek(n_: Node) -> bool:
                """`len(T)`, `T.keys()` ... in a function other than the wrapper: a read for introspection, part of no decision"""
                c_ = n_.ast
                if n_.kind != 'call':
                    return False
                if isinstance(c_.func, ast.Name) and c_.func.id in ('len', 'bool', 'list', 'dict', 'tuple', 'sorted', 'set', 'frozenset') \
                        and len(c_.args) == 1 and isinstance(c_.args[0], ast.Name) and c_.args[0].id == r.table:
                    return True
                return isinstance(c_.func, ast.Attribute) and isinstance(c_.func.value, ast.Name) and c_.func.value.id == r.table \
                    and c_.func.attr in ('keys', 'values', 'items', 'copy', '__len__', '__contains__')
            touches = [n for n in sg.nodes if n.kind in ('load_sub', 'store_sub', 'del_sub', 'call')
                       and any(isinstance(x, ast.Name) and x.id == r.table and scope.binding_scope(x.id) is r.impl
                               for x in ast.walk(n.ast)) and scope is not r.impl and not _readonly_peek(n)]
            held = held_locks(sg, [r.lock])
        for n in touches:
            ctx.check('C01-R1', f'{n.kind} {norm(n.ast)}', sg.loc(n), r.lock in held[n.id],
                      detail_ok=f'{r.lock} held',
                      detail_bad=f'in-flight table touched without {r.lock}',
                      construct=construct_key(scope.qualname, n.ast))
    # any other use of the table name (escape) in the wrapper
    for x in own_nodes(r.wrapper.node):
        if isinstance(x, ast.Name) and x.id == r.table and r._is_closure(x.id):
            p = parent(x)
            okp = isinstance(p, ast.Subscript) and p.value is x or (
                isinstance(p, ast.Attribute) and p.value is x) or (
                isinstance(p, ast.Compare) and len(p.ops) == 1 and isinstance(p.ops[0], (ast.In, ast.NotIn)) and p.comparators[0] is x
                and any(m.meta.get('test') is p for m in r.MEMBER))
            if not okp and isinstance(p, ast.Call) and any(a_ is x for a_ in p.args) and any(
                    n_.kind == 'inline_enter' and n_.ast is p for n_ in g.nodes):
                okp = True      # handed to a private helper that is read in place: its accesses are in the graph
            if not okp:
                ctx.undecided('C01-R1', f'table escapes: {norm(p)}', f'{FILE}:{x.lineno}', 'unrecognised use of the table')
    # R2 / R3
    enters = [n for n in g.nodes if n.kind == 'with_enter' and g.res.path(n.ast) == r.lock]
    acquires = [n for n in g.nodes if n.kind == 'call' and isinstance(n.ast.func, ast.Attribute)
                and n.ast.func.attr == 'acquire' and g.res.path(n.ast.func.value) == r.lock]
    region_ok = lambda e: r.locked(e.dst)
    for m in r.MARK:
        if not r.locked(m):
            continue  # reported by R1
        lp = [p for p in r.PROBE if r.locked(p)]
        starts = [e for n in enters + acquires for e in g.succ[n.id] if e.label != 'exc']
        # a miss edge of the probe is what proves "nothing cached": the path
        # must leave the probe through its KeyError edge
        w = must_pass(g, [], [m], lp, edge_ok=region_ok, start_edges=starts)
        ctx.check('C01-R2', f'MARK {norm(m.ast)}', _loc(g, m), w is None and bool(lp),
                  detail_ok='locked re-probe of the cache on every path to MARK',
                  detail_bad='a path from taking the lock to MARK does not re-probe the cache under the lock',
                  witness=render(g, w), construct=construct_key(r.wrapper.qualname, 'MARK without locked PROBE'),
                  examined=len(lp) + 1)
        ll = [p for p in r.LOOKUP if r.locked(p)]
        w = must_pass(g, [], [m], ll, edge_ok=region_ok, start_edges=starts)
        ctx.check('C01-R3', f'MARK {norm(m.ast)}', _loc(g, m), w is None and bool(ll),
                  detail_ok='table LOOKUP on every path to MARK',
                  detail_bad='a path marks the key without looking for an existing marker',
                  witness=render(g, w), construct=construct_key(r.wrapper.qualname, 'MARK without LOOKUP'),
                  examined=len(ll) + 1)
    # R4
    tm, tw = takeover_paths(r)
    if not [1 for _, f in tm if f.get('found') is not False]:
        ctx.holds('C01-R4', 'no take-over path (existing markers are never overwritten)', _loc(g, r.MARK[0]))
    seen4 = set()
    for p, f in tm:
        if f.get('found') is False:
            continue   # no marker existed: a plain first computation
        k4 = tuple(sorted(f.items()))
        if k4 in seen4:
            continue
        seen4.add(k4)
        ok = f.get('closed') is True or f.get('running') is False
        ctx.check('C01-R4', f'take-over path with facts {f}', _loc(g, p[-1].dst), ok,
                  detail_ok='path establishes closed or not running for the looked-up loop',
                  detail_bad='an existing marker is overwritten although its loop was not shown closed or not running',
                  witness=render(g, p), construct=construct_key(r.wrapper.qualname, 'takeover', sorted(f.items())))
    # R5
    if not r.CALL:
        ctx.violation('C01-R5', 'no awaited call of the wrapped function', f'{FILE}:{r.wrapper.lineno}',
                      construct=construct_key(r.wrapper.qualname, 'no CALL'))
    for c in r.CALL:
        src = [r.HEAD] if r.HEAD is not None else [g.entry]
        w = must_pass(g, src, [c], r.MARK)
        ctx.check('C01-R5', f'CALL {norm(c.ast)}', _loc(g, c), w is None,
                  detail_ok='reachable only after this invocation stored its marker',
                  detail_bad='the wrapped function can be invoked by a caller that did not mark the key',
                  witness=render(g, w), construct=construct_key(r.wrapper.qualname, c.ast, 'without MARK'))
    other_calls = [n for n in r.CALL_ANY if not any(c.ast.value is n.ast for c in r.CALL)]
    for n in other_calls:
        ctx.violation('C01-R5', f'un-awaited/extra call {norm(n.ast)}', _loc(g, n),
                      'second call site of the wrapped function', construct=construct_key(r.wrapper.qualname, n.ast, 'extra'))
    inlined_here = {n.meta['name'] for n in g.nodes if n.kind == 'inline_enter'}
    for scope in [r.impl] + _descendants(r.impl):
        if scope is r.wrapper or scope.qualname in inlined_here:
            continue
        for x in own_nodes(scope.node):
            if isinstance(x, ast.Call) and isinstance(x.func, ast.Name) and x.func.id == r.wrapped \
                    and scope.binding_scope(x.func.id) is r.impl:
                ctx.violation('C01-R5', f'call of the wrapped function outside the wrapper: {norm(x)}',
                              f'{FILE}:{x.lineno}', construct=construct_key(scope.qualname, x))
    # R6
    for c in r.CALL:
        starts = [e for e in g.succ[c.id] if e.label != 'exc']
        w = must_pass(g, [], r.UNMARK + [b for b, _ in r.ownership_branches()], r.PUBLISH, start_edges=starts)
        ctx.check('C01-R6', f'after {norm(c.ast)}', _loc(g, c), w is None and bool(r.PUBLISH),
                  detail_ok='PUBLISH precedes UNMARK on the success path',
                  detail_bad='the marker can be removed before the result is visible in the cache',
                  witness=render(g, w), construct=construct_key(r.wrapper.qualname, 'UNMARK before PUBLISH'))
    # R9: what the marker says
    ctx.rule('C01-R9', 'the marker stored at MARK names the running loop of this activation and an Event created for this computation', 1)
    for m in r.MARK:
        v = m.meta.get('value')
        pth = find_path(g, [g.entry], [m]) or []
        from ..sym import expand_inlined
        env = sym_env(g, pth)
        sv = simplify(subst(expand_inlined(g, v), env)) if v is not None else None
        ok = False
        why = 'marker is not a (loop, event) tuple'
        if isinstance(sv, ast.Tuple) and len(sv.elts) == 2:
            lp, ev = sv.elts
            lp_ok = isinstance(lp, ast.Call) and g.res.path(lp.func) == 'asyncio.get_running_loop'
            if isinstance(lp, ast.Name):
                defs = [n for n in g.nodes if n.kind == 'store_name' and n.meta['name'] == lp.id]
                lp_ok = bool(defs) and all(isinstance(d.meta.get('value'), ast.Call) and
                                          g.res.path(d.meta['value'].func) == 'asyncio.get_running_loop' for d in defs)
            ev_ok = isinstance(ev, ast.Call) and g.res.path(ev.func) == 'asyncio.Event'
            # the Event must be created after the decision (not reused from the looked-up marker)
            ev_stores = [n for n in g.nodes if n.kind == 'call' and g.res.path(n.ast.func) == 'asyncio.Event']
            fresh = any(find_path(g, [n], [m], edge_ok=lambda e: e.label != 'exc') is not None and r.locked(n) for n in ev_stores)
            ok = lp_ok and ev_ok and fresh
            why = f'loop element ok={lp_ok}, event element ok={ev_ok}, created under the lock on the way to MARK={fresh}'
        ctx.check('C01-R9', f'MARK value {norm(sv) if sv is not None else None}', _loc(g, m), ok,
                  'waiters are pointed at the loop that really computes and at a fresh event',
                  f'the marker points waiters at the wrong loop or a stale event ({why}): they bridge to a dead loop / are never woken',
                  construct=construct_key(r.wrapper.qualname, 'marker content', sv))
    # R7
    rule_owner_only_unmark(ctx, r, 'C01-R7')
    # R8
    result_names = set()
    for n in g.nodes:
        if n.kind == 'store_name' and isinstance(n.meta.get('value'), ast.Await) and any(
                c.ast is n.meta['value'] for c in r.CALL):
            result_names.add(n.meta['name'])
    for n in g.nodes:
        if n.kind == 'implicit_return' and find_path(g, [g.entry], [n]) is not None:
            w_ = find_path(g, [g.entry], [n])
            ctx.violation('C01-R8', 'the wrapper can fall off its end (returns None)', _loc(g, n),
                          'a caller receives None instead of the cached / computed value', witness=render(g, w_),
                          construct=construct_key(r.wrapper.qualname, 'implicit return'))
    for n in g.nodes:
        if n.kind != 'return':
            continue
        v = n.ast.value  # type: ignore[union-attr]
        ok = False
        if isinstance(v, ast.Subscript) and isinstance(v.value, ast.Name) and v.value.id == r.cache:
            ok = True
        elif isinstance(v, ast.Name) and v.id in result_names:
            stores = [s for s in g.nodes if s.kind == 'store_name' and s.meta['name'] == v.id]
            ok = all(isinstance(s.meta.get('value'), ast.Await) and any(c.ast is s.meta['value'] for c in r.CALL)
                     for s in stores)
        elif isinstance(v, ast.Await) and any(c.ast is v for c in r.CALL):
            ok = True
        elif v is not None:
            # whatever the value travels through (locals, a result record of an inlined helper): on every
            # path reaching this return it must denote a cache probe or the awaited call
            def good(lf: ast.AST) -> bool:
                if isinstance(lf, ast.Subscript) and isinstance(lf.value, ast.Name) and lf.value.id == r.cache:
                    return True
                if isinstance(lf, ast.Call) and isinstance(lf.func, ast.Attribute) and lf.func.attr == 'get' \
                        and isinstance(lf.func.value, ast.Name) and lf.func.value.id == r.cache and len(lf.args) == 1:
                    return False   # a defaulted probe may return the default
                return isinstance(lf, ast.Await) and any(c.ast is lf for c in r.CALL)
            from ..paths import tracking
            with tracking(g, [x.id for x in ast.walk(v) if isinstance(x, ast.Name) and g.scope.binding_scope(x.id) is g.scope]):
                envs = envs_at(g, n)
                ok = bool(envs) and all(
                    (lambda ls: bool(ls) and all(good(x) for x in ls))(leaves(g, n, v, env=env)) for env in envs)
        ctx.check('C01-R8', f'return {norm(v) if v is not None else "None"}', _loc(g, n), ok,
                  detail_ok='returns a cache probe or the computed value',
                  detail_bad='a caller can receive something that is neither the cached nor the computed value',
                  construct=construct_key(r.wrapper.qualname, n.ast))
    _publish_roles(ctx, r)


def _descendants(scope: Scope) -> List[Scope]:
    out = []
    for c in scope.children:
        out.append(c)
        out.extend(_descendants(c))
    return out


# ---------------------------------------------------------------------------
# C05
# ---------------------------------------------------------------------------

def _wait_analysis(ctx: Ctx, r: CacheRoles):
    """Symbolic value of what is awaited at the shielded wait, per path through
    the wait stage."""
    g = r.cfg
    # wait-stage awaits: awaits that are not CALL
    # (awaits inside an except handler are clean-up waits for an already
    # cancelled local task, not the wait for the computation)
    waits = wait_awaits(r)
    lv = lookup_vars(r)
    results = []
    # the wait stage starts where the marker decision left the locked region
    head = r.HEAD or g.entry
    for w in waits:
        paths = enum_paths(g, [w], sources=[head], stop_at=r.CALL)
        for p in paths:
            env = sym_env(g, p, through_unpack=True)
            expr = simplify(subst(w.ast.value, env))  # type: ignore[union-attr]
            results.append((w, p, expr))
    return results


def _keyword(r: CacheRoles, c: ast.Call, name: str) -> Optional[ast.expr]:
    """Keyword argument *name* of call *c*, also when it travels in a `**options` dict display that
    is a local or a closure variable of the decorator."""
    from ..match import closure_value
    for k in c.keywords:
        if k.arg == name:
            return k.value
        if k.arg is None:
            v = k.value
            if isinstance(v, ast.Name):
                v = closure_value(r.wrapper, v.id) or v
            if isinstance(v, ast.Dict):
                for kk, vv in zip(v.keys, v.values):
                    if isinstance(kk, ast.Constant) and kk.value == name:
                        return vv
            if isinstance(v, ast.Call) and isinstance(v.func, ast.Name) and v.func.id == 'dict':
                for kk in v.keywords:
                    if kk.arg == name:
                        return kk.value
    return None


def _is_table_read(r: CacheRoles, x: ast.AST) -> bool:
    if isinstance(x, ast.Subscript) and isinstance(x.value, ast.Name) and x.value.id == r.table:
        return True
    return isinstance(x, ast.Call) and isinstance(x.func, ast.Attribute) and x.func.attr == 'get' \
        and isinstance(x.func.value, ast.Name) and x.func.value.id == r.table


def _marker_part(r: CacheRoles, x: ast.AST, lv: Set[str]):
    """0 / 1 if *x* is the loop / event element of a looked-up marker, 'any' if it is a name bound
    from the look-up (legacy unpacked form), None otherwise."""
    if isinstance(x, ast.Subscript) and isinstance(x.slice, ast.Constant) and isinstance(x.slice.value, int):
        b = x.value
        if _is_table_read(r, b) or (isinstance(b, ast.Name) and b.id in lv):
            return x.slice.value
    if isinstance(x, ast.Name) and x.id in lv:
        return 'any'
    return None


def _rule_lock_given_back(ctx: Ctx, r, rule: str) -> None:
    """A creation lock taken by hand (`lock.acquire()` - directly or in a @contextmanager helper read in place) is given
    back on every way out of the region, whatever raises inside it: decided on a graph whose raise model lets every call,
    subscript and suspension raise.  (`with lock:` does this by construction.)"""
    g = r.cfg
    is_lock_call = lambda cfg, n, names=('acquire', 'release'): (
        n.kind == 'call' and isinstance(n.ast.func, ast.Attribute) and n.ast.func.attr in names and cfg.res.path(n.ast.func.value) == r.lock)
    acquires = [n for n in g.nodes if is_lock_call(g, n, ('acquire',))]
    if not acquires:
        ctx.holds(rule, f'the creation lock {r.lock} is only taken by with-statements', f'{FILE}:{r.wrapper.lineno}')
        return
    from .common import pessimistic_model
    pm = pessimistic_model(ctx.program, ('lock', r.lock), is_lock_call)
    g2 = build(r.wrapper, ctx.program, pm, inline_module_helpers=True)
    acq2 = [n for n in g2.nodes if is_lock_call(g2, n, ('acquire',))]
    rel2 = [n for n in g2.nodes if is_lock_call(g2, n, ('release',))]
    for a in acq2:
        starts = [e for e in g2.succ[a.id] if e.label != 'exc']
        w = must_pass(g2, [], [g2.exit, g2.raise_exit], rel2, start_edges=starts)
        ctx.check(rule, f'{norm(a.ast)} is paired with a release on every exit, exceptions inside the region included', g2.loc(a), w is None and bool(rel2),
                  'released in a finally (or nothing between acquire and release can raise)',
                  'an exception inside the region leaves the creation lock held for ever: every later miss of this function - any key, any thread - blocks its whole loop thread',
                  witness=render(g2, w), construct=construct_key(r.wrapper.qualname, 'creation lock not released on an exit'))


def c05(ctx: Ctx) -> None:
    r = _roles(ctx)
    from .common import rule_unbound
    rule_unbound(ctx, 'C05-U1', [r.impl], 'threadsafe_async_cache')
    g = r.cfg
    ctx.trusted += ['asyncio.Event / wait_for / run_coroutine_threadsafe semantics',
                    'every invocation of the wrapped function finishes or is cancelled (premise of the property)']
    ctx.rule('C05-R1', 'every path MARK -> any exit (return, exception, cancellation) passes WAKE and an UNMARK '
                       '(or the failing edge of an ownership test)', 2)
    ctx.rule('C05-R3', 'a waiter on a foreign loop awaits wrap_future(run_coroutine_threadsafe(event.wait(), marker_loop)); '
                       'on the same loop event.wait() itself',1)
    ctx.rule('C05-R4', 'RuntimeError of the cross-loop bridge leads back to the retry head', 1)
    ctx.rule('C05-R5', 'the wait is wrapped in wait_for(_, T), 0 < T <= 60; its TimeoutError leads to the retry head', 1)
    ctx.rule('C05-R6', 'no path through the wait stage returns without passing the retry head', 1)
    ctx.rule('C05-R7', 'a closed or not-running marker loop always leads to take-over (never to waiting)', 1)
    ctx.rule('C05-R8', 'the Event set at WAKE is the very Event stored in this activation\'s marker (waiters wait on what is set)', 1)
    ctx.rule('C05-R10', 'the caller that computed returns what it computed: after a successful invocation no path leads back to the retry head', 1)
    ctx.rule('C05-R9', 'a creation lock taken by hand is given back on every exit of the region, exceptions included (nobody blocks on a leaked lock)', 1)
    if not _require_table(ctx, r, 'C05-R1'):
        _publish_roles(ctx, r)
        return
    _rule_lock_given_back(ctx, r, 'C05-R9')
    exits = [g.exit, g.raise_exit] + ([r.HEAD] if r.HEAD else [])
    own = r.ownership_branches()
    # a removal that was just verified under the same hold of the lock cannot
    # raise KeyError: its exception edge is infeasible
    safe_unmarks = {u.id for u in r.UNMARK if ownership_guarded(r, u)}
    feasible = lambda e: not (e.label == 'exc' and e.src.id in safe_unmarks)
    for m in r.MARK:
        starts = [e for e in g.succ[m.id]]
        envs = envs_at(g, m)     # what the path to MARK already decided (e.g. `if do_caching:`)
        w = must_pass(g, [], exits, r.WAKE, start_edges=starts, edge_ok=feasible, init_envs=envs)
        ctx.check('C05-R1', f'WAKE after MARK {norm(m.ast)}', _loc(g, m), w is None and bool(r.WAKE),
                  detail_ok='event.set() on every exit incl. exception and cancellation edges',
                  detail_bad='an exit of the computing caller does not wake the waiters (they sit out the 60 s timeout)',
                  witness=render(g, w), construct=construct_key(r.wrapper.qualname, 'exit without WAKE'),
                  examined=len(exits))
        # the marker is removed, or found to be someone else's, or found to be gone already
        pres = presence_branches(r)
        gone_edges = {(b.id, lab) for b, lab in pres}
        # ... in the try/except form: a read of TABLE[key] that raises KeyError has found the entry gone
        # (only when the KeyError is caught: one that escapes replaces the caller's outcome - C06)
        gone_ids = {id(e_) for n_ in g.nodes if n_.kind == 'load_sub' and r._base(n_) == r.table
                    and norm(n_.ast.slice) in r.key_exprs and len(r.key_exprs) == 1
                    for e_ in g.succ[n_.id] if e_.label == 'exc' and e_.dst.kind == 'except' and 'KeyError' in (e_.classes or ())}
        via = r.UNMARK + [b for b, _ in own]
        w = must_pass(g, [], exits, via, start_edges=starts, init_envs=envs,
                      edge_ok=lambda e: feasible(e) and (e.src.id, e.label) not in gone_edges and id(e) not in gone_ids)
        ok = w is None and bool(r.UNMARK)
        # each ownership edge must lead to an UNMARK
        for b, pol in own:
            se = [e for e in g.succ[b.id] if e.label == pol]
            w2 = must_pass(g, [], exits, r.UNMARK, start_edges=se)
            if w2 is not None:
                ok, w = False, w2
        ctx.check('C05-R1', f'UNMARK after MARK {norm(m.ast)}', _loc(g, m), ok,
                  detail_ok='marker removed (or found replaced) on every exit incl. exception and cancellation edges',
                  detail_bad='a marker can outlive its computation: later callers wait for nothing',
                  witness=render(g, w), construct=construct_key(r.wrapper.qualname, 'exit without UNMARK'),
                  examined=len(exits))
    # R3 / R5: symbolic value of the awaited object
    res = _wait_analysis(ctx, r)
    lv = lookup_vars(r)
    shield_waits = []
    seen_inst = set()
    for w, p, expr in res:
        waits_on_event = [c for c in method_calls(expr, 'wait') if _marker_part(r, c.func.value, lv) in (1, 'any')]
        if not waits_on_event:
            continue
        shield_waits.append(w)
        # did the path establish "running loop is not marker loop"?
        foreign = None
        for e in p:
            t0 = resolve(g, e.src, e.src.meta['test'], depth=2, keep=tuple(lv)) if e.src.kind == 'branch' else None
            if e.src.kind == 'branch' and isinstance(t0, ast.Compare):
                t = t0
                names = {x.id for x in ast.walk(t) if isinstance(x, ast.Name)}
                sides = [t.left] + list(t.comparators)
                about_marker = bool(names & lv) or any(
                    _marker_part(r, lf, lv) in (0, 'any') for sd in sides for lf in leaves(g, e.src, sd))
                if len(t.ops) == 1 and isinstance(t.ops[0], (ast.Is, ast.IsNot)) and about_marker:
                    isnot = isinstance(t.ops[0], ast.IsNot)
                    foreign = (e.label == 'true') == isnot
        bridges = find_calls(g, expr, 'asyncio.run_coroutine_threadsafe')
        bridged = False
        for b in bridges:
            if len(b.args) >= 2 and any(c in list(ast.walk(b.args[0])) for c in waits_on_event) \
                    and _marker_part(r, b.args[1], lv) in (0, 'any'):
                wf = [c for c in find_calls(g, expr, 'asyncio.wrap_future') if b in list(ast.walk(c))]
                bridged = bool(wf)
        key = (w.id, foreign, bridged)
        if key in seen_inst:
            continue
        seen_inst.add(key)
        if foreign is None:
            # no test of the loops' identity on this path: the marker may belong to another loop, so only the
            # bridged form is right (it also works on the same loop)
            foreign = True
        ok = bridged or not foreign
        ctx.check('C05-R3', f'{"foreign" if foreign else "same"}-loop waiter awaits {norm(expr)}', _loc(g, w), ok,
                  detail_ok='event waited on its own loop',
                  detail_bad=('an asyncio.Event is awaited on a loop that does not own it' if foreign else
                              'same-loop waiter goes through the thread bridge'),
                  witness=render(g, p), construct=construct_key(r.wrapper.qualname, 'wait', foreign, bridged))
        wfs = find_calls(g, expr, 'asyncio.wait_for')
        okT = False
        T = None
        for c in wfs:
            targ = c.args[1] if len(c.args) > 1 else _keyword(r, c, 'timeout')
            if isinstance(targ, ast.Constant) and isinstance(targ.value, (int, float)) and not isinstance(targ.value, bool):
                T = targ.value
                okT = 0 < T <= 60 and any(x in list(ast.walk(c)) for x in waits_on_event)
                # the timer must run on the waiter's own loop: a wait_for shipped through the bridge
                # to the computing loop dies with that loop
                inside_bridge = any(c in list(ast.walk(b_)) and c is not b_ for b_ in bridges)
                if foreign and inside_bridge:
                    okT = False
        ctx.check('C05-R5', f'bounded wait on path ({"foreign" if foreign else "same"} loop), T={T}', _loc(g, w), okT,
                  detail_ok='wait_for with a literal timeout in (0, 60]',
                  detail_bad='the wait for another computation is not bounded by the 60 s safety timeout',
                  witness=render(g, p), construct=construct_key(r.wrapper.qualname, 'unbounded wait', foreign))
    if not shield_waits:
        ctx.violation('C05-R3', 'no wait on the marker event found', f'{FILE}:{r.wrapper.lineno}',
                      'waiters do not wait for the computing caller\'s event',
                      construct=construct_key(r.wrapper.qualname, 'no event wait'))
    # R5b: TimeoutError edge leads to HEAD
    head = [r.HEAD] if r.HEAD else []
    # (going round again means reading the cache again: in a rotated loop the probe stands after the wait and the loop head
    # after the probe - a path that reaches a probe has started its next round)
    retry = head + [p_ for p_ in r.PROBE if p_.kind == 'load_sub']
    for w in set(shield_waits):
        te = [e for e in g.succ[w.id] if e.label == 'exc' and e.classes and 'TimeoutError' in e.classes
              and e.dst.kind == 'except']
        if not te:
            ctx.violation('C05-R5', f'TimeoutError of {norm(w.ast)} is not handled', _loc(g, w),
                          'a timed-out waiter raises instead of re-checking',
                          construct=construct_key(r.wrapper.qualname, 'timeout unhandled'))
            continue
        wp = must_pass(g, [], [g.exit, g.raise_exit], retry, start_edges=te)
        ctx.check('C05-R5', f'TimeoutError edge of {norm(w.ast)} -> retry head', _loc(g, w), wp is None and bool(head),
                  detail_ok='a timed-out waiter loops around and re-checks',
                  detail_bad='a timed-out waiter leaves the function',
                  witness=render(g, wp), construct=construct_key(r.wrapper.qualname, 'timeout no retry'))
        # R6: normal completion of the wait leads to HEAD, never to return
        ne = [e for e in g.succ[w.id] if e.label != 'exc']
        wp = must_pass(g, [], [g.exit], retry, start_edges=ne)
        ctx.check('C05-R6', f'woken waiter after {norm(w.ast)} re-reads the cache', _loc(g, w), wp is None and bool(head),
                  detail_ok='normal completion of the wait reaches the retry head',
                  detail_bad='a woken waiter returns without re-reading the cache',
                  witness=render(g, wp), construct=construct_key(r.wrapper.qualname, 'wait returns'))
    # R10: the caller that computed leaves with what it computed: its termination does not depend on the mapping
    # retaining the entry (a size-0 or evicting cache would send it round the retry loop for ever)
    for c in r.CALL:
        ne = [e for e in g.succ[c.id] if e.label != 'exc']
        wp = find_path(g, [], head, start_edges=ne) if head else None
        ctx.check('C05-R10', f'after {norm(c.ast)} completed the computing caller does not go back to the retry head', _loc(g, c), wp is None,
                  detail_ok='normal completion of the invocation leads to a return (or a raise), never back into the loop',
                  detail_bad='the computing caller re-enters the retry loop after its invocation succeeded: with a mapping that does not '
                             'retain the entry it recomputes for ever although every invocation finishes',
                  witness=render(g, wp), construct=construct_key(r.wrapper.qualname, 'computing caller loops'))
    # R4
    bridge_calls = [n for n in g.nodes if n.kind == 'call' and call_name(g, n.ast) == 'asyncio.run_coroutine_threadsafe']
    for b in bridge_calls:
        ee = [e for e in g.succ[b.id] if e.label == 'exc']
        wp = must_pass(g, [], [g.exit, g.raise_exit], retry, start_edges=ee)
        ctx.check('C05-R4', f'RuntimeError edge of {norm(b.ast)}', _loc(g, b), wp is None and bool(head) and bool(ee),
                  detail_ok='bridge failure (closed loop) loops around to recompute',
                  detail_bad='a closed computing loop makes the waiter fail instead of recomputing',
                  witness=render(g, wp), construct=construct_key(r.wrapper.qualname, 'bridge failure exits'))
    if not bridge_calls:
        ctx.note('no run_coroutine_threadsafe bridge found; C05-R3 reports the consequence')
    # R7
    tm, tw = takeover_paths(r)
    seen7 = set()
    for p, f in tw:
        k7 = tuple(sorted(f.items()))
        if k7 in seen7:
            continue
        seen7.add(k7)
        ok = f.get('found') is True and f.get('closed') is False and f.get('running') is True
        ctx.check('C05-R7', f'decide-to-wait path with facts {f}', _loc(g, p[0].src), ok,
                  detail_ok='waiting only for a marker whose loop is open and running',
                  detail_bad='a caller can decide to wait for a marker whose loop may be closed or stopped',
                  witness=render(g, p), construct=construct_key(r.wrapper.qualname, 'wait-on-dead', sorted(f.items())))
    if not tw:
        ctx.violation('C05-R7', 'no decide-to-wait path', f'{FILE}:{r.wrapper.lineno}',
                      'every caller computes', construct=construct_key(r.wrapper.qualname, 'no wait path'))
    # R8: identity of the event: symbolic value of the marker's event element at MARK and of the receiver of
    # set() at WAKE along one feasible path entry -> MARK -> WAKE; both must be the same Event() creation site
    from ..sym import expand_inlined

    def creation_site(e: ast.AST):
        if isinstance(e, ast.Call) and g.res.path(e.func) == 'asyncio.Event':
            return (getattr(e, 'lineno', None), getattr(e, 'col_offset', None))
        return None
    for m in r.MARK:
        p1 = find_path(g, [g.entry], [m])
        if p1 is None:
            continue
        for w in r.WAKE:
            p2 = find_path(g, [m], [w], edge_ok=lambda e: e.label != 'exc')
            if p2 is None:
                continue
            full = p1 + p2
            env_m = sym_env(g, p1, through_unpack=True)
            sv = simplify(subst(expand_inlined(g, m.meta.get('value')), env_m)) if m.meta.get('value') is not None else None
            stored = sv.elts[1] if isinstance(sv, ast.Tuple) and len(sv.elts) >= 2 else None
            # environment when the WAKE node executes (stores of the path up to, not including, w)
            env_w = sym_env(g, full + [e for e in g.succ[w.id]][:1], through_unpack=True)
            recv = simplify(subst(w.ast.func.value, env_w))
            a, b = creation_site(stored) if stored is not None else None, creation_site(recv)
            if a is None or b is None:
                # not reduced to a creation site on this path: compare the expressions themselves
                ok8 = stored is not None and norm(stored) == norm(recv) and not isinstance(stored, ast.Call)
                if not ok8:
                    ctx.undecided('C05-R8', f'MARK {norm(sv) if sv is not None else None} vs WAKE receiver {norm(recv)}', _loc(g, w),
                                  'event identity could not be reduced to a creation site')
                    continue
            else:
                ok8 = a == b
            ctx.check('C05-R8', f'marker event {norm(stored)}@{a} is what {norm(w.ast)} sets ({norm(recv)}@{b})', _loc(g, w), ok8,
                      'waiters of this activation wait on the event that its clean-up sets',
                      'the computing caller sets an Event other than the one it published in its marker: waiters are never '
                      'woken and its ownership test never matches (the marker is never removed)',
                      witness=render(g, full), construct=construct_key(r.wrapper.qualname, 'marker event identity'))
    # ... and nothing else is ever set: an Event read from the table belongs to another activation, possibly to a loop that is
    # closed (set() then schedules the waiters' wake-up on that loop: RuntimeError) and is not thread-safe to touch
    rule_foreign_set(ctx, r, 'C05-R8')
    _publish_roles(ctx, r)


def rule_foreign_set(ctx: Ctx, r: CacheRoles, rule: str) -> None:
    """Only the owner sets an event: every set()/clear() on an event value lies behind a MARK of the same activation (the
    identity of what is set with what was marked is C05-R8 proper).  An Event read from the table belongs to another
    activation - possibly to a closed loop, where set() raises RuntimeError while waking that loop's waiters."""
    g = r.cfg
    sets = [n for n in g.nodes if n.kind == 'call' and isinstance(n.ast.func, ast.Attribute) and n.ast.func.attr in ('set', 'clear') and not n.ast.args
            and r.is_event_value(n, n.ast.func.value)]
    for n in sets:
        w = must_pass(g, [g.entry], [n], r.MARK)
        ctx.check(rule, f'{norm(n.ast)} only by the activation that stored the marker', _loc(g, n), w is None and bool(r.MARK),
                  'reached only after this activation\'s MARK',
                  'an Event is set/cleared by a caller that has not (yet) published a marker of its own: it is the Event found in the in-flight '
                  'table - another activation\'s, possibly of a closed loop, where set() raises RuntimeError out of the cache\'s bookkeeping',
                  witness=render(g, w), construct=construct_key(r.wrapper.qualname, 'foreign event set', n.ast.func.attr))


# ---------------------------------------------------------------------------
# C06
# ---------------------------------------------------------------------------

def c06(ctx: Ctx) -> None:
    r = _roles(ctx)
    from .common import rule_unbound
    rule_unbound(ctx, 'C06-U1', [r.impl], 'threadsafe_async_cache')
    g = r.cfg
    ctx.trusted += ['asyncio.shield / Task.cancel semantics']
    ctx.rule('C06-R1', 'no path from an exception/cancel edge of CALL reaches PUBLISH', 1)
    ctx.rule('C06-R2', 'every exception edge of CALL leaves the wrapper by raising; the marker event carries no payload', 2)
    ctx.rule('C06-R3', 'owner-only UNMARK (= C01-R7): no bookkeeping KeyError, no foreign marker removed', 1)
    ctx.rule('C06-R4', 'a CancelledError caught around the shielded wait is re-raised only if the local waiter task is not done', 1)
    ctx.rule('C06-R5', 'cancel() only on the locally created waiter task; shield() wraps that task; the shared event is never cleared', 1)
    ctx.rule('C06-R6', 'a RuntimeError of the cross-loop bridge (computing loop closed) leads back to the retry head, never to the caller', 1)
    ctx.rule('C06-R7', 'every exception/cancel edge of the wrapped call passes the wake-up of the waiters', 1)
    ctx.rule('C06-R8', 'a miss of the cache mapping (KeyError of a probe - the mapping may evict) never leaves the wrapper', 1)
    ctx.rule('C06-R9', 'the wrapper raises nothing of its own: every raise statement that can reach the caller re-raises what was caught', 1)
    # "no caller ever observes an exception that originates in the cache's own bookkeeping": a `raise X(...)` written in the
    # wrapper (or a helper it runs inline) whose exception can leave the wrapper is such an exception, whatever the reason
    raises_ = [n for n in g.nodes if n.kind == 'raise']
    own_ = []
    for n in raises_:
        exc_ = n.ast.exc if isinstance(n.ast, ast.Raise) else None
        if exc_ is None:
            continue            # bare re-raise
        h_ = n.ast
        caught_ = set()
        while h_ is not None and not isinstance(h_, (ast.FunctionDef, ast.AsyncFunctionDef, ast.Lambda)):
            if isinstance(h_, ast.ExceptHandler) and h_.name:
                caught_.add(h_.name)
            h_ = parent(h_)
        if isinstance(exc_, ast.Name) and exc_.id in caught_:
            continue            # `raise e` of the handler's own exception
        par_ = parent(n.ast)

        def narrowing(t) -> bool:
            if isinstance(t, ast.BoolOp):
                return all(narrowing(v) for v in t.values)
            return isinstance(t, ast.Compare) and len(t.ops) == 1 and isinstance(t.ops[0], ast.Is) and isinstance(t.left, ast.Name) \
                and isinstance(t.comparators[0], ast.Constant) and t.comparators[0].value is None
        if isinstance(par_, ast.If) and par_.body and par_.body[0] is n.ast and narrowing(par_.test):
            # `if x is None: raise ...` on locals is the statement form of `assert x is not None` (assumed to hold, DESIGN 2.2):
            # where the local can be None the very next use fails anyway
            continue
        ee_ = [e for e in g.succ[n.id] if e.label == 'exc']

        from .common import exception_escapes
        if any(exception_escapes(g, e) for e in ee_) and find_path(g, [g.entry], [n]) is not None:
            # (a "cannot happen" raise behind a test that is never true is not a way out)
            own_.append(n)
    for n in own_:
        ctx.violation('C06-R9', f'{norm(n.ast)[:90]}', _loc(g, n),
                      'an exception made by the cache itself can reach a caller: the call ends in a fourth way (not the value, not the wrapped '
                      'function\'s own exception, not the caller\'s cancellation)',
                      witness=render(g, find_path(g, [g.entry], [n])), construct=construct_key(r.wrapper.qualname, 'own exception', n.ast.exc))
    if not own_:
        ctx.holds('C06-R9', f'{len(raises_)} raise statement(s) in the wrapper: bare re-raises, or caught inside the wrapper', _loc(g, g.entry))
    if not _require_table(ctx, r, 'C06-R1'):
        _publish_roles(ctx, r)
        return
    for c in r.CALL:
        ee = [e for e in g.succ[c.id] if e.label == 'exc']
        # also the call node creating the coroutine
        reached = reach(g, [], start_edges=ee)
        bad = [p for p in r.PUBLISH if p.id in reached]
        w = find_path(g, [], bad, start_edges=ee) if bad else None
        ctx.check('C06-R1', f'exception edges of {norm(c.ast)}', _loc(g, c), not bad,
                  detail_ok='a failed or cancelled computation stores nothing',
                  detail_bad='a failed or cancelled computation reaches the cache store',
                  witness=render(g, w), construct=construct_key(r.wrapper.qualname, 'publish after failure'),
                  examined=len(ee))
        bad_exit = g.exit.id in reached or (r.HEAD is not None and r.HEAD.id in reached)
        w = find_path(g, [], [g.exit] + ([r.HEAD] if r.HEAD else []), start_edges=ee) if bad_exit else None
        ctx.check('C06-R2', f'exception edges of {norm(c.ast)} propagate', _loc(g, c), not bad_exit,
                  detail_ok='failures leave through raise_exit after the cleanup',
                  detail_bad='an exception of the wrapped function is swallowed (caller returns / retries)',
                  witness=render(g, w), construct=construct_key(r.wrapper.qualname, 'exception swallowed'),
                  examined=len(ee))
    for pr_ in r.PROBE:
        ke = [e for e in g.succ[pr_.id] if e.label == 'exc']
        handlers_ = [x for x in g.nodes if x.kind == 'except']
        wk = find_path(g, [], [g.raise_exit], avoid=handlers_, start_edges=ke) if ke else None
        ctx.check('C06-R8', f'KeyError of {norm(pr_.ast)}', _loc(g, pr_), wk is None,
                  'a miss is handled (probe again under the lock / compute)',
                  'a read of the cache without a handler: with an evicting mapping (the documented LRU use) the entry just stored can be '
                  'gone, and the caller gets the cache\'s own KeyError instead of its value', witness=render(g, wk),
                  construct=construct_key(r.wrapper.qualname, 'probe miss escapes', pr_.ast))
    ev_methods = set()
    lv = lookup_vars(r) | set(r.event_keep)
    for n in g.nodes:
        if n.kind == 'call':
            rm = r._recv_meth(n)
            if rm and rm[0] in lv and rm[0] != None:
                ev_methods.add(rm[1])
    allowed = {'set', 'wait', 'is_set', 'is_closed', 'is_running'}
    ctx.check('C06-R2', f'methods used on marker loop/event: {sorted(ev_methods)}', f'{FILE}:{r.wrapper.lineno}',
              ev_methods <= allowed, detail_ok='no payload travels through the marker',
              detail_bad=f'unexpected operations on the shared marker: {sorted(ev_methods - allowed)}',
              construct=construct_key(r.wrapper.qualname, 'marker methods', sorted(ev_methods - allowed)))
    rule_owner_only_unmark(ctx, r, 'C06-R3')
    # R6: bookkeeping failures of the cross-loop bridge never reach the caller
    head = [r.HEAD] if r.HEAD else []
    head = head + [p_ for p_ in r.PROBE if p_.kind == 'load_sub']       # (a re-read of the cache is the start of the next round)
    bridge_calls = [n for n in g.nodes if n.kind == 'call' and call_name(g, n.ast) == 'asyncio.run_coroutine_threadsafe']
    for b in bridge_calls:
        ee = [e for e in g.succ[b.id] if e.label == 'exc']
        wp = must_pass(g, [], [g.exit, g.raise_exit], head, start_edges=ee)
        ctx.check('C06-R6', f'RuntimeError of {norm(b.ast)} stays inside the wrapper', _loc(g, b), wp is None and bool(ee) and bool(head),
                  'a closed computing loop makes the waiter retry', 'another loop\'s shutdown surfaces as a RuntimeError of the cache\'s own bookkeeping',
                  witness=render(g, wp), construct=construct_key(r.wrapper.qualname, 'bridge failure escapes'))
    # R7: a failing / cancelled computing caller still wakes the waiters (no 60 s penalty for bystanders)
    exits = [g.exit, g.raise_exit] + head
    safe_unmarks = {u.id for u in r.UNMARK if ownership_guarded(r, u)}
    feasible = lambda e: not (e.label == 'exc' and e.src.id in safe_unmarks)
    for c in r.CALL:
        ee = [e for e in g.succ[c.id] if e.label == 'exc']
        w = must_pass(g, [], exits, r.WAKE, start_edges=ee, edge_ok=feasible)
        ctx.check('C06-R7', f'exception/cancel edges of {norm(c.ast)} wake the waiters', _loc(g, c), w is None and bool(r.WAKE),
                  'one caller\'s failure costs the others a recomputation, not the safety timeout',
                  'waiters of a failed or cancelled computation are not woken: they sit out the 60 s timeout',
                  witness=render(g, w), construct=construct_key(r.wrapper.qualname, 'failure does not wake'))
    # ... and so does one whose result the mapping refused (`__setitem__` of a caller-supplied cache raised): a computation
    # that could not be cached is a failed computation
    for pb in r.PUBLISH:
        ee = [e for e in g.succ[pb.id] if e.label == 'exc']
        if not ee:
            continue
        # (a store that only ever runs after the wake-up has nobody left to strand - that order is C01-R6's business)
        after_wake = r.WAKE and all(must_pass(g, [], [pb], r.WAKE, start_edges=[e for e in g.succ[c_.id] if e.label != 'exc']) is None for c_ in r.CALL)
        if after_wake:
            continue
        w = must_pass(g, [], exits, r.WAKE, start_edges=ee, edge_ok=feasible)
        ctx.check('C06-R7', f'a failing store {norm(pb.ast)} wakes the waiters', _loc(g, pb), w is None and bool(r.WAKE),
                  'a value the mapping refuses costs the others a recomputation, not the safety timeout',
                  'when the caller-supplied mapping refuses the value the waiters are not woken and the marker stays: every later caller waits for a computation that is over',
                  witness=render(g, w), construct=construct_key(r.wrapper.qualname, 'failed store does not wake'))
    # R4
    shield_awaits = [n for n in g.nodes if n.kind == 'await' and isinstance(n.ast.value, ast.Call)
                     and call_name(g, n.ast.value) == 'asyncio.shield']
    for sa_ in shield_awaits:
        task = sa_.ast.value.args[0] if sa_.ast.value.args else None
        handlers = [e.dst for e in g.succ[sa_.id] if e.label == 'exc' and e.dst.kind == 'except'
                    and e.classes and 'CancelledError' in e.classes]
        if not handlers:
            # await shield(task) raises CancelledError both when the caller is cancelled and when the task itself
            # finished cancelled (the loop hosting the proxied wait shut down): uncaught, the two are indistinguishable
            esc = [e for e in g.succ[sa_.id] if e.label == 'exc' and e.classes and 'CancelledError' in e.classes]
            wp = find_path(g, [], [g.raise_exit], start_edges=esc) if esc else None
            ctx.check('C06-R4', f'{norm(sa_.ast)}: CancelledError is not caught', _loc(g, sa_), wp is None,
                      detail_ok='no CancelledError can leave the wait',
                      detail_bad=('a CancelledError of the waiter task itself (computing loop shut down while hosting the proxied wait) '
                                  'reaches a caller nobody cancelled: it must be caught and told apart by the waiter\'s state'),
                      witness=render(g, wp), construct=construct_key(r.wrapper.qualname, 'foreign CancelledError uncaught'))
            continue
        for h in handlers:
            # paths handler -> raise_exit that do not pass the false edge of <task>.done()
            def done_branch(n: Node) -> bool:
                t = n.meta.get('test') if n.kind == 'branch' else None
                return (isinstance(t, ast.Call) and isinstance(t.func, ast.Attribute) and t.func.attr == 'done'
                        and task is not None and norm(t.func.value) == norm(task))
            def cancelling_branch(n: Node) -> bool:
                t = n.meta.get('test') if n.kind == 'branch' else None
                return t is not None and any(isinstance(x, ast.Attribute) and x.attr == 'cancelling' for x in ast.walk(t))
            ok_edge = lambda e: not ((done_branch(e.src) and e.label == 'true'))
            guards = [n for n in g.nodes if cancelling_branch(n)]
            w = find_path(g, [h], [g.raise_exit], avoid=guards,
                          edge_ok=lambda e: not (done_branch(e.src) and e.label == 'false'))
            # w: a path that re-raises without having established "waiter not done"
            # (i.e. avoiding the false edge of done()).  Paths through the true edge are the bad ones.
            bad = None
            if w is not None:
                bad = w
            ctx.check('C06-R4', f'handler {norm(h.ast.type) if h.ast.type else "bare"} around {norm(sa_.ast)}',
                      _loc(g, h), bad is None,
                      detail_ok='re-raise only when the local waiter is still pending (the cancellation is the caller\'s own)',
                      detail_bad=('the handler re-raises also when the waiter task itself finished cancelled: a '
                                  'CancelledError caused by the computing loop\'s shutdown is delivered to a caller nobody cancelled'),
                      witness=render(g, bad),
                      construct=construct_key('CACHE.wrapper', 'handler around the shielded wait re-raises a foreign CancelledError'))
    if not shield_awaits:
        ctx.violation('C06-R5', 'the wait is not shielded', f'{FILE}:{r.wrapper.lineno}',
                      'cancelling a waiter cancels the shared wait directly',
                      construct=construct_key(r.wrapper.qualname, 'no shield'))
    # R5
    task_vars = set()
    for n in g.nodes:
        v_ = n.meta.get('value') if n.kind == 'store_name' else None
        if isinstance(v_, ast.Call) and (call_name(g, v_) in ('asyncio.create_task', 'asyncio.ensure_future') or (
                isinstance(v_.func, ast.Attribute) and v_.func.attr == 'create_task')):      # (also `<loop>.create_task(...)`)
            task_vars.add(n.meta['name'])
    # ... handed on under another name (the value a spawn helper returns, read in place)
    grew_ = True
    while grew_:
        grew_ = False
        for n in g.nodes:
            v_ = n.meta.get('value') if n.kind == 'store_name' else None
            if isinstance(v_, ast.Name) and v_.id in task_vars and n.meta['name'] not in task_vars:
                others_ = [x for x in g.nodes if x.kind == 'store_name' and x.meta['name'] == n.meta['name'] and x is not n]
                if all(isinstance(x.meta.get('value'), ast.Name) and x.meta['value'].id in task_vars for x in others_):
                    task_vars.add(n.meta['name'])
                    grew_ = True
    for n in g.nodes:
        if n.kind == 'call':
            rm = r._recv_meth(n)
            if rm and rm[1] == 'cancel':
                ctx.check('C06-R5', f'{norm(n.ast)}', _loc(g, n), rm[0] in task_vars,
                          detail_ok='cancels the caller\'s own waiter task',
                          detail_bad='cancels something other than the locally created waiter task',
                          construct=construct_key(r.wrapper.qualname, n.ast))
            if rm and rm[1] == 'clear' and rm[0] in lv:
                ctx.violation('C06-R5', f'{norm(n.ast)}', _loc(g, n), 'the shared event is cleared',
                              construct=construct_key(r.wrapper.qualname, n.ast))
    for sa_ in shield_awaits:
        a = sa_.ast.value.args[0] if sa_.ast.value.args else None
        ctx.check('C06-R5', f'shield operand {norm(a) if a is not None else None}', _loc(g, sa_),
                  isinstance(a, ast.Name) and a.id in task_vars,
                  detail_ok='shield wraps the local waiter task',
                  detail_bad='shield does not wrap a locally created task',
                  construct=construct_key(r.wrapper.qualname, sa_.ast))
    _publish_roles(ctx, r)


# ---------------------------------------------------------------------------
# C14
# ---------------------------------------------------------------------------

GOOD_KW = ('frozenset(KW.items())', 'tuple(sorted(KW.items()))')
BAD_KW = {'tuple(KW.items())': 'keyword order leaks into the key',
          'KW.values()': 'keyword names dropped', 'tuple(KW.values())': 'keyword names dropped',
          'frozenset(KW)': 'keyword values dropped', 'tuple(KW)': 'keyword values dropped',
          'tuple(sorted(KW))': 'keyword values dropped', 'frozenset(KW.values())': 'keyword names dropped',
          'len(KW)': 'keyword content dropped', 'bool(KW)': 'keyword content dropped',
          'str(KW)': 'keyword order leaks into the key', 'repr(KW)': 'keyword order leaks into the key'}
BAD_WRAPPERS = ('hash', 'str', 'repr', 'len', 'id')


def c14(ctx: Ctx) -> None:
    r = _roles(ctx)
    from .common import rule_unbound
    rule_unbound(ctx, 'C14-U1', [r.impl], 'threadsafe_async_cache')
    g = r.cfg
    w = r.wrapper
    ctx.trusted += ['== / hash of user values', 'behaviour of the supplied MutableMapping']
    ctx.rule('C14-R1', 'the key holds the whole positional tuple in order and a complete, order-insensitive encoding of the keywords', 1)
    ctx.rule('C14-R2', 'every cache/table subscript uses the same, un-reassigned key variable', 4)
    ctx.rule('C14-R3', 'the wrapped function is called with exactly *args, **kwargs', 1)
    ctx.rule('C14-R4', 'the supplied mapping is selected by a None test and is the only store', 2)
    ctx.rule('C14-R5', 'whenever a function is given, the decorator returns the caching wrapper built over the selected mapping', 1)
    # ... and what the wrapper calls is the function that was given: the name is bound to the decorator's parameter by plain
    # assignment only - a trampoline defined under that name (weak reference to a bound method, a task-spawning shim, a retry
    # loop) is called instead of the function, with an outcome of its own when it cannot reach it
    if r.wrapped and r.wrapped != r.func_param and r.wrapped not in r.impl.params:
        binds_ = [v_ for v_ in r.impl_assigns.get(r.wrapped, [])]
        defs_ = [c_ for c_ in r.impl.children if c_.kind == 'function' and c_.name == r.wrapped]
        okw_ = bool(binds_) and all(isinstance(v_, ast.Name) and v_.id == r.func_param for v_ in binds_) and not defs_
        ctx.check('C14-R3', f'{r.wrapped} is the decorator\'s `{r.func_param}`: bound by {[norm(v_) for v_ in binds_]}' + (f' and {len(defs_)} def(s)' if defs_ else ''),
                  f'{FILE}:{(defs_[0].lineno if defs_ else getattr(binds_[0], "lineno", r.impl.lineno)) if (defs_ or binds_) else r.impl.lineno}', okw_,
                  'the caller\'s function itself is what gets awaited', f'on some path `{r.wrapped}` is something built around the function (a def / a wrapper call): '
                  'the computing caller awaits that shim - its failures (a dead weak reference, a shim\'s own task being cancelled) reach callers as if '
                  'the function had produced them, and invocations can be shared or repeated outside the cache\'s bookkeeping',
                  construct=construct_key(r.impl.qualname, 'wrapped function replaced by a shim'))
    # every way out of the decorator (and of the factory it delegates to): the wrapper, the partial for the options form, or the
    # hand-over to the factory - an early `return func` (an "already decorated" shortcut, say) drops the caller's mapping
    for host in ([r.outer] if r.outer is r.impl else [r.outer, r.impl]):
        gh = build(host, ctx.program)
        for rn in [n for n in gh.nodes if n.kind == 'return']:
            v = rn.ast.value
            rv = resolve(gh, rn, v) if v is not None else None
            names = {x.id for x in ast.walk(rv) if isinstance(x, ast.Name)} if rv is not None else set()
            kind = None
            if isinstance(rv, ast.Name) and rv.id == w.name and host is r.impl:
                kind = 'the wrapper'
            elif isinstance(rv, ast.Call) and gh.res.path(rv.func) == 'functools.partial' and rv.args and isinstance(rv.args[0], ast.Name) \
                    and rv.args[0].id == r.outer.name:
                kind = 'partial of the decorator (options form)'
            elif isinstance(rv, ast.Call) and host is r.outer and r.outer is not r.impl and isinstance(rv.func, ast.Name) \
                    and (rv.func.id == r.impl.name or (gh.res.path(rv.func) or '').split('.')[-1] == r.impl.name):
                kind = 'hand-over to the factory'
            elif isinstance(rv, ast.Call) and w.name in names and host is r.impl:
                kind = 'the wrapper (wrapped once more by a call)'
            ctx.check('C14-R5', f'{host.name}: return {norm(v)[:70] if v is not None else None}', gh.loc(rn), kind is not None,
                      kind or '', 'the decorator can hand back something that is not the caching wrapper (the undecorated or an earlier-'
                      'decorated function): the mapping given as cache= is not the store', construct=construct_key(host.qualname, 'returns not the wrapper', v))
    fn = w.node
    va = fn.args.vararg.arg if fn.args.vararg else None
    kw = fn.args.kwarg.arg if fn.args.kwarg else None
    where = f'{FILE}:{w.lineno}'
    if va is None or kw is None or fn.args.args or fn.args.kwonlyargs or fn.args.posonlyargs:
        ctx.undecided('C14-R1', 'wrapper signature is not (*args, **kwargs)', where, norm(fn.args))
        _publish_roles(ctx, r)
        return
    # R2: one key variable
    key_names = set()
    for n in r.PROBE + [l for l in r.LOOKUP if l.kind == 'load_sub'] + r.MARK + r.PUBLISH + [u for u in r.UNMARK if u.kind == 'del_sub']:
        sl = n.ast.slice  # type: ignore[union-attr]
        ok = isinstance(sl, ast.Name)
        if ok:
            key_names.add(sl.id)
        ctx.check('C14-R2', f'{n.kind} {norm(n.ast)}', _loc(g, n), ok,
                  detail_ok='indexed by the key variable', detail_bad='indexed by something other than the key variable',
                  construct=construct_key(w.qualname, n.ast))
    for n in g.nodes:
        if n.kind == 'call':
            rm = r._recv_meth(n)
            if rm and rm[0] in (r.table, r.cache) and rm[1] in ('get', 'pop', 'setdefault'):
                a0 = n.ast.args[0] if n.ast.args else None
                ok = isinstance(a0, ast.Name)
                if ok:
                    key_names.add(a0.id)
                ctx.check('C14-R2', f'call {norm(n.ast)}', _loc(g, n), ok, 'keyed by the key variable',
                          'keyed by something other than the key variable', construct=construct_key(w.qualname, n.ast))
    if len(key_names) != 1:
        ctx.violation('C14-R2', f'key variables used: {sorted(key_names)}', where,
                      'cache and table are not indexed by one key', construct=construct_key(w.qualname, 'keys', sorted(key_names)))
        _publish_roles(ctx, r)
        return
    key = next(iter(key_names))
    stores = [n for n in g.nodes if n.kind == 'store_name' and n.meta['name'] == key
              and not (n.meta.get('inlined_param') and isinstance(n.meta.get('value'), ast.Name) and n.meta['value'].id == key)]
    ctx.check('C14-R2', f'key variable {key} assigned once', _loc(g, stores[0]) if stores else where, len(stores) == 1,
              'single assignment', 'the key is re-assigned', construct=construct_key(w.qualname, 'key reassigned'))
    if len(stores) != 1:
        _publish_roles(ctx, r)
        return
    # R1: key expression with local aliases substituted
    p = find_path(g, [g.entry], [stores[0]]) or []
    env = sym_env(g, p)
    from ..sym import expand_inlined
    kexpr = subst(expand_inlined(g, stores[0].meta['value']), env)
    ktxt = norm(kexpr)
    mod_helpers = {c.name: c.node for c in r.wrapper.unit.module_scope.children if c.kind == 'function'}
    verdict, why = classify_key(kexpr, va, kw, mod_helpers)
    inst = f'key = {ktxt}'
    if verdict == 'good':
        ctx.holds('C14-R1', inst, _loc(g, stores[0]), why)
    elif verdict == 'bad':
        ctx.violation('C14-R1', inst, _loc(g, stores[0]), why, construct=construct_key(w.qualname, 'key', ktxt))
    else:
        ctx.undecided('C14-R1', inst, _loc(g, stores[0]), why)
    # R3
    for c in r.CALL:
        call = c.ast.value  # type: ignore[union-attr]
        ok = (len(call.args) == 1 and isinstance(call.args[0], ast.Starred)
              and isinstance(call.args[0].value, ast.Name) and call.args[0].value.id == va
              and len(call.keywords) == 1 and call.keywords[0].arg is None
              and isinstance(call.keywords[0].value, ast.Name) and call.keywords[0].value.id == kw)
        reassigned = [n for n in g.nodes if n.kind == 'store_name' and n.meta['name'] in (va, kw)
                      and not (n.meta.get('inlined_param') and isinstance(n.meta.get('value'), ast.Name)
                               and n.meta['value'].id == n.meta['name'])]
        ctx.check('C14-R3', f'{norm(call)}', _loc(g, c), ok and not reassigned,
                  'called with the very arguments the key was built from',
                  'the value computed does not belong to the key (arguments altered)',
                  construct=construct_key(w.qualname, call))
    # R4
    ce = r.cache_expr
    iw = f'{FILE}:{getattr(ce, "lineno", r.impl.lineno)}'
    if ce is None:
        ctx.undecided('C14-R4', 'cache selection', iw, 'the cache parameter is used directly; cannot see a default')
    else:
        v, why = classify_cache_select(ce, r.cache_param)
        inst = f'{r.cache} = {norm(ce)}'
        if v == 'good':
            ctx.holds('C14-R4', inst, iw, why)
        elif v == 'bad':
            ctx.violation('C14-R4', inst, iw, why, construct=construct_key(r.impl.qualname, 'cache select', ce))
        else:
            ctx.undecided('C14-R4', inst, iw, why)
    # write-effect set of the wrapper: only CACHE and TABLE are stored to
    stores_to = set()
    res_names = {n.meta['name'] for n in g.nodes if n.kind == 'store_name' and isinstance(n.meta.get('value'), ast.Await)
                 and any(c.ast is n.meta['value'] for c in r.CALL)}
    for n in g.nodes:
        if n.kind in ('store_sub', 'del_sub'):
            b = n.ast.value  # type: ignore[union-attr]
            if n.kind == 'store_sub' and isinstance(resolve(g, n, n.ast.slice), ast.Constant):
                # a slot with a constant name (a statistics counter, a debug field) that does not receive the result
                # or anything derived from the arguments is not a second result store
                st_ = n.meta.get('stmt')
                vexpr = st_.value if isinstance(st_, (ast.Assign, ast.AugAssign, ast.AnnAssign)) else n.meta.get('value')
                tainted = vexpr is None or any(
                    isinstance(x, ast.Await) or (isinstance(x, ast.Name) and (x.id in res_names or x.id in w.params or norm(x) in r.key_exprs))
                    for x in ast.walk(resolve(g, n, vexpr)))
                if not tainted:
                    continue
            stores_to.add(norm(b))
        if n.kind == 'store_attr':
            stores_to.add(norm(n.ast))
    ok = stores_to <= {r.cache, r.table}
    ctx.check('C14-R4', f'write-effect set of the wrapper: {sorted(stores_to)}', where, ok,
              'results are stored only in the selected mapping', f'additional stores: {sorted(stores_to - {r.cache, r.table})}',
              construct=construct_key(w.qualname, 'stores', sorted(stores_to)))
    # results are read only from CACHE: every PROBE uses CACHE (by construction) and there is >= 1
    if not r.PROBE:
        ctx.violation('C14-R4', 'no cache probe', where, 'the mapping is never read',
                      construct=construct_key(w.qualname, 'no probe'))
    if not r.PUBLISH:
        ctx.violation('C14-R4', 'no cache store', where, 'results are never stored in the mapping',
                      construct=construct_key(w.qualname, 'no publish'))
    _publish_roles(ctx, r)


def _kwform(e: ast.expr, kw: str) -> str:
    class R(ast.NodeTransformer):
        def visit_Name(self, n):
            return ast.Name(id='KW', ctx=n.ctx) if n.id == kw else n
    from ..sym import clone
    return norm(R().visit(clone(e)))


def classify_key(k: ast.expr, va: str, kw: str, helpers: Optional[Dict[str, ast.AST]] = None) -> Tuple[str, str]:
    """good / bad / unknown for the cache-key expression."""
    names = {x.id for x in ast.walk(k) if isinstance(x, ast.Name)}
    if va not in names:
        return 'bad', 'positional arguments are not part of the key'
    if kw not in names:
        return 'bad', 'keyword arguments are not part of the key'
    if isinstance(k, ast.Call) and isinstance(k.func, ast.Name) and k.func.id in BAD_WRAPPERS:
        return 'bad', f'the key is {k.func.id}(...) of the arguments: distinct arguments can collide / equal ones differ'
    if isinstance(k, ast.Call) and (norm(k.func).split('.')[-1] == '_make_key'):
        return 'bad', ('functools._make_key flattens kwargs.items() in call order: f(a=0, b=1) and f(b=1, a=0) get different '
                       'entries (and are computed twice)')
    if isinstance(k, ast.BinOp) and isinstance(k.op, ast.Add):
        return 'bad', ('positional and keyword parts are concatenated into one flat tuple: the boundary is lost, so a trailing '
                       'positional (name, value) pair collides with the keyword name=value')
    if not isinstance(k, ast.Tuple):
        return 'unknown', 'key is not a tuple display'
    pos_ok = kw_ok = False
    for el in k.elts:
        if isinstance(el, ast.Name) and el.id == va:
            pos_ok = True
            continue
        if isinstance(el, ast.Starred) and isinstance(el.value, ast.Name) and el.value.id == va:
            return 'bad', '*args spliced into the key next to the keyword part: (1, kw) and (1,), kw... boundaries are lost'
        en = {x.id for x in ast.walk(el) if isinstance(x, ast.Name)}
        if va in en and not (isinstance(el, ast.Name)):
            if isinstance(el, ast.Call) and isinstance(el.func, ast.Name) and el.func.id == 'tuple' \
                    and len(el.args) == 1 and isinstance(el.args[0], ast.Name) and el.args[0].id == va:
                pos_ok = True
                continue
            return 'bad', f'positional part is {norm(el)}: not the whole ordered tuple'
        if kw in en:
            f = _kwform(el, kw)
            if f in GOOD_KW:
                kw_ok = True
            elif f in BAD_KW:
                return 'bad', f'keyword part {norm(el)}: {BAD_KW[f]}'
            elif isinstance(el, ast.Call) and isinstance(el.func, ast.Name) and el.func.id in BAD_WRAPPERS:
                return 'bad', f'keyword part is {el.func.id}(...)'
            elif isinstance(el, ast.Call) and isinstance(el.func, ast.Name) and helpers and el.func.id in helpers and len(el.args) == 1 \
                    and isinstance(el.args[0], ast.Name) and el.args[0].id == kw and not el.keywords:
                # a module-level helper that encodes the keywords: each value it can return is an encoding of its own
                h = helpers[el.func.id]
                hp = h.args.args[0].arg if h.args.args else None
                rets = [x for x in ast.walk(h) if isinstance(x, ast.Return) and x.value is not None]
                if hp is None or not rets:
                    return 'unknown', f'unrecognised keyword encoding {norm(el)}'
                all_good = True
                for rt in rets:
                    if not any(isinstance(x, ast.Name) and x.id == hp for x in ast.walk(rt.value)):
                        # a constant for "no keywords" (an empty frozenset / tuple): equal only to itself
                        if isinstance(rt.value, ast.Call) and not rt.value.args and not rt.value.keywords or (isinstance(rt.value, ast.Tuple) and not rt.value.elts):
                            continue
                        return 'unknown', f'unrecognised keyword encoding {norm(rt.value)} in {el.func.id}'
                    f2 = _kwform(rt.value, hp)
                    if f2 in GOOD_KW:
                        continue
                    if f2 in BAD_KW:
                        return 'bad', f'keyword part {el.func.id}(...) returns {norm(rt.value)}: {BAD_KW[f2]}'
                    if 'KW.values()' in f2 and 'KW.items()' not in f2:
                        return 'bad', (f'keyword part {el.func.id}(...) returns {norm(rt.value)}: the values are taken in call order, apart from their '
                                       'names - f(a=0, b=1) and f(b=0, a=1) get one entry, f(a=0, b=1) and f(b=1, a=0) two')
                    if 'KW.keys()' in f2 or ('sorted(KW)' in f2 and 'KW.items()' not in f2 and 'KW[' not in f2):
                        return 'bad', f'keyword part {el.func.id}(...) returns {norm(rt.value)}: names without (aligned) values'
                    all_good = False
                if all_good:
                    kw_ok = True
                else:
                    return 'unknown', f'unrecognised keyword encoding in helper {el.func.id}'
            else:
                return 'unknown', f'unrecognised keyword encoding {norm(el)}'
    if pos_ok and kw_ok:
        return 'good', 'ordered positional tuple + order-insensitive complete keyword encoding'
    return 'unknown', 'could not classify the key expression'


def classify_cache_select(e: ast.expr, param: Optional[str]) -> Tuple[str, str]:
    def is_empty_dict(x):
        return (isinstance(x, ast.Dict) and not x.keys) or (
            isinstance(x, ast.Call) and isinstance(x.func, ast.Name) and x.func.id == 'dict' and not x.args and not x.keywords)

    def is_param(x):
        return isinstance(x, ast.Name) and x.id == param
    if isinstance(e, ast.IfExp):
        t = e.test
        if isinstance(t, ast.Compare) and len(t.ops) == 1 and is_param(t.left) and \
                isinstance(t.comparators[0], ast.Constant) and t.comparators[0].value is None:
            if isinstance(t.ops[0], ast.IsNot) and is_param(e.body) and is_empty_dict(e.orelse):
                return 'good', 'None test: a supplied (possibly empty) mapping is always used'
            if isinstance(t.ops[0], ast.Is) and is_param(e.orelse) and is_empty_dict(e.body):
                return 'good', 'None test: a supplied (possibly empty) mapping is always used'
            return 'bad', 'None test selects the wrong branch'
        if is_param(t):
            return 'bad', 'truthiness selection: an empty supplied mapping is silently replaced'
    if isinstance(e, ast.BoolOp) and isinstance(e.op, ast.Or) and is_param(e.values[0]):
        return 'bad', 'truthiness selection (`cache or {}`): an empty supplied mapping (e.g. a fresh LRU) is silently replaced'
    if is_empty_dict(e):
        return 'bad', 'the supplied mapping is ignored'
    if is_param(e):
        return 'unknown', 'parameter used directly'
    if isinstance(e, ast.Call) and isinstance(e.func, ast.Name) and e.func.id[:1] == '_' and e.func.id[1:2].isupper() and any(
            isinstance(x, ast.Name) and x.id == param for a_ in e.args for x in ast.walk(a_)):
        return 'bad', (f'the selected mapping is wrapped in {e.func.id}(...): a view / adaptor with a memory of its own stands between the wrapper and '
                       'the caller\'s mapping - what the caller evicts from the mapping it owns can still be served, so the mapping is not the only store')
    return 'unknown', 'unrecognised selection of the cache mapping'
