"""AsyncBackgroundBatcher / async_background_batcher: C04, C09, C10, C11, C15
(DESIGN 4.D)."""
from __future__ import annotations

import ast
from typing import Dict, List, Optional, Set, Tuple

from ..cfg import CFG, Edge, Node, build, callee_info, find_method
from ..core import Ctx, construct_key, norm, norm_locals
from ..dataflow import resolve, alternatives
from ..match import expand_keywords, table_lookups
from ..load import AnalysisError, Resolver, Scope, dotted, own_nodes, parent
from ..paths import find_path, held_locks, must_pass, no_suspension, reach, render
from ..sym import call_name, enum_paths, find_calls, subst, sym_env
from ..model import carries_exception

FILE = 'aiuti/asyncio.py'


def self_attr(e: ast.AST) -> Optional[str]:
    if isinstance(e, ast.Attribute) and isinstance(e.value, ast.Name) and e.value.id == 'self':
        return e.attr
    return None


def sattr(g: CFG, e: Optional[ast.AST]) -> Optional[str]:
    """Like self_attr, but a single-assignment local alias (`cache = self._x`) counts as the attribute."""
    if e is None:
        return None
    p_ = g.res.path(e)
    if p_ and p_.startswith('self.') and '.' not in p_[5:]:
        return p_[5:]
    return None


class BatcherRoles:
    def __init__(self, ctx: Ctx):
        p = ctx.program
        u = p.unit(FILE)
        self.u = u
        self.p = p
        self.cls = None
        # (after a module split the class may live in another module of the package: asyncio.py first, then the rest)
        for u, c in [(uu, c_) for uu in [p.unit(FILE)] + [x for x in p.units.values() if x is not p.unit(FILE)] for c_ in uu.classes()]:
            if self.cls is not None and u is not self.u:
                break
            init = u.scopes.get(f'{c.qualname}.__init__')
            if init is None:
                continue
            r = Resolver(init)
            # the batcher: a class whose constructor builds an asyncio queue and whose async __call__
            # creates futures (the semaphore is a protective construct, not part of the subject)
            call = u.scopes.get(f'{c.qualname}.__call__')
            has_q = any(isinstance(n, ast.Assign) and isinstance(n.value, ast.Call) and (r.path(n.value.func) or '').startswith('asyncio.')
                        and (r.path(n.value.func) or '').endswith('Queue') for n in own_nodes(init.node))
            makes_futs = any(isinstance(x, ast.Attribute) and x.attr == 'create_future'
                             for m_ in u.functions() if m_.enclosing_class() is c for x in ast.walk(m_.node))   # (in __call__ or a helper of it)
            if has_q and call is not None and call.is_async and makes_futs:
                self.cls = c
                self.init = init
                self.u = u
        if self.cls is None:
            raise AnalysisError('batcher class (asyncio queue in __init__, futures created in async __call__) not found')
        cls = self.cls
        u = self.u
        r = Resolver(self.init)
        self.attr_ctor: Dict[str, ast.expr] = {}
        for n in own_nodes(self.init.node):
            if isinstance(n, (ast.Assign, ast.AnnAssign)):
                tg = n.targets[0] if isinstance(n, ast.Assign) else n.target
                a = self_attr(tg)
                if a and n.value is not None:
                    self.attr_ctor[a] = n.value
        kind = lambda v: r.path(v.func) if isinstance(v, ast.Call) else None
        self.sem = next((a for a, v in self.attr_ctor.items() if kind(v) == 'asyncio.Semaphore'), None)
        queues = [a for a, v in self.attr_ctor.items() if (kind(v) or '').startswith('asyncio.') and (kind(v) or '').endswith('Queue')]
        self.workq = queues[0] if queues else None
        self.call = u.scopes[f'{cls.qualname}.__call__']
        gc = build(self.call, p, inline_methods=True)
        self.gcall = gc
        self._declare_nonnull = lambda: None
        # RET: dict attribute subscripted in __call__
        self.ret = None
        for n in gc.nodes:
            if n.kind in ('load_sub', 'store_sub'):
                a = sattr(gc, n.ast.value)
                if a and isinstance(self.attr_ctor.get(a), (ast.Dict, ast.Call)):
                    self.ret = a
        self.ret_shared = False
        if self.ret is None:
            # a mapping defined in the class body and subscripted through self in __call__: one cache for every batcher
            cls_maps = {}
            for st_ in cls.node.body:
                tg_ = st_.targets[0] if isinstance(st_, ast.Assign) and len(st_.targets) == 1 else getattr(st_, 'target', None) if isinstance(st_, ast.AnnAssign) else None
                if isinstance(tg_, ast.Name) and getattr(st_, 'value', None) is not None and isinstance(st_.value, (ast.Dict, ast.Call)):
                    cls_maps[tg_.id] = st_.value
            for n in gc.nodes:
                if n.kind in ('load_sub', 'store_sub'):
                    a = sattr(gc, n.ast.value)
                    if a in cls_maps:
                        self.ret = a
                        self.ret_shared = True
                        self.attr_ctor.setdefault(a, cls_maps[a])
        # methods by behaviour
        self.process = self.assemble = self.dispatch = None
        for f in [s for s in u.functions() if s.enclosing_class() is cls]:
            g = build(f, p)
            for n in g.nodes:
                if n.kind == 'for_iter':
                    if _batch_iter_call(g, n)[0] is not None:
                        self.process = f
                if n.kind == 'call' and call_name(g, n.ast) == 'asyncio.wait_for' and f is not self.call:
                    self.assemble = f
            if self.assemble is None and f is not self.call and f.is_async and f is not self.init:
                # (unreachable or removed timed wait: the assembler is still the coroutine that dequeues)
                for x in own_nodes(f.node):
                    if isinstance(x, ast.Call) and isinstance(x.func, ast.Attribute) and x.func.attr in ('get', 'get_nowait') \
                            and self_attr(x.func.value) == self.workq or (
                            isinstance(x, ast.Call) and isinstance(x.func, ast.Attribute) and x.func.attr in ('get', 'get_nowait')
                            and isinstance(x.func.value, ast.Name) and any(
                                isinstance(y, ast.Assign) and isinstance(y.targets[0], ast.Name) and y.targets[0].id == x.func.value.id
                                and self_attr(y.value) == self.workq for y in own_nodes(f.node))):
                        cand_asm = f
                        if getattr(self, '_asm_fallback', None) is None:
                            self._asm_fallback = f
        for f in [s for s in u.functions() if s.enclosing_class() is cls]:
            g = build(f, p)
            for n in g.nodes:
                if n.kind == 'call' and self.assemble is not None:
                    info = callee_info(g, n.ast)
                    if info['kind'] == 'package' and self.assemble in info.get('scopes', []):
                        self.dispatch = f
        if self.assemble is None and getattr(self, '_asm_fallback', None) is not None:
            self.assemble = self._asm_fallback
            for f in [s for s in u.functions() if s.enclosing_class() is cls]:
                g = build(f, p)
                for n in g.nodes:
                    if n.kind == 'call':
                        info = callee_info(g, n.ast)
                        if info['kind'] == 'package' and self.assemble in info.get('scopes', []):
                            self.dispatch = f
        # helpers extracted from the assembler / the batch task hold the marker constructs now: lift each role to the
        # outermost method of the class that runs the helper inline (awaits / calls it directly), stopping below the
        # dispatcher and at a spawn
        meths_ = [s_ for s_ in u.functions() if s_.enclosing_class() is cls and s_.enclosing_function() is None]

        def direct_callers(f_):
            out_ = []
            for g_ in meths_:
                if g_ is f_:
                    continue
                for x in own_nodes(g_.node):
                    if isinstance(x, ast.Call) and self_attr(x.func) == f_.name:
                        par_ = parent(x)
                        inline_ = isinstance(par_, ast.Await) or not f_.is_async
                        out_.append((g_, inline_))
            return out_

        def lift(f_, stop_at):
            seen_ = {f_.qualname}
            while f_ is not None:
                cs = direct_callers(f_)
                if len({g_.qualname for g_, _ in cs}) != 1 or not all(i_ for _, i_ in cs):
                    return f_
                g_ = cs[0][0]
                if g_ is stop_at or g_ is self.call or g_ is self.init or g_.qualname in seen_ or not g_.name.startswith('_') or g_.name.startswith('__'):
                    return f_
                seen_.add(g_.qualname)
                f_ = g_
            return f_
        if self.process is not None:
            self.process = lift(self.process, None)
        if self.assemble is not None and self.dispatch is not None:
            lifted = lift(self.assemble, None)
            if lifted is not self.assemble:
                # the dispatcher is the method that runs the (lifted) assembler; if lifting reached it, step back
                chain = [self.assemble]
                f_ = self.assemble
                while f_ is not lifted:
                    f_ = direct_callers(f_)[0][0]
                    chain.append(f_)
                # the assembler is the highest method of the chain that returns the batch list (a local born as a list display)
                def returns_list(f_):
                    g_ = build(f_, p, inline_methods=True)
                    for n_ in g_.nodes:
                        if n_.kind == 'return' and isinstance(n_.ast.value, ast.Name) and not n_.meta.get('inlined'):
                            if any(isinstance(d.meta.get('value'), ast.List) for d in g_.nodes if d.kind == 'store_name' and d.meta['name'] == n_.ast.value.id):
                                return True
                    return False
                pick = next((f_ for f_ in reversed(chain) if returns_list(f_)), None)
                if pick is not None and pick is not self.assemble:
                    self.assemble = pick
                    self.dispatch = None
                    for f_ in meths_:
                        if any(isinstance(x, ast.Call) and self_attr(x.func) == pick.name for x in own_nodes(f_.node)) and f_ is not pick:
                            self.dispatch = f_
        if self.ret is not None:
            # the retention cache only ever receives futures: a value read from it is not None
            from ..paths import nonnull_expr
            st_ = [n for f in [s for s in u.functions() if s.enclosing_class() is cls] for n in build(f, p).nodes
                   if n.kind == 'store_sub' and sattr(build(f, p), n.ast.value) == self.ret]
            if st_ and all(n.meta.get('value') is not None and (nonnull_expr(gc, n.meta['value']) or (
                    isinstance(n.meta['value'], ast.Name) and all(
                        d is not None and d.meta.get('value') is not None and nonnull_expr(gc, d.meta['value'])
                        for d in (__import__('sa.dataflow', fromlist=['rdefs']).rdefs(gc).reaching(n, n.meta['value'].id) or [None]))))
                           for n in st_ if n in gc.nodes):
                gc.__dict__['nonnull_tables'] = {f'self.{self.ret}'}
                gc.__dict__.pop('_envs_at', None)
        missing = [k for k in ('workq', 'ret', 'process', 'assemble', 'dispatch') if getattr(self, k) is None]
        if missing:
            raise AnalysisError(f'batcher roles not found: {missing}')
        self.gproc = build(self.process, p, inline_methods=True, inline_module_helpers=True)
        self.gasm = build(self.assemble, p, inline_methods=True, inline_module_helpers=True)
        self.gdisp = build(self.dispatch, p, inline_methods=True, inline_module_helpers=True)
        # in PROCESS: BATCHCALL loop, BATCHFUTS dict
        g = self.gproc
        self.batchcall = next(n for n in g.nodes if n.kind == 'for_iter' and _batch_iter_call(g, n)[0] is not None)
        bc_, self.batch_wrapper = _batch_iter_call(g, self.batchcall)
        self.batchcall_iter = self.batchcall.ast.iter if isinstance(self.batchcall.ast.iter, ast.Call) and self.batch_wrapper is None \
            else bc_ if self.batch_wrapper is not None else resolve(g, self.batchcall, self.batchcall.ast.iter, depth=1)
        self.func_calls = [n for n in g.nodes if n.kind == 'call' and (self_attr(n.ast.func) == 'func' or self_attr(resolve(g, n, n.ast.func)) == 'func')]
        tgt = self.batchcall.ast.target
        self.kvar = self.rvar = None
        if isinstance(tgt, ast.Tuple) and len(tgt.elts) == 2 and all(isinstance(e, ast.Name) for e in tgt.elts):
            self.kvar, self.rvar = tgt.elts[0].id, tgt.elts[1].id
        self.tasks_param = self.process.params[1] if len(self.process.params) > 1 else None
        self.batchfuts = None
        self.batchfuts_expr = None
        self.args_var = None
        for n in g.nodes:
            if n.kind == 'store_name' and isinstance(n.meta.get('value'), ast.DictComp):
                self.batchfuts, self.batchfuts_expr = n.meta['name'], n.meta['value']
        a0 = self.batchcall_iter.args[0] if self.batchcall_iter.args else None
        if isinstance(a0, ast.Name):
            self.args_var = a0.id
        self.completes = [n for n in g.nodes if n.kind == 'call' and isinstance(n.ast.func, ast.Attribute)
                          and n.ast.func.attr in ('set_result', 'set_exception')]

    def publish(self, ctx: Ctx) -> None:
        ctx.extra['roles'] = {'class': self.cls.qualname, 'WORKQ': self.workq, 'RET': self.ret, 'SEM': self.sem,
                              'PROCESS': self.process.qualname, 'ASSEMBLE': self.assemble.qualname,
                              'DISPATCH': self.dispatch.qualname, 'BATCHFUTS': self.batchfuts,
                              'key/result vars': [self.kvar, self.rvar]}


def _batch_iter_call(g, n):
    """The `self.func(...)` call whose value the async for at node *n* iterates, and how it got there: (call, None) when the
    loop iterates the call's value itself (directly or through locals); (call, wrapper expression) when the loop iterates a
    name bound by `async with WRAP(self.func(...)) as name`."""
    it = resolve(g, n, n.ast.iter)
    if isinstance(it, ast.Call) and self_attr(it.func) == 'func' and n.meta.get('is_async'):
        return it, None
    if not n.meta.get('is_async'):
        # a plain `for` over the results collected first: `results = [kr async for kr in self.func(args)]`
        if isinstance(it, ast.ListComp) and len(it.generators) == 1 and it.generators[0].is_async and not it.generators[0].ifs \
                and isinstance(it.generators[0].iter, ast.Call) and self_attr(it.generators[0].iter.func) == 'func':
            return it.generators[0].iter, it
        return None, None
    if isinstance(it, ast.Name):
        for w in ast.walk(g.scope.node):
            if isinstance(w, (ast.With, ast.AsyncWith)):
                for item in w.items:
                    if isinstance(item.optional_vars, ast.Name) and item.optional_vars.id == it.id:
                        inner = [x for x in ast.walk(item.context_expr) if isinstance(x, ast.Call) and self_attr(x.func) == 'func']
                        if inner and item.context_expr is not inner[0]:
                            return inner[0], item.context_expr
    return None, None


def _future_vars(r: 'BatcherRoles') -> Set[str]:
    """Locals of __call__ that (may) hold a future registered in the retention cache."""
    gc = r.gcall
    out: Set[str] = set()
    for n in gc.nodes:
        if n.kind != 'store_name':
            continue
        v = n.meta.get('value')
        st = n.meta.get('stmt')
        if v is None:
            continue
        rv = resolve(gc, n, v)
        txt_nodes = list(ast.walk(rv)) if rv is not None else []
        reads_ret = any(sattr(gc, x) == r.ret for x in txt_nodes if isinstance(x, (ast.Attribute, ast.Name)))
        makes = any(isinstance(x, ast.Attribute) and x.attr == 'create_future' for x in txt_nodes)
        stored = isinstance(st, ast.Assign) and any(isinstance(t, ast.Subscript) and sattr(gc, t.value) == r.ret for t in st.targets)
        if reads_ret or stored:
            out.add(n.meta['name'])
        elif makes:
            # a created future counts once it is stored in the cache under some name
            nm = n.meta['name']
            if any(x.kind == 'store_sub' and sattr(gc, x.ast.value) == r.ret and isinstance(x.meta.get('value'), ast.Name)
                   and x.meta['value'].id == nm for x in gc.nodes):
                out.add(nm)
    return out


def option_read(g: CFG, n: Node, e: Optional[ast.AST], attr: str) -> bool:
    """Is *e* at node *n* a *fresh* read of the public option `self.<attr>`: the attribute itself, or a local
    assigned from it with no suspension point between that assignment and *n* (the option may be changed by the
    user while the coroutine is suspended: a value read before an await is a different thing, cf. seeded C10-1)?"""
    from ..dataflow import rdefs, def_value
    from ..paths import no_suspension
    if e is None:
        return False
    if self_attr(e) == attr:
        return True
    if isinstance(e, ast.Name):
        ds = rdefs(g).reaching(n, e.id)
        if not ds or any(d is None for d in ds):
            return False
        for d in ds:
            v = def_value(g, d)
            if v is None or self_attr(v) != attr:
                return False
            if any(x.suspends for x in [d]) or no_suspension(g, [d], [n]) is not None:
                return False
        return True
    return False


def is_shared_future(r: 'BatcherRoles', n: Node, e: ast.AST) -> bool:
    """Does *e* at node *n* (in __call__) denote a future registered in the retention cache: a read of the cache
    (`RET[k]`, `RET.get(k)`), a future created by this call and stored there, or a local that can only hold such values?"""
    from ..dataflow import leaves
    gc = r.gcall
    names = _future_vars(r)
    if isinstance(e, ast.Name) and e.id in names:
        return True
    stored_pos = set()
    for x in gc.nodes:
        if x.kind == 'store_sub' and sattr(gc, x.ast.value) == r.ret and x.meta.get('value') is not None:
            for lf in leaves(gc, x, x.meta['value']):
                stored_pos.add((getattr(lf, 'lineno', None), getattr(lf, 'col_offset', None), norm(lf)))
        st_ = x.meta.get('stmt') if x.kind == 'store_sub' else None
        if isinstance(st_, ast.Assign) and st_.value is not None and sattr(gc, x.ast.value) == r.ret:
            stored_pos.add((getattr(st_.value, 'lineno', None), getattr(st_.value, 'col_offset', None), norm(st_.value)))
    lfs = leaves(gc, n, e)
    if not lfs:
        return False
    for lf in lfs:
        if isinstance(lf, ast.Subscript) and sattr(gc, lf.value) == r.ret:
            continue
        if isinstance(lf, ast.Call) and isinstance(lf.func, ast.Attribute) and lf.func.attr == 'get' and sattr(gc, lf.func.value) == r.ret:
            continue
        if (getattr(lf, 'lineno', None), getattr(lf, 'col_offset', None), norm(lf)) in stored_pos:
            continue
        if isinstance(lf, ast.Name) and lf.id in names:
            continue
        return False
    return True


def _elem_pos(target: ast.AST, e: ast.AST) -> Optional[int]:
    """Index of the entry field that *e* selects, for a comprehension / loop target that is either a tuple of
    names (`for k, a, f in tasks`: `k` -> 0) or a single name (`for t in tasks`: `t[0]` -> 0)."""
    if isinstance(target, ast.Tuple) and isinstance(e, ast.Name):
        names = [x.id if isinstance(x, ast.Name) else None for x in target.elts]
        return names.index(e.id) if e.id in names else None
    if isinstance(target, ast.Name) and isinstance(e, ast.Subscript) and isinstance(e.value, ast.Name) and e.value.id == target.id \
            and isinstance(e.slice, ast.Constant) and isinstance(e.slice.value, int):
        return e.slice.value
    return None


def _entry_positions(r: 'BatcherRoles') -> Tuple[Optional[int], Optional[int]]:
    """(index of the key, index of the future) in the tuple that __call__ puts on the work queue."""
    gc = r.gcall
    futs = _future_vars(r)
    kparam = r.call.params[2] if len(r.call.params) > 2 else None
    for n in gc.nodes:
        if n.kind == 'call' and isinstance(n.ast.func, ast.Attribute) and n.ast.func.attr in ('put', 'put_nowait') \
                and sattr(gc, n.ast.func.value) == r.workq and n.ast.args:
            a = resolve(gc, n, n.ast.args[0], keep=tuple(futs) + ((kparam,) if kparam else ()))
            if isinstance(a, ast.Tuple):
                kp = fp = None
                for i, el in enumerate(a.elts):
                    if isinstance(el, ast.Name) and el.id in futs:
                        fp = i
                    elif isinstance(el, ast.Name) and el.id == kparam:
                        kp = i
                return kp, fp
    return None, None


def _in_body(g: CFG, head: Node) -> List[Node]:
    return [n for n in g.nodes if head.ast in n.loops]


def _sweeps(r: BatcherRoles) -> List[Tuple[Node, List[Node]]]:
    """for-loops over BATCHFUTS.values()/items() whose body completes the loop's future with an exception."""
    g = r.gproc
    out = []
    for n in g.nodes:
        if n.kind == 'for_iter' and not n.meta.get('is_async'):
            it = n.ast.iter
            if isinstance(it, ast.Call) and isinstance(it.func, ast.Attribute) and it.func.attr in ('values', 'items') \
                    and isinstance(it.func.value, ast.Name) and it.func.value.id == r.batchfuts:
                tnames = {x.id for x in ast.walk(n.ast.target) if isinstance(x, ast.Name)}
                comps = [c for c in _in_body(g, n) if c in r.completes and c.ast.func.attr == 'set_exception'
                         and isinstance(c.ast.func.value, ast.Name) and c.ast.func.value.id in tnames]
                if comps:
                    out.append((n, comps))
    return out


def _not_ise(e: Edge) -> bool:
    """C04's fault model has no cancelled futures: completion cannot raise InvalidStateError."""
    return not (e.label == 'exc' and e.classes is not None and set(e.classes) <= {'InvalidStateError'})


# ---------------------------------------------------------------------------
# C04
# ---------------------------------------------------------------------------

def _rule_who_completes(ctx: Ctx, r: 'BatcherRoles', rule: str) -> None:
    """Who may answer a caller: `set_result` / `set_exception` / `cancel` on a future happen in the batch task (and the helpers
    it runs) only.  A second place that completes futures - a done-callback failing "whatever is still pending" in the retention
    cache, a watchdog - answers callers of *other* batches with an outcome their batch function never produced."""
    meths = [s_ for s_ in r.u.functions() if s_.enclosing_class() is r.cls and s_.enclosing_function() is None]
    byname = {m.name: m for m in meths}
    allowed = {r.process.name}
    grew = True
    while grew:
        grew = False
        for nm in list(allowed):
            m = byname.get(nm)
            if m is None:
                continue
            for x in ast.walk(m.node):
                if isinstance(x, ast.Call) and self_attr(x.func) in byname and self_attr(x.func) not in allowed:
                    allowed.add(self_attr(x.func))
                    grew = True
    n_sites = 0
    bad = []
    for m in meths:
        for x in ast.walk(m.node):
            if isinstance(x, ast.Call) and isinstance(x.func, ast.Attribute) and x.func.attr in ('set_result', 'set_exception'):
                n_sites += 1
                if m.name not in allowed:
                    bad.append((m, x))
    for m, x in bad:
        ctx.violation(rule, f'{m.qualname}: {norm(x)[:70]}', f'{FILE}:{x.lineno}',
                      'a caller future is completed outside the batch task: callers of other batches (everything still pending in the cache) '
                      'receive an outcome their own batch never produced', construct=construct_key(m.qualname, 'completes futures', x.func.attr))
    if not bad:
        ctx.holds(rule, f'{n_sites} completion site(s), all in {sorted(allowed)}', f'{FILE}:{r.process.lineno}', examined=max(1, n_sites))
    # ... nobody in the batcher cancels a task or a future (a batch task that is cancelled leaves through CancelledError, past the
    # fan-out handler: the callers of that batch are never answered), and nobody but __call__ touches the retention cache (an
    # eviction by key elsewhere can hit the entry a later caller of that key has just registered)
    core_ = {r.call.name, r.process.name, r.assemble.name, r.dispatch.name, r.init.name}
    grew = True
    while grew:
        grew = False
        for nm in list(core_):
            m0 = byname.get(nm)
            if m0 is None:
                continue
            for x in ast.walk(m0.node):
                if isinstance(x, ast.Attribute) and isinstance(x.value, ast.Name) and x.value.id == 'self' and x.attr in byname and x.attr not in core_:
                    core_.add(x.attr)
                    grew = True
    for m in meths:
        if m.name not in core_:
            continue        # (a new public `close()` that cancels the dispatcher is an addition for its own callers to judge)
        for x in ast.walk(m.node):
            if isinstance(x, ast.Call) and isinstance(x.func, ast.Attribute) and x.func.attr == 'cancel' and not x.args:
                ctx.violation(rule, f'{m.qualname}: {norm(x)[:60]}', f'{FILE}:{x.lineno}',
                              'the batcher cancels a task / future itself: a cancelled batch task skips the `except Exception` fan-out, so the callers '
                              'of whatever batch that task was working on wait for ever', construct=construct_key(m.qualname, 'cancels', norm(x.func.value)))
    if r.ret:
        call_side = {r.call.name}
        grew = True
        while grew:
            grew = False
            for nm in list(call_side):
                m0 = byname.get(nm)
                if m0 is None:
                    continue
                for x in ast.walk(m0.node):
                    # helpers __call__ runs, and bound methods it hands to call_later
                    if isinstance(x, ast.Attribute) and isinstance(x.value, ast.Name) and x.value.id == 'self' and x.attr in byname and x.attr not in call_side:
                        call_side.add(x.attr)
                        grew = True
        for m in meths:
            if m is r.init:
                continue
            if m.name in call_side:
                for x in ast.walk(m.node):
                    if isinstance(x, ast.Attribute) and isinstance(x.ctx, (ast.Store, ast.Del)) and self_attr(x) == r.ret:
                        ctx.violation(rule, f'{m.qualname}: {norm(x)} is re-bound', f'{FILE}:{x.lineno}',
                                      'the retention cache object is replaced while eviction timers hold the old object\'s bound `pop`',
                                      construct=construct_key(m.qualname, 'retention cache re-bound'))
                continue
            for x in ast.walk(m.node):
                hit = None
                if isinstance(x, ast.Call) and isinstance(x.func, ast.Attribute) and self_attr(x.func.value) == r.ret \
                        and x.func.attr in ('pop', 'popitem', 'clear', 'update', 'setdefault', '__setitem__', '__delitem__'):
                    hit = x
                elif isinstance(x, ast.Subscript) and isinstance(x.ctx, (ast.Store, ast.Del)) and self_attr(x.value) == r.ret:
                    hit = x
                elif isinstance(x, ast.Attribute) and isinstance(x.ctx, (ast.Store, ast.Del)) and self_attr(x) == r.ret:
                    hit = x         # the attribute itself is re-bound (`self._cache = dict(self._cache)`): pending call_later(…, cache.pop, key)
                    #                 timers keep the bound method of the old dict, their keys are never evicted from the new one
                if hit is not None:
                    ctx.violation(rule, f'{m.qualname}: {norm(hit)[:60]} changes the retention cache', f'{FILE}:{hit.lineno}',
                                  'an entry is added or removed outside __call__: removal by key can take away the future a later caller has just '
                                  'registered under that key - that caller\'s own clean-up then fails (KeyError replaces its result) or the key is computed twice',
                                  construct=construct_key(m.qualname, 'retention cache changed outside __call__'))


def _rule_iterable_use(ctx: Ctx, r: 'BatcherRoles', rule: str) -> None:
    g = r.gproc
    ctx.rule(rule, 'the value the batch function returns is only iterated by the delivery loop, result by result (it is an AsyncIterable, nothing more is promised; nothing is held back)', 1)
    # who may touch the batch function's return value: the delivery loop's `async for` and nothing else - a finaliser
    # (`aclosing(...)`, `.aclose()`), `anext`, `.asend` ... need an async *generator* and fail with AttributeError /
    # TypeError on a plain AsyncIterable, and that error replaces the batch function's outcome for the callers
    others_ = []
    for fc in r.func_calls:
        par_ = parent(fc.ast)
        if isinstance(par_, ast.Assign) and len(par_.targets) == 1 and isinstance(par_.targets[0], ast.Name):
            nm_ = par_.targets[0].id
            host_ = par_
            while host_ is not None and not isinstance(host_, (ast.FunctionDef, ast.AsyncFunctionDef)):
                host_ = parent(host_)
            uses_ = [x for x in ast.walk(host_ or r.process.node) if isinstance(x, ast.Name) and x.id == nm_ and isinstance(x.ctx, ast.Load)]
            others_ += [(fc, parent(x)) for x in uses_ if not (isinstance(parent(x), ast.AsyncFor) and parent(x).iter is x)]
        elif not (isinstance(par_, ast.AsyncFor) and par_.iter is fc.ast):
            others_.append((fc, par_))
    for fc, use_ in others_:
        if isinstance(use_, ast.comprehension):
            ctx.violation(rule, f'{norm(fc.ast)} is drained into a collection before anything is delivered', g.loc(fc),
                          'results are held back until the batch function is through: a caller whose result was yielded before the batch '
                          'function raised gets that exception instead of its value, and every caller stays pending (and cancellable) for '
                          'the whole batch', construct=construct_key(r.process.qualname, 'results buffered'))
            continue
        ctx.violation(rule, f'{norm(fc.ast)} is handed to {norm(use_)[:80]}', g.loc(fc),
                      'the batch function\'s return value is used as more than an AsyncIterable: with a plain async iterator (no aclose / asend) '
                      'the wrapper\'s own error replaces the outcome the callers should get',
                      construct=construct_key(r.process.qualname, 'batch iterable used otherwise', use_))
    if not others_:
        ctx.holds(rule, f'{len(r.func_calls)} call(s) of the batch function: the value is the iterable of the delivery loop only', g.loc(r.batchcall))


def c04(ctx: Ctx) -> None:
    r = BatcherRoles(ctx)
    from .common import rule_unbound
    rule_unbound(ctx, 'C04-U1', [s_ for s_ in r.u.functions() if s_.enclosing_class() is r.cls and s_.enclosing_function() is None], 'AsyncBackgroundBatcher')
    g = r.gproc
    ctx.trusted += ['asyncio.Future / Task scheduling', 'no caller is cancelled (cancellation is C09)']
    ctx.rule('C04-B1', 'the future completed with a yielded result is looked up in the per-batch dict with the yielded key of the same iteration', 2)
    ctx.rule('C04-B2', 'Exception instances are set as exceptions, everything else as results', 2)
    ctx.rule('C04-B3', 'an exception of the batch function reaches a sweep completing all remaining futures with it', 1)
    ctx.rule('C04-B4', 'after normal exhaustion every remaining future is completed with an exception', 1)
    ctx.rule('C04-B5', 'no path through the batch task leaves a future unanswered', 1)
    ctx.rule('C04-B6', 'an answered future is removed from the per-batch dict before the sweeps', 1)
    ctx.rule('C04-B7', 'callers await the future stored under their key', 1)
    ctx.rule('C04-B8', 'the dispatcher spawns the batch task, never awaits it and never returns; the semaphore is taken with async with', 3)
    ctx.rule('C04-B10', 'the futures callers share live in a strong dict owned by the batcher instance (= C11-R6)', 1)
    _rule_retention_store(ctx, r, 'C04-B10')
    _rule_iterable_use(ctx, r, 'C04-B11')
    from .common import rule_func_attr_is_param
    rule_func_attr_is_param(ctx, 'C04-B11', r.init, 'func', 'batch function')
    where = g.loc(r.batchcall)
    if r.kvar is None or r.batchfuts is None:
        ctx.violation('C04-B1', 'results are not matched through a per-batch key->future dict', where,
                      f'loop target {norm(r.batchcall.ast.target)}; dict {r.batchfuts}',
                      construct=construct_key(r.process.qualname, 'no key matching'))
        r.publish(ctx)
        return
    # BATCHFUTS maps each task's key to that task's future; args pairs key with argument
    dc = r.batchfuts_expr
    ok = False
    # positions of key and future in a queue entry, read off the enqueue site in __call__
    kpos, fpos = _entry_positions(r)
    if isinstance(dc, ast.DictComp) and len(dc.generators) == 1 and not dc.generators[0].ifs and kpos is not None:
        gen = dc.generators[0]
        if isinstance(gen.iter, ast.Name) and gen.iter.id == r.tasks_param:
            ok = _elem_pos(gen.target, dc.key) == kpos and _elem_pos(gen.target, dc.value) == fpos
    ctx.check('C04-B1', f'{r.batchfuts} = {norm(dc)}', where, ok,
              'maps the key of every task to the future of the same task',
              'the per-batch dict does not pair each key with its own future',
              construct=construct_key(r.process.qualname, 'batchfuts', dc))
    body = _in_body(g, r.batchcall)
    body_completes = [c for c in body if c in r.completes]
    for c in body_completes:
        v = resolve(g, c, c.ast.func.value, keep=(r.batchfuts,))
        good = False
        if isinstance(v, ast.Call) and isinstance(v.func, ast.Attribute) and v.func.attr in ('pop', 'get') \
                and isinstance(v.func.value, ast.Name) and v.func.value.id == r.batchfuts \
                and v.args and isinstance(v.args[0], ast.Name) and v.args[0].id == r.kvar:
            good = True
        if isinstance(v, ast.Subscript) and isinstance(v.value, ast.Name) and v.value.id == r.batchfuts \
                and isinstance(v.slice, ast.Name) and v.slice.id == r.kvar:
            good = True
        pay = resolve(g, c, c.ast.args[0]) if c.ast.args else None
        arg_ok = isinstance(pay, ast.Name) and pay.id == r.rvar
        ctx.check('C04-B1', f'{norm(c.ast)}', g.loc(c), good and bool(arg_ok),
                  f'receiver is {r.batchfuts}[<yielded key>] of this iteration, payload is the yielded result',
                  'a result is delivered to a future that is not the one registered under the yielded key '
                  '(positional / reordered matching hands values to the wrong caller)',
                  construct=construct_key(r.process.qualname, c.ast, 'matching'))
    if not body_completes:
        ctx.violation('C04-B1', 'no completion inside the result loop', where, construct=construct_key(r.process.qualname, 'no completion'))
    # B2
    isinst = [n for n in body if n.kind == 'branch'
              and norm(resolve(g, n, n.meta['test'], keep=(r.rvar,))) == f'isinstance({r.rvar}, Exception)']
    if not isinst:
        ctx.violation('C04-B2', 'no isinstance(result, Exception) branch', where,
                      'yielded Exception instances are returned as values (or values raised)',
                      construct=construct_key(r.process.qualname, 'no isinstance branch'))
    for b in isinst:
        for label, want, other in (('true', 'set_exception', 'set_result'), ('false', 'set_result', 'set_exception')):
            se = [e for e in g.succ[b.id] if e.label == label]
            stop = [r.batchcall]
            reached = reach(g, [], avoid=stop, start_edges=se)
            w_ = [c for c in body_completes if c.id in reached and c.ast.func.attr == want]
            o_ = [c for c in body_completes if c.id in reached and c.ast.func.attr == other]
            ctx.check('C04-B2', f'{label} edge of {norm(b.meta["test"])} -> {want}', g.loc(b), bool(w_) and not o_,
                      'correct completion kind', f'{label} edge reaches {[norm(c.ast) for c in o_] or "no completion"}',
                      construct=construct_key(r.process.qualname, 'isinstance', label, want))
    # B3
    sweeps = _sweeps(r)
    ee = [e for e in g.succ[r.batchcall.id] if e.label == 'exc'] + [e for c_ in r.func_calls for e in g.succ[c_.id] if e.label == 'exc']
    handlers = [n for n in g.nodes if n.kind == 'except' and 'Exception' in n.meta.get('classes', ())
                or (n.kind == 'except' and 'BaseException' in n.meta.get('classes', ()))]
    b3 = []
    for h in handlers:
        hname = h.meta.get('name')
        for s, comps in sweeps:
            if any(part == 'handler' and t is parent(h.ast) for t, part in s.trys) or s.id in reach(g, [h]):
                if any(c.ast.args and norm(resolve(g, c, c.ast.args[0])) == hname for c in comps):
                    b3.append((h, s))
    exc_ok = lambda e: _not_ise(e) and not (e.label == 'exc' and e.classes is not None and
                                            set(e.classes) <= {'CancelledError', 'BaseException', 'GeneratorExit'})
    w = must_pass(g, [], [g.exit, g.raise_exit], [s for _, s in b3],
                  start_edges=[e for e in ee if e.classes and ('Exception' in e.classes or 'BaseException' in e.classes)],
                  edge_ok=lambda e: _not_ise(e) and not (e.label == 'exc' and e.dst is g.raise_exit and not carries_exception(e.classes)))
    ctx.check('C04-B3', 'Exception edge of the batch call -> fan-out sweep with the caught exception', where,
              bool(b3) and w is None, 'raised to every caller of the batch still unanswered',
              'a failing batch function leaves the remaining callers unanswered (or answers them with something else)',
              witness=render(g, w), construct=construct_key(r.process.qualname, 'no fan-out'))
    # B4 / B5
    fe = [e for e in g.succ[r.batchcall.id] if e.label == 'false']
    def empty_test_false(e: Edge) -> bool:
        return e.src.kind == 'branch' and isinstance(e.src.meta['test'], ast.Name) and \
            e.src.meta['test'].id == r.batchfuts and e.label == 'false'
    w = find_path(g, [], [g.exit], avoid=[s for s, _ in sweeps], start_edges=fe,
                  edge_ok=lambda e: _not_ise(e) and not empty_test_false(e))
    ctx.check('C04-B4', 'normal exhaustion -> missing-key sweep (or the dict is empty)', where, w is None and bool(sweeps),
              'keys never yielded fail explicitly', 'a key the batch function never yields leaves its caller pending for ever',
              witness=render(g, w), construct=construct_key(r.process.qualname, 'no missing-key sweep'))
    w = find_path(g, [g.entry], [g.exit], avoid=[s for s, _ in sweeps],
                  edge_ok=lambda e: _not_ise(e) and not empty_test_false(e))
    esc = [e for n in g.nodes for e in g.succ[n.id] if e.dst is g.raise_exit and _not_ise(e)
           and carries_exception(set(e.classes or ()) - {'InvalidStateError'})]
    escw = None
    for e in esc:
        # an Exception-class escape after the futures were collected
        pth = find_path(g, [g.entry], [e.src], edge_ok=_not_ise)
        if pth is not None:
            escw = pth + [e]
            break
    # ... including failures the raise model does not draw as edges: a read of a local that may still be unbound
    # (the loop variable in the handler when the batch function failed before its first result), and calls that are
    # not known to be total before the protected region
    from ..dataflow import maybe_unbound_loads
    from ..model import TOTAL_CALLS
    fan_try = None
    for h, s_ in b3:
        fan_try = parent(h.ast)
    if escw is None:
        for n in g.nodes:
            if n.ast is None or n.kind in ('entry', 'exit', 'raise_exit') or n.meta.get('inlined'):
                continue
            ub = maybe_unbound_loads(g, n)
            if ub and find_path(g, [g.entry], [n], edge_ok=_not_ise) is not None:
                # harmless only if a sweep still follows on the exception... an UnboundLocalError here is not caught by
                # anything that fans out
                in_fan_body = fan_try is not None and any(t is fan_try and part == 'body' for t, part in n.trys)
                if not in_fan_body:
                    escw = (find_path(g, [g.entry], [n], edge_ok=_not_ise) or [])
                    ctx.violation('C04-B5', f'{norm(n.ast)[:70]} reads {ub} which may be unbound', g.loc(n),
                                  'UnboundLocalError outside the protected region (e.g. in the handler, before the fan-out, when the batch '
                                  'function failed before yielding anything): the batch task dies, no caller of the batch is answered',
                                  witness=render(g, escw), construct=construct_key(r.process.qualname, 'unbound read', sorted(ub)))
                    escw = None
                    break
        for n in g.nodes:
            if n.kind != 'call' or n.meta.get('inlined'):
                continue
            before_try = fan_try is not None and not any(t is fan_try for t, part in n.trys) and not n.trys
            if not before_try:
                continue
            cn = call_name(g, n.ast) or ''
            total = cn in TOTAL_CALLS or cn.startswith('logging.') or (isinstance(n.ast.func, ast.Attribute) and n.ast.func.attr in (
                'debug', 'info', 'warning', 'error', 'exception', 'critical', 'log', 'items', 'keys', 'values', 'get', 'copy', 'append'))
            if total or find_path(g, [g.entry], [n], edge_ok=_not_ise) is None:
                continue
            # reached before the protected region?
            if any(find_path(g, [n], [x], edge_ok=_not_ise) is not None for x in g.nodes if fan_try is not None and x.kind == 'call'
                   and any(t is fan_try and part == 'body' for t, part in x.trys)):
                ctx.violation('C04-B5', f'{norm(n.ast)[:70]} runs before the protected region', g.loc(n),
                              'a failure of this call (it is not known to be total, e.g. list.sort() comparing futures of duplicate keys) kills '
                              'the batch task before any future is answered', construct=construct_key(r.process.qualname, 'unprotected call', n.ast))
    ctx.check('C04-B5', 'every path entry -> exit passes a sweep or leaves the dict empty; no Exception escapes', where,
              w is None and escw is None, 'pending -> swept on all normal and exc:Exception paths',
              'a path through the batch task skips both sweeps' if w is not None else 'an Exception escapes the batch task before the futures are answered',
              witness=render(g, w or escw), construct=construct_key(r.process.qualname, 'unanswered path'))
    if any(e.classes and set(e.classes) & {'CancelledError', 'BaseException', 'NonException'} for n in g.nodes for e in g.succ[n.id] if e.dst is g.raise_exit):
        ctx.note('BaseException/CancelledError can leave the batch task without a sweep: this is loop shutdown, callers are cancelled with it')
    # B6
    pops = [n for n in body if n.kind == 'call' and isinstance(n.ast.func, ast.Attribute) and n.ast.func.attr == 'pop'
            and isinstance(n.ast.func.value, ast.Name) and n.ast.func.value.id == r.batchfuts]
    dels = [n for n in body if n.kind == 'del_sub' and isinstance(n.ast.value, ast.Name) and n.ast.value.id == r.batchfuts]
    # ... and a future taken out of the dict is answered there and then: once it has left the dict no sweep will reach it, so a
    # path that skips the completion (`if key in self._abandoned: continue`) leaves its caller - and whoever shares the key -
    # pending for ever.  Only the future's own state (done() / cancelled()) may excuse the completion.
    def _done_edge(e: Edge) -> bool:
        t = e.src.meta.get('test') if e.src.kind == 'branch' else None
        if t is None:
            return False
        neg = False
        while isinstance(t, ast.UnaryOp) and isinstance(t.op, ast.Not):
            t, neg = t.operand, not neg
        if isinstance(t, ast.Call) and isinstance(t.func, ast.Attribute) and t.func.attr in ('done', 'cancelled') and not t.args:
            return e.label == ('false' if neg else 'true')
        return False
    for pp in pops:
        st_ = [e for e in g.succ[pp.id] if e.label != 'exc']
        wpop = must_pass(g, [], [r.batchcall, g.exit], body_completes, start_edges=st_, edge_ok=lambda e: e.label != 'exc' and not _done_edge(e))
        ctx.check('C04-B5', f'{norm(pp.ast)}: the future taken out of the dict is completed in the same iteration', g.loc(pp), wpop is None,
                  'popped -> completed (unless already done)', 'a future leaves the per-batch dict without being answered: no sweep can reach it any '
                  'more, its caller waits for ever', witness=render(g, wpop), construct=construct_key(r.process.qualname, 'popped unanswered'))
    ctx.check('C04-B6', f'answered futures leave {r.batchfuts}: {[norm(x.ast) for x in pops + dels]}', where, bool(pops or dels),
              'pop/del before the sweeps', 'answered futures stay in the dict: the sweeps complete them a second time',
              construct=construct_key(r.process.qualname, 'answered stays'))
    # B7
    gc = r.gcall
    rets = [n for n in gc.nodes if n.kind == 'return']
    futvars = _future_vars(r)
    from ..dataflow import leaves as _lv
    for n in rets:
        v = n.ast.value
        ok = False
        if v is not None:
            vals = _lv(gc, n, v)
            ok = bool(vals)
            for lf in vals:
                inner = lf.value if isinstance(lf, ast.Await) else None
                if isinstance(inner, ast.Call) and call_name(gc, inner) == 'asyncio.shield' and inner.args:
                    inner = inner.args[0]
                # the node at which the awaited expression is evaluated: the await node with that position, else the return
                at = next((x for x in gc.nodes if x.kind == 'await' and (x.ast.lineno, x.ast.col_offset) == (getattr(lf, 'lineno', -1), getattr(lf, 'col_offset', -1))), n)
                ok = ok and inner is not None and is_shared_future(r, at, inner)
        ctx.check('C04-B7', f'return {norm(v)}', gc.loc(n), ok, 'awaits the future registered under the call\'s key',
                  'a caller does not await its key\'s future', construct=construct_key(r.call.qualname, n.ast))
    # B8
    _rule_dispatch(ctx, r, 'C04-B8')
    # B9: B5's typestate argument assumes a batch never carries a key twice (the per-batch dict would
    # silently drop one future): discharged by the lookup-or-create obligations of C11
    ctx.rule('C04-B9', 'a batch never carries a key twice: atomic lookup-or-create, miss-only enqueue, sharers never evict (= C11-R1/R2/R4)', 3)
    _rule_eviction_tied_to_future(ctx, r, 'C04-B9')
    ctx.adopt(c11, {'C11-R1', 'C11-R2', 'C11-R4'}, 'C04-B9', 'a duplicated key loses a future in the per-batch dict: its caller is never answered')
    r.publish(ctx)


def _rule_retention_store(ctx: Ctx, r: BatcherRoles, rule: str) -> None:
    """The retention cache is a plain dict built per batcher in the constructor: it holds its futures strongly (a weak-valued
    mapping forgets a completed future as soon as nothing else refers to it - the window is silently ignored) and is not shared
    between batchers (a class attribute would let one batcher's caller join another batcher's future)."""
    v = r.attr_ctor.get(r.ret)
    where = f'{FILE}:{getattr(v, "lineno", r.init.lineno)}'
    kind = None
    if isinstance(v, ast.Dict):
        kind = 'dict display'
    elif isinstance(v, ast.Call):
        kind = Resolver(r.init).path(v.func) or norm(v.func)
    ok_kind = kind in ('dict display', 'builtins.dict', 'dict', 'collections.OrderedDict')
    if r.ret_shared:
        ctx.violation(rule, f'{r.cls.name}.{r.ret} = {norm(v)} in the class body', where,
                      'one retention cache for every batcher (also the per-loop batchers of the decorator): a call on one batcher joins the '
                      'future of another batcher\'s request with the same key and receives its value',
                      construct=construct_key(r.cls.qualname, 'retention cache shared'))
    elif kind in ('weakref.WeakValueDictionary', 'weakref.WeakKeyDictionary', 'weakref.WeakSet'):
        ctx.violation(rule, f'self.{r.ret} = {norm(v)}', where,
                      'the retention cache holds its futures weakly: once the batch that answered a request is dropped the entry vanishes and '
                      'retention_timeout is silently ignored', construct=construct_key(r.init.qualname, 'weak retention cache'))
    elif ok_kind:
        ctx.holds(rule, f'self.{r.ret} = {norm(v)}: a strong mapping of this batcher', where)
    else:
        # a mapping class of the package: a dict subclass that changes how entries are stored / removed (a size cap that drops the
        # oldest entry, tolerant deletes) decides on its own when a key stops being recognised - pending or not
        cls_ = None
        if isinstance(v, ast.Call) and isinstance(v.func, ast.Name):
            cls_ = next((c for uu in r.p.units.values() for c in uu.classes() if c.name == v.func.id), None)
        if cls_ is not None:
            over = sorted(m.name for m in cls_.children if m.kind == 'function' and m.name in (
                '__setitem__', '__delitem__', 'pop', 'popitem', 'setdefault', 'update', 'clear', '__getitem__', 'get', '__contains__', '__missing__'))
            bases = [dotted(b.value if isinstance(b, ast.Subscript) else b) or '' for b in cls_.node.bases]
            if over or not any(b.split('.')[-1] in ('dict', 'Dict', 'OrderedDict') for b in bases):
                ctx.violation(rule, f'self.{r.ret} = {norm(v)}: {cls_.name}({", ".join(bases)}) overrides {over}', where,
                              'the retention cache is a mapping with behaviour of its own (eviction by size, forgiving deletes ...): a key that is '
                              'still pending or inside its window can stop being recognised - the next call adds it to a batch again, the first '
                              'future is shadowed in the per-batch dict and its caller is never answered',
                              construct=construct_key(r.init.qualname, 'retention cache with its own policy', cls_.name))
            else:
                ctx.holds(rule, f'self.{r.ret} = {norm(v)}: a dict subclass that overrides no mapping operation', where)
        else:
            ctx.undecided(rule, f'self.{r.ret} = {norm(v) if v is not None else None}', where, 'unrecognised mapping type for the retention cache')


def _rule_dispatch(ctx: Ctx, r: BatcherRoles, rule: str) -> None:
    gd = r.gdisp
    def is_process_call(a) -> bool:
        return isinstance(a, ast.Call) and self_attr(a.func) == r.process.name
    spawn = [n for n in gd.nodes if n.kind == 'call' and any(is_process_call(resolve(gd, n, a)) for a in n.ast.args)
             and not is_process_call(n.ast)]
    awaited = [n for n in gd.nodes if n.kind == 'await' and isinstance(n.ast.value, ast.Call) and (
        is_process_call(n.ast.value) or any(n.ast.value is s.ast for s in spawn))]
    awaited += [n for n in gd.nodes if n.kind == 'inline_enter' and n.meta.get('name') == r.process.qualname]
    ctx.check(rule, f'dispatcher starts the batch task with {[norm(s.ast.func) for s in spawn]}', f'{FILE}:{r.dispatch.lineno}',
              bool(spawn) and not awaited, 'spawned, not awaited: a failing or slow batch cannot stop the dispatcher',
              'the dispatcher awaits the batch (batches are serialised; a failing batch kills the dispatcher)',
              construct=construct_key(r.dispatch.qualname, 'dispatch'))
    # ... and nobody else runs a batch: a batch awaited inside a caller's own task (a "batch of one" short-cut in __call__) dies
    # with that caller's cancellation - after the future was registered, before its clean-up - and strands the key
    others = []
    for f_ in r.p.all_functions():
        if f_ is r.dispatch:
            continue
        for x in ast.walk(f_.node):
            if isinstance(x, ast.Call) and self_attr(x.func) == r.process.name and f_.enclosing_class() is r.cls \
                    and isinstance(parent(x), ast.Await):          # (handed to a spawn by a helper of the dispatcher is the dispatcher's spawn)
                others.append((f_, x))
    for f_, x in others[:1]:
        ctx.violation(rule, f'{f_.qualname} runs {norm(x)[:60]} itself', f'{FILE}:{x.lineno}',
                      'a batch is run outside the dispatcher\'s fire-and-forget task: it shares the fate (cancellation, timeout) of whoever awaits it, '
                      'and the bookkeeping that follows the await is skipped when that caller is cancelled',
                      construct=construct_key(f_.qualname, 'batch run outside the dispatcher'))
    # ... nor supervises it: a task group (or `gather` / `wait` over the spawned tasks) ties the dispatcher's life to every
    # batch - the first child that raises cancels its siblings and ends the group, i.e. the dispatcher
    groups = [n for n in gd.nodes if n.kind in ('with_enter', 'call') and any(
        isinstance(x, (ast.Attribute, ast.Name)) and (gd.res.path(x) or '').split('.')[-1] in ('TaskGroup', 'create_task_group', 'Nursery')
        for x in ast.walk(n.ast))]
    for gp_ in groups[:1]:
        ctx.violation(rule, f'{norm(gp_.ast)[:60]} in the dispatcher', gd.loc(gp_),
                      'the batch tasks are children of a task group of the dispatcher: a batch that raises (a cancelled caller\'s future is enough) '
                      'cancels the other running batches and ends the dispatcher - their callers and every later caller are never answered',
                      construct=construct_key(r.dispatch.qualname, 'dispatcher supervises its batches'))
    # ... nor looks at its outcome: `.result()` / `.exception()` of a finished batch task re-raises, inside the dispatcher,
    # whatever ended that task (e.g. the InvalidStateError of a cancelled caller's future)
    peeks = [n for n in gd.nodes if n.kind == 'call' and isinstance(n.ast.func, ast.Attribute) and n.ast.func.attr == 'result' and not n.ast.args
             and not n.meta.get('inlined')]
    for pk in peeks:
        ee = [e for e in gd.succ[pk.id] if e.label == 'exc']
        wpk = find_path(gd, [], [gd.raise_exit], start_edges=ee) if ee else None
        ctx.check(rule, f'{norm(pk.ast)} in the dispatcher', gd.loc(pk), wpk is None,
                  'an exception stored in a task cannot leave the dispatcher', 'the outcome of a finished task is re-raised inside the dispatcher: '
                  'one batch that died (a cancelled caller is enough) ends the dispatcher - every later call is enqueued and never answered',
                  witness=render(gd, wpk), construct=construct_key(r.dispatch.qualname, 'dispatcher re-raises a task outcome'))
    heads = [n for n in gd.nodes if n.kind == 'loop_head']
    w = find_path(gd, [gd.entry], [gd.exit])
    ctx.check(rule, 'the dispatcher loop has no normal exit', f'{FILE}:{r.dispatch.lineno}', w is None and bool(heads),
              'it serves until it is cancelled', 'the dispatcher can return: every later call is enqueued and never answered',
              witness=render(gd, w), construct=construct_key(r.dispatch.qualname, 'dispatcher returns'))
    g = r.gproc
    sp = f'self.{r.sem}' if r.sem else None
    sem_with = [n for n in g.nodes if n.kind == 'with_enter' and n.meta.get('is_async') and sp and g.res.path(n.ast) == sp]
    # every manual acquire must be followed by a release on every path (incl. exception and cancellation edges),
    # and acquire/release must happen in the same coroutine
    leaks = []
    n_manual = 0
    for f in r.p.all_functions():
        gg = build(f, r.p)
        acq = [n for n in gg.nodes if n.kind == 'await' and isinstance(n.ast.value, ast.Call) and isinstance(n.ast.value.func, ast.Attribute)
               and n.ast.value.func.attr == 'acquire' and sp and gg.res.path(n.ast.value.func.value) == sp]
        rel = [n for n in gg.nodes if n.kind == 'call' and isinstance(n.ast.func, ast.Attribute) and n.ast.func.attr == 'release'
               and sp and gg.res.path(n.ast.func.value) == sp]
        n_manual += len(acq) + len(rel)
        if rel and not acq:
            leaks.append((gg, rel[0], None, 'release() without an acquire in the same coroutine'))
        for a in acq:
            starts = [e for e in gg.succ[a.id] if e.label != 'exc']
            w = must_pass(gg, [], [gg.exit, gg.raise_exit], rel, start_edges=starts)
            if w is not None or not rel:
                leaks.append((gg, a, w, 'a path from the acquire leaves without releasing the slot'))
    gg0, n0, w0, why0 = leaks[0] if leaks else (g, None, None, '')
    ctx.check(rule, f'semaphore slot is released on every path ({len(sem_with)} async-with site(s), {n_manual} manual acquire/release call(s))',
              gg0.loc(n0) if n0 is not None else f'{FILE}:{r.process.lineno}', (bool(sem_with) or n_manual > 0) and not leaks,
              'async with / acquire + try/finally release', why0 or 'the batch call is not inside the semaphore',
              witness=render(gg0, w0), construct=construct_key(r.process.qualname, 'semaphore usage'))


# ---------------------------------------------------------------------------
# C09
# ---------------------------------------------------------------------------

def _done_guarded(g: CFG, c: Node) -> bool:
    """Is completion node c control-dependent on `not f.done()` / `not f.cancelled()` of its receiver?"""
    recv = norm(c.ast.func.value)
    for b in g.nodes:
        if b.kind != 'branch':
            continue
        t = b.meta['test']
        if isinstance(t, ast.Call) and isinstance(t.func, ast.Attribute) and t.func.attr in ('done', 'cancelled') \
                and norm(t.func.value) == recv:
            # c must be unreachable without the false edge of b
            p = find_path(g, [g.entry], [c], edge_ok=lambda e, b=b: not (e.src is b and e.label == 'false'))
            if p is None:
                return True
    return False


def c09(ctx: Ctx) -> None:
    r = BatcherRoles(ctx)
    from .common import rule_unbound
    rule_unbound(ctx, 'C09-U1', [s_ for s_ in r.u.functions() if s_.enclosing_class() is r.cls and s_.enclosing_function() is None], 'AsyncBackgroundBatcher')
    gc, g = r.gcall, r.gproc
    ctx.trusted += ['Task.cancel() cancels the future the task is awaiting; asyncio.shield semantics']
    ctx.rule('C09-R1', 'every await of a future shared through the retention cache is behind a cancellation barrier (asyncio.shield / proxy)', 1)
    ctx.rule('C09-R2', 'every completion of a caller future is guarded by its state, or no await can cancel it (R1)', 3)
    ctx.rule('C09-R3', 'no completion that may raise lies inside the try whose handler fans the batch failure out, nor unprotected inside that handler', 1)
    ctx.rule('C09-R5', 'the dispatcher keeps serving (= C04-B8): spawns, never awaits, never returns', 3)
    # R6 (= C04-B11): a result held back keeps its caller pending, and cancellable, for the rest of the batch
    _rule_iterable_use(ctx, r, 'C09-R6')
    ctx.rule('C09-R7', 'caller futures are completed by the batch task (and the helpers it runs) only', 1)
    _rule_who_completes(ctx, r, 'C09-R7')
    # R1
    shared = _future_vars(r)
    r1_ok = True
    sites = 0
    _lk, _miss, hit_edges, _keys = table_lookups(gc, lambda e: sattr(gc, e) == r.ret)
    on_hit = reach(gc, [], start_edges=hit_edges)
    for n in gc.nodes:
        if n.kind != 'await':
            continue
        v = n.ast.value
        role = 'sharer (hit path)' if n.id in on_hit else 'original caller (miss path)'
        if isinstance(v, ast.Call) and call_name(gc, v) == 'asyncio.shield' and v.args and is_shared_future(r, n, v.args[0]):
            sites += 1
            ctx.holds('C09-R1', f'await {norm(v)}', gc.loc(n), 'shared future awaited behind shield')
        elif not isinstance(v, ast.Call) and is_shared_future(r, n, v):
            sites += 1
            r1_ok = False
            ctx.violation('C09-R1', f'await {norm(v)} (bare) by the {role}', gc.loc(n),
                          'cancelling or timing out this caller cancels the future it shares with every caller of the key '
                          '(and the batch later fails on it)', witness=[f'{gc.loc(n)} {norm(parent(n.ast))}'],
                          construct=construct_key('BATCHER.__call__', 'bare await of the shared future', role))
    for n in gc.nodes:
        if n.kind == 'call' and isinstance(n.ast.func, ast.Attribute) and n.ast.func.attr == 'cancel' \
                and isinstance(n.ast.func.value, ast.Name) and n.ast.func.value.id in shared:
            r1_ok = False
            ctx.violation('C09-R1', f'{norm(n.ast)} in __call__', gc.loc(n), 'a caller cancels the shared future itself',
                          construct=construct_key(r.call.qualname, n.ast))
    if sites == 0:
        ctx.undecided('C09-R1', 'no await of a shared future found in __call__', f'{FILE}:{r.call.lineno}', '')
    # R2
    for c in r.completes:
        guarded = _done_guarded(g, c)
        ctx.check('C09-R2', f'{norm(c.ast)}', g.loc(c), guarded or r1_ok,
                  'state-guarded' if guarded else 'no await can cancel the future (R1 holds)',
                  'set_result/set_exception on a future that a cancelled caller has cancelled raises InvalidStateError',
                  construct=construct_key('BATCHER.process_batch', norm_locals(c.ast, r.process, g), 'unguarded completion'))
    # R3
    fan_handlers = []
    for s, comps in _sweeps(r):
        for t, part in s.trys:
            if part == 'handler':
                fan_handlers.append((t, s, comps))
    for t, s, comps in fan_handlers:
        risky_body = [c for c in r.completes if any(tt is t and part == 'body' for tt, part in c.trys)
                      and not (_done_guarded(g, c) or r1_ok)]
        risky_handler = [c for c in comps if not (_done_guarded(g, c) or r1_ok)]
        ok = not risky_body and not risky_handler
        ctx.check('C09-R3', f'fan-out try at line {t.lineno}: raising completions in body {[c.line for c in risky_body]}, '
                            f'in handler {[c.line for c in risky_handler]}', f'{FILE}:{t.lineno}', ok,
                  'one caller\'s completion error cannot be mistaken for a batch failure',
                  'the InvalidStateError of one cancelled caller is handed to every unanswered bystander; a second cancelled '
                  'future met inside the handler kills the batch task and the remaining callers hang',
                  construct=construct_key('BATCHER.process_batch', 'completion errors fan out'))
    if not fan_handlers:
        ctx.holds('C09-R3', 'no fan-out handler encloses completions', f'{FILE}:{r.process.lineno}')
    ctx.rule('C09-R4', 'a future that outlives its caller (its await is shielded) keeps its cache entry until it is done', 1)
    _rule_eviction_tied_to_future(ctx, r, 'C09-R4')
    _rule_dispatch(ctx, r, 'C09-R5')
    r.publish(ctx)


def _rule_eviction_tied_to_future(ctx: Ctx, r, rule: str) -> None:
    """With a bare `await fut` the creator's cancellation cancels the future: what its `finally` evicts is finished.  Behind
    `shield` the future outlives a cancelled creator, stays in the queue and may have sharers - evicting its key then lets
    the next call for the key register a second future: two entries for one key in the queue (one batch answers only one of
    them), sharers of the first one are never answered.  So: on the cancellation edge of a shielded await of the shared future
    no eviction is reached unless a `done()` test of that future (or a done-callback) stands in between."""
    gc = build(r.call, r.p, inline_methods=True)
    shielded = [n for n in gc.nodes if n.kind == 'await' and isinstance(n.ast.value, ast.Call) and call_name(gc, n.ast.value) == 'asyncio.shield'
                and n.ast.value.args and is_shared_future(r, n, n.ast.value.args[0])]
    if not shielded:
        ctx.holds(rule, 'no shielded await of a shared future: a cancelled caller takes its future with it', f'{FILE}:{r.call.lineno}')
        return
    ret = r.ret
    evs = [n for n in gc.nodes if (n.kind == 'del_sub' and sattr(gc, n.ast.value) == ret)
           or (n.kind == 'call' and isinstance(n.ast.func, ast.Attribute) and n.ast.func.attr in ('pop', 'popitem', 'clear') and sattr(gc, n.ast.func.value) == ret)
           or (n.kind == 'call' and isinstance(n.ast.func, ast.Attribute) and n.ast.func.attr in ('call_later', 'call_soon', 'call_at')
               and any(isinstance(a_, ast.Attribute) and a_.attr == 'pop' and sattr(gc, a_.value) == ret for a_ in n.ast.args))]
    guards = [n for n in gc.nodes if n.kind == 'branch' and any(
        isinstance(x, ast.Call) and isinstance(x.func, ast.Attribute) and x.func.attr in ('done', 'cancelled') for x in ast.walk(n.meta['test']))]
    for sa_ in shielded:
        ee = [e for e in gc.succ[sa_.id] if e.label == 'exc' and e.classes and 'CancelledError' in e.classes]
        w = find_path(gc, [], evs, avoid=guards, start_edges=ee) if ee and evs else None
        ctx.check(rule, f'cancellation of {norm(sa_.ast)[:60]} does not evict a pending future', gc.loc(sa_), w is None,
                  'the entry stays until the future is done', 'the creator is cancelled, its shielded future lives on in the queue (and in its sharers), '
                  'but the key is evicted: the next call for the key registers a second future, a batch carrying both answers one, the sharers of the other wait for ever',
                  witness=render(gc, w), construct=construct_key('BATCHER.__call__', 'pending future evicted'))


# ---------------------------------------------------------------------------
# C10
# ---------------------------------------------------------------------------

def c10(ctx: Ctx) -> None:
    r = BatcherRoles(ctx)
    from .common import rule_unbound
    rule_unbound(ctx, 'C10-U1', [s_ for s_ in r.u.functions() if s_.enclosing_class() is r.cls and s_.enclosing_function() is None], 'AsyncBackgroundBatcher')
    g = r.gasm
    p = r.p
    ctx.trusted += ['asyncio.Queue FIFO order, asyncio.Semaphore, wait_for']
    ctx.rule('C10-R1', 'every growth of the batch list is preceded (since the previous growth) by the guard len(list) < max_batch_size; bulk growth is bounded by max_batch_size - len(list) with no suspension in between', 3)
    ctx.rule('C10-R2', 'every batch handed on is non-empty (the closed-loop `return []` is the one tabled exception)', 1)
    ctx.rule('C10-R3', 'the batch function is called only inside `async with <semaphore>`; the semaphore is built once from max_concurrent_batches', 2)
    ctx.rule('C10-R4', 'FIFO: asyncio.Queue, list only appended/extended, order-preserving argument list, a single assembler in a single dispatcher', 4)
    ctx.rule('C10-R5', 'the only bounded wait is wait_for(queue.get(), self.batch_timeout); its TimeoutError ends the batch; the first get is unbounded', 2)
    # list variable: local assigned a one-element list display containing an await of queue.get()
    births_all = [n for n in g.nodes if n.kind == 'store_name' and isinstance(n.meta.get('value'), ast.List)]
    births = [n for n in births_all if len(n.meta['value'].elts) == 1]
    # an empty display under the same name is the closed-loop result (`return []` spelled through the variable); R2 checks
    # that it is reached through the RuntimeError handler only
    # (the batch list is the one born holding the awaited first item; a list of another name is another list - and if *that* is
    # what the assembler hands on, the batch has been copied, filtered or reordered on the way: C10-R4 below)
    first_births = [n for n in births if any(isinstance(x, ast.Await) for x in ast.walk(n.meta['value']))] or births
    other_lists = [n for n in births_all if first_births and n.meta['name'] != first_births[0].meta['name']]
    births_all = [n for n in births_all if n not in other_lists]
    births = [n for n in births if n not in other_lists]
    empty_births = [n for n in births_all if not n.meta['value'].elts]
    if len(births) != 1 or any(len(n.meta['value'].elts) > 1 for n in births_all) or any(n.meta['name'] != births[0].meta['name'] for n in births_all):
        ctx.undecided('C10-R1', 'batch list birth', f'{FILE}:{r.assemble.lineno}', 'list is not born as a one-element display')
        r.publish(ctx)
        return
    birth = births[0]
    L = birth.meta['name']
    for rn_ in [n for n in g.nodes if n.kind == 'return' and n.ast.value is not None and not n.meta.get('inlined')]:
        rv_ = resolve(g, rn_, rn_.ast.value)
        okr_ = (isinstance(rv_, ast.Name) and rv_.id == L) or (isinstance(rv_, ast.List) and not rv_.elts) or isinstance(rv_, ast.List)
        if not okr_:
            from ..dataflow import leaves as _lv10
            lvs_ = _lv10(g, rn_, rn_.ast.value)
            okr_ = bool(lvs_) and all((isinstance(x, ast.Name) and x.id == L) or isinstance(x, ast.List) for x in lvs_)
        ctx.check('C10-R4', f'{r.assemble.name} hands on the list it assembled: return {norm(rn_.ast.value)[:50]}', g.loc(rn_), okr_,
                  f'the batch is `{L}` itself', f'what is handed on is not the assembled list `{L}` but something computed from it (a copy that drops, '
                  'defers or reorders entries): calls leave the batch they arrived in - arrival order across batches is lost, a deferred entry waits '
                  'for another batch window', construct=construct_key(r.assemble.qualname, 'batch list replaced'))
    maxattr = None
    def is_len_L(e):
        return isinstance(e, ast.Call) and isinstance(e.func, ast.Name) and e.func.id == 'len' and len(e.args) == 1 \
            and isinstance(e.args[0], ast.Name) and e.args[0].id == L
    def lin(e):
        """Linear form {atom: coefficient} (+ constant under key 1) of an integer expression over len(L), self.<attr>
        and integer literals; None if it is anything else."""
        if isinstance(e, ast.Constant) and isinstance(e.value, int) and not isinstance(e.value, bool):
            return {1: e.value}
        if is_len_L(e):
            return {'len': 1}
        if self_attr(e):
            return {'self.' + self_attr(e): 1}
        if isinstance(e, ast.UnaryOp) and isinstance(e.op, ast.USub):
            a = lin(e.operand)
            return None if a is None else {k: -v for k, v in a.items()}
        if isinstance(e, ast.BinOp) and isinstance(e.op, (ast.Add, ast.Sub)):
            a, b = lin(e.left), lin(e.right)
            if a is None or b is None:
                return None
            out = dict(a)
            for k, v in b.items():
                out[k] = out.get(k, 0) + (v if isinstance(e.op, ast.Add) else -v)
            return {k: v for k, v in out.items() if v != 0 or k == 1}
        return None

    def room_form(d):
        """(s, attr, c) when d == s * (len(L) - self.attr) + c with s = +1 / -1."""
        if d is None:
            return None
        attrs = [k for k in d if isinstance(k, str) and k.startswith('self.')]
        if len(attrs) != 1 or set(d) - {1, 'len', attrs[0]}:
            return None
        s_ = d.get('len', 0)
        if s_ not in (1, -1) or d[attrs[0]] != -s_:
            return None
        return s_, attrs[0][5:], d.get(1, 0)

    guards = []
    for n in g.nodes:
        if n.kind == 'branch' and isinstance(n.meta['test'], ast.Compare) and len(n.meta['test'].ops) == 1:
            t = resolve(g, n, n.meta['test'], keep=(L,))
            l, rr, op = t.left, t.comparators[0], t.ops[0]
            ll, lr = lin(l), lin(rr)
            d = None
            if ll is not None and lr is not None:
                d = dict(ll)
                for k, v in lr.items():
                    d[k] = d.get(k, 0) - v
                d = {k: v for k, v in d.items() if v != 0}
            rf = room_form(d)
            if rf is None:
                if (is_len_L(l) or is_len_L(rr)) and (self_attr(l) or self_attr(rr)):
                    ctx.violation('C10-R1', f'size guard {norm(t)}', g.loc(n),
                                  'the guard admits a growth when the list already holds max_batch_size items (off by one)',
                                  construct=construct_key(r.assemble.qualname, 'guard', t))
                continue
            s_, attr_, c_ = rf
            # with t = len(L) - self.attr the test is  s*t + c  <op>  0 ; one of its edges bounds t from above by K
            edge = K = None
            if s_ == 1:
                if isinstance(op, ast.Lt):
                    edge, K = 'true', -c_ - 1
                elif isinstance(op, ast.LtE):
                    edge, K = 'true', -c_
                elif isinstance(op, ast.Gt):
                    edge, K = 'false', -c_
                elif isinstance(op, ast.GtE):
                    edge, K = 'false', -c_ - 1
            else:
                if isinstance(op, ast.Lt):
                    edge, K = 'false', c_
                elif isinstance(op, ast.LtE):
                    edge, K = 'false', c_ - 1
                elif isinstance(op, ast.Gt):
                    edge, K = 'true', c_ - 1
                elif isinstance(op, ast.GtE):
                    edge, K = 'true', c_
            if edge is not None and K == -1:
                guards.append((n, edge, attr_))        # on this edge len(L) <= self.attr - 1
            else:
                ctx.violation('C10-R1', f'size guard {norm(t)}', g.loc(n),
                              'the guard admits a growth when the list already holds max_batch_size items (off by one)'
                              if K is None or K > -1 else 'the guard stops the batch before it holds max_batch_size items',
                              construct=construct_key(r.assemble.qualname, 'guard', t))
    from ..dataflow import unalias

    def _is_L(n, e):
        u_ = unalias(g, n, e)
        return isinstance(u_, ast.Name) and u_.id == L
    growths = [n for n in g.nodes if n.kind == 'call' and isinstance(n.ast.func, ast.Attribute)
               and _is_L(n, n.ast.func.value)
               and n.ast.func.attr in ('append', 'extend', 'insert', '__iadd__')]
    growths += [n for n in g.nodes if n.kind == 'store_name' and n.meta['name'] == L and n is not birth
                and not (n.meta.get('inlined_param') and isinstance(n.meta.get('value'), ast.Name) and n.meta['value'].id == L)]
    ctor_max = None
    if guards:
        maxattr = guards[0][2]
    guard_edge = lambda e: any(e.src is b and e.label == pol for b, pol, _ in guards)
    # bulk growth through a staging list (`ready = []; ready.extend(islice(it, limit)); ...; L.extend(ready)`, usually a
    # helper that returns `(ready, filled)`): the elements are taken where the staging list is filled - that node stands
    # for the growth when paths *from* a growth are followed (its exception edge is the queue running dry before the limit)
    staging: Dict[int, Tuple[Node, ast.AST]] = {}
    for gr in growths:
        if gr.kind == 'call' and gr.ast.func.attr == 'extend' and gr.ast.args:
            a0 = resolve(g, gr, gr.ast.args[0], keep=(L,))
            if isinstance(a0, ast.Name) and a0.id != L:
                R_ = a0.id
                births_ = [n for n in g.nodes if n.kind == 'store_name' and n.meta['name'] == R_]
                for _ in range(3):      # the list as returned by an inlined helper: `ready = ready_1` on each of its returns
                    vs_ = {n.meta['value'].id if isinstance(n.meta.get('value'), ast.Name) else None for n in births_}
                    if len(vs_) == 1 and None not in vs_:
                        R_ = vs_.pop()
                        births_ = [n for n in g.nodes if n.kind == 'store_name' and n.meta['name'] == R_]
                    else:
                        break
                fills_ = [n for n in g.nodes if n.kind == 'call' and isinstance(n.ast.func, ast.Attribute) and isinstance(n.ast.func.value, ast.Name)
                          and n.ast.func.value.id == R_ and n.ast.func.attr in ('append', 'extend', 'insert', '__iadd__')]
                fresh_ = len(births_) == 1 and isinstance(births_[0].meta.get('value'), ast.List) and not births_[0].meta['value'].elts
                if fresh_ and len(fills_) == 1 and fills_[0].ast.func.attr == 'extend' and fills_[0].ast.args:
                    src_ = resolve(g, fills_[0], fills_[0].ast.args[0], keep=(L,))
                    if isinstance(src_, ast.Call) and call_name(g, src_) == 'itertools.islice':
                        staging[gr.id] = (fills_[0], src_)
    for gr in growths:
        srcs = [birth] + [staging[x.id][0] if x.id in staging else x for x in growths]
        if gr.id in staging:
            # (its own staging node leads straight to it: one growth in two steps; through the loop it passes the guard)
            srcs = [s_ for s_ in srcs if s_ is not staging[gr.id][0]]
            own_ = staging[gr.id][0]
        # a path from the birth or from any growth to this growth that avoids every guard edge
        w = None
        for s in srcs:
            starts = [e for e in g.succ[s.id] if e.label != 'exc']
            w = w or find_path(g, [], [gr], start_edges=starts, edge_ok=lambda e: not guard_edge(e))
        ctx.check('C10-R1', f'growth {norm(gr.ast)[:80]} is dominated by the size guard since the last growth', g.loc(gr),
                  w is None and bool(guards), 'guard len(list) < max_batch_size on every path to this growth',
                  'the batch can grow without (re-)checking the size limit', witness=render(g, w),
                  construct=construct_key(r.assemble.qualname, 'unguarded growth', gr.ast))
        if gr.kind == 'call' and gr.ast.func.attr == 'extend':
            a = resolve(g, gr, gr.ast.args[0], keep=(L,)) if gr.ast.args else None
            if gr.id in staging:
                a = staging[gr.id][1]
            ok = False
            why = 'bulk growth is not an islice bounded by max_batch_size - len(list)'
            if isinstance(a, ast.Call) and call_name(g, a) == 'itertools.islice' and len(a.args) == 2:
                b = a.args[1]
                rf_ = room_form(lin(b))
                # the bound is (self.max - len(L)) + c with c <= 0
                ok = rf_ is not None and rf_[0] == -1 and rf_[1] == maxattr and rf_[2] <= 0
            ctx.check('C10-R1', f'bulk growth bound {norm(a)[:90] if a is not None else None}', g.loc(gr), ok,
                      'takes at most max_batch_size - len(list) items', why,
                      construct=construct_key(r.assemble.qualname, 'bulk bound', a))
            gb = [b for b, _, _ in guards]
            w = no_suspension(g, gb, [gr])
            ctx.check('C10-R1', 'no suspension between the guard and the bulk growth', g.loc(gr), w is None,
                      'guard and bound computation are atomic on the loop', 'the limit may change between guard and growth',
                      witness=render(g, w), construct=construct_key(r.assemble.qualname, 'suspension before bulk growth'))
        if gr.kind == 'call' and gr.ast.func.attr == 'append':
            susp = no_suspension(g, [b for b, _, _ in guards], [gr])
            if susp is not None:
                ctx.note('the single append is separated from its guard by the wait_for suspension: a concurrent reduction of '
                         'max_batch_size is honoured from the next batch on (judged not a violation of the statement)')
        if gr.kind == 'call' and gr.ast.func.attr not in ('append', 'extend'):
            ctx.violation('C10-R4', f'{norm(gr.ast)}', g.loc(gr), 'the batch list is grown other than at its end',
                          construct=construct_key(r.assemble.qualname, gr.ast))
    if not growths:
        ctx.violation('C10-R5', 'the batch never grows beyond its first item', f'{FILE}:{r.assemble.lineno}',
                      'batch_timeout is ignored: batches of one', construct=construct_key(r.assemble.qualname, 'no growth'))
    # R2
    shrink = [n for n in g.nodes if n.kind == 'call' and isinstance(n.ast.func, ast.Attribute) and isinstance(n.ast.func.value, ast.Name)
              and n.ast.func.value.id == L and n.ast.func.attr in ('pop', 'clear', 'remove')] + \
             [n for n in g.nodes if n.kind == 'del_sub' and isinstance(n.ast.value, ast.Name) and n.ast.value.id == L]
    for n in g.nodes:
        if n.kind != 'return':
            continue
        v = n.ast.value
        if n.meta.get('inlined'):
            continue        # the return of an inlined helper hands its value to the assembler, not to the dispatcher
        if isinstance(v, ast.Name) and v.id == L:
            ctx.check('C10-R2', f'return {L}', g.loc(n), not shrink, 'born with one element, only grows',
                      'items are removed from the batch list', construct=construct_key(r.assemble.qualname, 'list shrinks'))
            from ..dataflow import rdefs as _rd10
            for eb in empty_births:
                if any(d_ is eb for d_ in (_rd10(g).reaching(n, L) or [])):
                    hs = [x for x in g.nodes if x.kind == 'except' and 'RuntimeError' in x.meta.get('classes', ())]
                    w = must_pass(g, [g.entry], [eb], hs)
                    ctx.check('C10-R2', f'return {L} = [] (closed-loop branch)', g.loc(eb), w is None and bool(hs),
                              'reachable only through the RuntimeError handler of the first get: no task can be spawned on a closed loop, '
                              'so the batch function is not reached (tabled exception)',
                              'an empty batch can be handed to the batch function', witness=render(g, w),
                              construct=construct_key(r.assemble.qualname, 'empty batch'))
        elif isinstance(v, ast.List) and not v.elts:
            hs = [x for x in g.nodes if x.kind == 'except' and 'RuntimeError' in x.meta.get('classes', ())]
            w = must_pass(g, [g.entry], [n], hs)
            ctx.check('C10-R2', 'return [] (closed-loop branch)', g.loc(n), w is None and bool(hs),
                      'reachable only through the RuntimeError handler of the first get: no task can be spawned on a closed loop, '
                      'so the batch function is not reached (tabled exception)',
                      'an empty batch can be handed to the batch function', witness=render(g, w),
                      construct=construct_key(r.assemble.qualname, 'empty batch'))
        elif isinstance(v, ast.ListComp) and any(gen.ifs for gen in v.generators):
            ctx.violation('C10-R2', f'return {norm(v)}', g.loc(n), 'a filtered batch can be empty when handed on',
                          construct=construct_key(r.assemble.qualname, 'filtered batch'))
        else:
            ctx.undecided('C10-R2', f'return {norm(v) if v is not None else None}', g.loc(n), 'unrecognised batch value')
    gp = r.gproc
    def _same_name_binding(n_):
        return bool(n_.meta.get('inlined_param')) and isinstance(n_.meta.get('value'), ast.Name) and n_.meta['value'].id == n_.meta['name']
    argdefs = [n for n in gp.nodes if n.kind == 'store_name' and n.meta['name'] == r.args_var and not _same_name_binding(n)]
    def _plain_copy(n_):
        # `tasks = list(tasks)` / `tuple(tasks)`: the same entries in the same order
        v_ = n_.meta.get('value')
        return isinstance(v_, ast.Call) and isinstance(v_.func, ast.Name) and v_.func.id in ('list', 'tuple') and len(v_.args) == 1 and not v_.keywords \
            and isinstance(v_.args[0], ast.Name) and v_.args[0].id == r.tasks_param
    rebinds = [n for n in gp.nodes if n.kind == 'store_name' and n.meta['name'] == r.tasks_param and not _same_name_binding(n) and not _plain_copy(n)]
    for rb_ in rebinds:
        ctx.violation('C10-R2', f'{norm(rb_.meta.get("stmt") or rb_.ast)[:90]}', gp.loc(rb_),
                      'the batch is re-built (filtered) before it is handed to the batch function: it can become empty',
                      construct=construct_key(r.process.qualname, 'batch rebound'))
    for d in argdefs:
        v = d.meta.get('value')
        ok = isinstance(v, ast.ListComp) and len(v.generators) == 1 and not v.generators[0].ifs and \
            isinstance(v.generators[0].iter, ast.Name) and v.generators[0].iter.id == r.tasks_param
        ctx.check('C10-R4', f'{r.args_var} = {norm(v)}', gp.loc(d), ok,
                  'order-preserving, unfiltered comprehension over the batch', 'the argument list is filtered or reordered',
                  construct=construct_key(r.process.qualname, 'args', v))
    # R3
    calls_func = []
    for f in [s for s in r.u.functions() if s.enclosing_class() is r.cls or (
            s.enclosing_function() and s.enclosing_function().enclosing_class() is r.cls)]:
        gg = build(f, p)
        for n in gg.nodes:
            if n.kind == 'call' and (self_attr(n.ast.func) == 'func' or self_attr(resolve(gg, n, n.ast.func)) == 'func'):
                calls_func.append((gg, n))
    if r.sem is None:
        ctx.violation('C10-R3', 'no asyncio.Semaphore is constructed', f'{FILE}:{r.init.lineno}',
                      'nothing limits the number of concurrent executions of the batch function',
                      construct=construct_key(r.init.qualname, 'no semaphore'))
    for gg, n in calls_func:
        inside = r.sem is not None and f'self.{r.sem}' in held_locks(gg, [f'self.{r.sem}'])[n.id]
        ctx.check('C10-R3', f'{norm(n.ast)} in {gg.scope.qualname}', gg.loc(n), inside,
                  f'inside async with self.{r.sem}', 'the batch function runs outside the semaphore: unlimited concurrent batches',
                  construct=construct_key(gg.scope.qualname, n.ast, 'outside semaphore'))
    sem_writes = [(f, n) for f in p.all_functions() for n in build(f, p).nodes if n.kind == 'store_attr' and n.meta['attr'] == r.sem]
    v = r.attr_ctor.get(r.sem) if r.sem else None
    val = None
    if isinstance(v, ast.Call):
        val = v.args[0] if v.args else next((k.value for k in v.keywords if k.arg == 'value'), None)
    ok = len(sem_writes) == 1 and sem_writes[0][0] is r.init and isinstance(val, ast.Name) and val.id == 'max_concurrent_batches'
    ctx.check('C10-R3', f'self.{r.sem} = {norm(v)} (writers: {len(sem_writes)})', f'{FILE}:{r.init.lineno}', ok,
              'built once from max_concurrent_batches', 'the semaphore is not built from the option / is replaced',
              construct=construct_key(r.init.qualname, 'semaphore', v))
    # R4
    qk = Resolver(r.init).path(r.attr_ctor[r.workq].func)
    ctx.check('C10-R4', f'self.{r.workq} = {qk}', f'{FILE}:{r.init.lineno}', qk == 'asyncio.Queue',
              'FIFO queue', 'not a FIFO queue (LifoQueue / PriorityQueue reorder callers)',
              construct=construct_key(r.init.qualname, 'queue kind', qk))
    qmethods = set()
    for f in r.u.functions():
        if not (f.enclosing_class() is r.cls):
            continue
        gg = build(f, p)
        for n in gg.nodes:
            if n.kind == 'call' and isinstance(n.ast.func, ast.Attribute):
                rp = gg.res.path(n.ast.func.value)
                if rp == f'self.{r.workq}':
                    qmethods.add(n.ast.func.attr)
        for x in own_nodes(f.node):
            if isinstance(x, ast.Attribute) and Resolver(f).path(x.value) == f'self.{r.workq}' and not isinstance(parent(x), ast.Call):
                qmethods.add(x.attr)
    ctx.check('C10-R4', f'queue operations used: {sorted(qmethods)}', f'{FILE}:{r.cls.lineno}',
              qmethods <= {'put', 'get', 'get_nowait', 'put_nowait', 'qsize', 'empty'}, 'only FIFO put/get',
              f'unexpected queue operations {sorted(qmethods)}', construct=construct_key(r.cls.qualname, 'queue ops', sorted(qmethods)))
    # the options stay what the caller configured: no method of the batcher other than the constructor assigns an attribute the
    # constructor fills from a parameter (a `flush()` that sets batch_timeout to 0 "for the moment" and restores it afterwards is
    # not re-entrant - two overlapping calls leave the 0 behind)
    opt_attrs = {a_ for a_, v_ in r.attr_ctor.items() if isinstance(v_, ast.Name) and v_.id in r.init.params}
    n_ow = 0
    for m_ in [s_ for s_ in r.u.functions() if s_.enclosing_class() is r.cls and s_ is not r.init]:
        for x_ in own_nodes(m_.node):
            if isinstance(x_, (ast.Assign, ast.AnnAssign, ast.AugAssign)):
                tg_ = x_.targets if isinstance(x_, ast.Assign) else [x_.target]
                for t_ in tg_:
                    if isinstance(t_, ast.Attribute) and isinstance(t_.value, ast.Name) and t_.value.id == 'self' and t_.attr in opt_attrs \
                            and not any((dotted(d_) or '').endswith('.setter') for d_ in m_.decorators):
                        n_ow += 1
                        ctx.violation('C10-R5', f'{m_.qualname}: {norm(x_)[:60]}', f'{FILE}:{x_.lineno}',
                                      f'a method of the batcher overwrites the configured option `{t_.attr}`: whatever it is restored to later depends on '
                                      'what other calls of that method saw - the limits and timeouts the caller configured stop applying',
                                      construct=construct_key(m_.qualname, 'option overwritten', t_.attr))
    if not n_ow:
        ctx.holds('C10-R5', f'options {sorted(opt_attrs)} are assigned by the constructor only', f'{FILE}:{r.init.lineno}')
    # the batch list itself only grows at its end: `sort()` / `reverse()` / `insert()` / `pop()` ... reorder or drop calls (and a
    # sort of (key, arg, future) entries compares futures when a key and its argument repeat - TypeError in the dispatcher)
    lops = sorted({n.ast.func.attr for n in g.nodes if n.kind == 'call' and isinstance(n.ast.func, ast.Attribute)
                   and isinstance(resolve(g, n, n.ast.func.value, keep=(L,)), ast.Name) and resolve(g, n, n.ast.func.value, keep=(L,)).id == L})
    ctx.check('C10-R4', f'operations on the batch list `{L}`: {lops}', f'{FILE}:{r.assemble.lineno}',
              set(lops) <= {'append', 'extend', 'copy', '__len__', 'count', 'index'}, 'append / extend only: arrival order is batch order',
              f'the batch list is reordered or shrunk in place ({sorted(set(lops) - {"append", "extend", "copy", "__len__", "count", "index"})}): '
              'calls no longer appear in arrival order (and comparing whole entries can raise inside the dispatcher, which then dies)',
              construct=construct_key(r.assemble.qualname, 'batch list reordered', lops))
    asm_calls = []
    for f in p.all_functions():
        gg = build(f, p)
        for n in gg.nodes:
            if n.kind == 'call':
                info = n.meta.get('callee') or callee_info(gg, n.ast)
                if info['kind'] == 'package' and r.assemble in info.get('scopes', []):
                    asm_calls.append((gg, n))
    disp_spawns = []
    for f in p.all_functions():
        gg = build(f, p)
        for n in gg.nodes:
            if n.kind == 'call':
                info = n.meta.get('callee') or callee_info(gg, n.ast)
                if info['kind'] == 'package' and r.dispatch in info.get('scopes', []):
                    disp_spawns.append((gg, n))
    # (several call sites inside the one dispatcher coroutine, each awaited where it stands, run one after the other - a loop
    # rotated so that the next batch is taken at its bottom has two; what must not exist is a second *caller*)
    asm_hosts = {gg.scope.qualname for gg, _ in asm_calls}
    asm_awaited = all(isinstance(parent(n.ast), ast.Await) for _, n in asm_calls)
    ok = bool(asm_calls) and asm_hosts == {r.dispatch.qualname} and asm_awaited \
        and len(disp_spawns) == 1 and disp_spawns[0][0].scope is r.init and not disp_spawns[0][1].loops
    ctx.check('C10-R4', f'{len(asm_calls)} assembler call site(s); dispatcher started at {[gg.scope.qualname for gg, _ in disp_spawns]}',
              f'{FILE}:{r.dispatch.lineno}', ok, 'one assembler in one dispatcher started once by the constructor',
              'two assemblers would interleave their dequeues', construct=construct_key(r.cls.qualname, 'assemblers', len(asm_calls), len(disp_spawns)))
    # R5
    waits = [n for n in g.nodes if n.kind == 'await']
    bounded = [n for n in waits if isinstance(n.ast.value, ast.Call) and call_name(g, n.ast.value) == 'asyncio.wait_for']
    for n in bounded:
        c = n.ast.value
        inner = c.args[0] if c.args else None
        t = c.args[1] if len(c.args) > 1 else next((k.value for k in c.keywords if k.arg == 'timeout'), None)
        inner = resolve(g, n, inner) if inner is not None else None
        cn_ = next((x for x in g.nodes if x.kind == 'call' and x.ast is c), n)
        ok = isinstance(inner, ast.Call) and isinstance(inner.func, ast.Attribute) and inner.func.attr == 'get' and \
            g.res.path(inner.func.value) == f'self.{r.workq}' and option_read(g, cn_, t, 'batch_timeout')
        ctx.check('C10-R5', f'{norm(c)}', g.loc(n), ok, 'waits for the queue at most self.batch_timeout',
                  'the bounded wait is not wait_for(queue.get(), self.batch_timeout)', construct=construct_key(r.assemble.qualname, c))
        te = [e for e in g.succ[n.id] if e.label == 'exc' and e.classes and 'TimeoutError' in e.classes and e.dst.kind == 'except']
        w = find_path(g, [], growths + bounded, start_edges=te) if te else None
        retL = [x for x in g.nodes if x.kind == 'return' and isinstance(x.ast.value, ast.Name) and x.ast.value.id == L]
        w = w or (must_pass(g, [], [g.exit, g.raise_exit], retL, start_edges=te) if te else None)
        # what the timed read delivers joins the batch
        def _has(e_, a_) -> bool:
            return any((type(x).__name__, getattr(x, 'lineno', None), getattr(x, 'col_offset', None)) ==
                       ('Await', a_.lineno, a_.col_offset) for x in ast.walk(e_))
        joins_ = False
        for gr_ in growths:
            if gr_.kind == 'call' and gr_.ast.args:
                joins_ = joins_ or _has(resolve(g, gr_, gr_.ast.args[0]), n.ast)
        ctx.check('C10-R4', f'the item delivered by {norm(c)[:60]} is added to the batch', g.loc(n), joins_,
                  'nothing dequeued is dropped', 'an item taken off the queue is not put into the batch: its caller is never answered',
                  construct=construct_key(r.assemble.qualname, 'dequeued item dropped'))
        ctx.check('C10-R5', 'TimeoutError of the bounded wait ends the batch', g.loc(n), bool(te) and w is None and bool(retL),
                  'the batch is returned as it is', 'after the timeout the assembler keeps waiting/growing (or the timeout escapes)',
                  witness=render(g, w), construct=construct_key(r.assemble.qualname, 'timeout does not end batch'))
    # the batch is handed on only when it is full or the quiet period has expired: every path birth -> `return L` takes the
    # "full" edge of the size guard or the TimeoutError edge of the bounded wait (calls less than batch_timeout apart share a batch)
    if bounded and guards:
        full_edges = {(b.id, 'false' if pol == 'true' else 'true') for b, pol, _ in guards}
        te_ids = {id(e) for n in bounded for e in g.succ[n.id] if e.label == 'exc' and e.classes and 'TimeoutError' in e.classes}
        retL_ = [x for x in g.nodes if x.kind == 'return' and isinstance(x.ast.value, ast.Name) and x.ast.value.id == L and not x.meta.get('inlined')]
        starts_ = [e for e in g.succ[birth.id] if e.label != 'exc']
        def _empty_edge(e) -> bool:
            # `if not L:` after the one-element birth: the list only grows (R2), it is not empty
            return e.src.kind == 'branch' and isinstance(e.src.meta['test'], ast.Name) and _is_L(e.src, e.src.meta['test']) and e.label == 'false'
        wq = find_path(g, [], retL_, start_edges=starts_,
                       edge_ok=lambda e: (e.src.id, e.label) not in full_edges and id(e) not in te_ids and not _empty_edge(e)) if retL_ else None
        ctx.check('C10-R5', 'the batch ends only when full or when the bounded wait timed out', g.loc(birth), wq is None and bool(retL_),
                  'every path to the hand-over passes the size limit or the expiry of batch_timeout',
                  'a batch that is neither full nor timed out is handed over: a call arriving within batch_timeout of the last one no longer joins it',
                  witness=render(g, wq), construct=construct_key(r.assemble.qualname, 'batch ends early'))
    if not bounded:
        ctx.violation('C10-R5', 'no bounded wait in the assembler', f'{FILE}:{r.assemble.lineno}',
                      'batch_timeout is never waited for', construct=construct_key(r.assemble.qualname, 'no bounded wait'))
    first = resolve(g, birth, birth.meta['value'].elts[0])
    ok = isinstance(first, ast.Await) and isinstance(first.value, ast.Call) and isinstance(first.value.func, ast.Attribute) \
        and first.value.func.attr == 'get' and g.res.path(first.value.func.value) == f'self.{r.workq}'
    ctx.check('C10-R5', f'first item: {norm(first)}', g.loc(birth), ok, 'unbounded wait for the first item',
              'the first item is not an unbounded queue.get()', construct=construct_key(r.assemble.qualname, 'first get', first))
    # option plumbing of the limits
    for attr, par in (('max_batch_size', 'max_batch_size'), ('batch_timeout', 'batch_timeout')):
        v = r.attr_ctor.get(attr)
        ctx.check('C10-R5' if attr == 'batch_timeout' else 'C10-R1', f'self.{attr} = {norm(v) if v is not None else None}',
                  f'{FILE}:{r.init.lineno}', isinstance(v, ast.Name) and v.id == par, 'constructor option stored unchanged',
                  'the limit is not the constructor option', construct=construct_key(r.init.qualname, attr, v))
    if maxattr is not None and maxattr != 'max_batch_size':
        ctx.violation('C10-R1', f'guard compares with self.{maxattr}', f'{FILE}:{r.assemble.lineno}', 'not the max_batch_size attribute',
                      construct=construct_key(r.assemble.qualname, 'guard attr', maxattr))
    r.publish(ctx)


# ---------------------------------------------------------------------------
# C11
# ---------------------------------------------------------------------------

def c11(ctx: Ctx) -> None:
    r = BatcherRoles(ctx)
    from .common import rule_unbound
    rule_unbound(ctx, 'C11-U1', [s_ for s_ in r.u.functions() if s_.enclosing_class() is r.cls and s_.enclosing_function() is None], 'AsyncBackgroundBatcher')
    g = r.gcall
    p = r.p
    ctx.trusted += ['loop.call_later fires after the delay', 'Queue.put on an unbounded queue does not suspend']
    ctx.rule('C11-R1', 'no suspension point between the miss edge of RET[key] and the store RET[key] = future', 1)
    ctx.rule('C11-R2', 'work is enqueued only on the miss path, with the same key and the very future stored in RET', 1)
    ctx.rule('C11-R3', 'every exit after the enqueue evicts: immediately when retention_timeout <= 0, else call_later(self.retention_timeout, RET.pop, key)', 2)
    ctx.rule('C11-R4', 'no RET mutation is reachable on the hit path', 1)
    ctx.rule('C11-R5', 'the default key is str(arg), an explicit key is used unchanged', 1)
    ctx.rule('C11-R6', 'the retention cache is a strong dict owned by the batcher instance', 1)
    ctx.rule('C11-R7', 'retention_timeout (like every option) is per-instance state: no class-level descriptor keeps the value on itself', 1)
    from .common import rule_option_descriptors
    rule_option_descriptors(ctx, 'C11-R7', r.cls, r.p)
    _rule_retention_store(ctx, r, 'C11-R6')
    RET = r.ret
    lookups, miss, hit, lkeys = table_lookups(g, lambda e: sattr(g, e) == RET)
    stores = [n for n in g.nodes if n.kind == 'store_sub' and sattr(g, n.ast.value) == RET]
    if not lookups or not stores:
        ctx.violation('C11-R1', 'no lookup-or-create of a per-key future', f'{FILE}:{r.call.lineno}',
                      'every call adds work: a batch can carry a key twice', construct=construct_key(r.call.qualname, 'no lookup-or-create'))
        r.publish(ctx)
        return
    keyv = {norm(k) for k in lkeys} | {norm(n.ast.slice) for n in stores}
    # R1
    for s in stores:
        w = None
        susp = [x for x in g.nodes if x.suspends]
        for x in susp:
            p1 = find_path(g, [], [x], avoid=[s], start_edges=miss)
            if p1 is not None and find_path(g, [x], [s]) is not None:
                w = p1 + (find_path(g, [x], [s]) or [])
                break
        miss_ids = {id(e) for e in miss}
        w0 = find_path(g, [g.entry], [s], edge_ok=lambda e: id(e) not in miss_ids)
        ctx.check('C11-R1', f'{norm(s.meta.get("stmt") or s.ast)} right after the miss', g.loc(s), w is None and w0 is None,
                  'lookup-or-create is atomic on the loop', 'two callers can both miss and both enqueue the key'
                  if w is not None else 'the future is stored without a preceding lookup',
                  witness=render(g, w or w0), construct=construct_key(r.call.qualname, 'non-atomic lookup-or-create'))
    # R2
    puts = [n for n in g.nodes if n.kind == 'call' and isinstance(n.ast.func, ast.Attribute) and n.ast.func.attr in ('put', 'put_nowait')
            and g.res.path(n.ast.func.value) == f'self.{r.workq}']
    stored_names = {norm(s.meta['value']) if isinstance(s.meta.get('value'), ast.Name) else None for s in stores}
    # chained assignment `fut = RET[key] = create_future()`: the store's stmt has a Name target too
    fut_names = set()
    for s in stores:
        st = s.meta.get('stmt')
        if isinstance(st, ast.Assign):
            fut_names |= {t.id for t in st.targets if isinstance(t, ast.Name)}
            if isinstance(st.value, ast.Name):
                fut_names.add(st.value.id)
    for pn in puts:
        w = find_path(g, [], [pn], start_edges=hit)
        w2 = must_pass(g, [g.entry], [pn], stores)
        a = pn.ast.args[0] if pn.ast.args else None
        elts = [norm(e) for e in a.elts] if isinstance(a, ast.Tuple) else []
        payload_ok = len(elts) == 3 and elts[0] in keyv and elts[2] in fut_names
        ctx.check('C11-R2', f'{norm(pn.ast)}', g.loc(pn), w is None and w2 is None and payload_ok,
                  'only the creator of the future enqueues, with its key and that future',
                  'a sharer adds work' if w is not None else 'work is enqueued without/with the wrong registered future',
                  witness=render(g, w or w2), construct=construct_key(r.call.qualname, pn.ast, 'enqueue'))
    if not puts:
        ctx.violation('C11-R2', 'nothing is enqueued', f'{FILE}:{r.call.lineno}', construct=construct_key(r.call.qualname, 'no enqueue'))
    # R3
    evict_now = [n for n in g.nodes if (n.kind == 'del_sub' and sattr(g, n.ast.value) == RET and norm(n.ast.slice) in keyv)
                 or (n.kind == 'call' and isinstance(n.ast.func, ast.Attribute) and n.ast.func.attr == 'pop'
                     and sattr(g, n.ast.func.value) == RET)]
    evict_later = []
    for n in g.nodes:
        if n.kind == 'call' and isinstance(n.ast.func, ast.Attribute) and n.ast.func.attr == 'call_later':
            a = [resolve(g, n, x, keep=tuple(keyv)) for x in n.ast.args]
            ok = len(a) >= 3 and option_read(g, n, n.ast.args[0], 'retention_timeout') and isinstance(a[1], ast.Attribute) \
                and a[1].attr == 'pop' and sattr(g, a[1].value) == RET and norm(a[2]) in keyv
            if ok:
                evict_later.append(n)
            else:
                ctx.violation('C11-R3', f'{norm(n.ast)}', g.loc(n),
                              'the delayed eviction does not use the configured delay / the retention cache / the call\'s key',
                              construct=construct_key(r.call.qualname, n.ast, 'eviction args'))
    qctor = r.attr_ctor[r.workq]
    unbounded = isinstance(qctor, ast.Call) and not qctor.args and not qctor.keywords
    for pn in puts:
        # the await of the put: accepted as non-suspending only for an unbounded queue
        aw = [x for x in g.nodes if x.kind == 'await' and x.ast.value is pn.ast]
        def feasible(e: Edge) -> bool:
            if unbounded and aw and e.src is aw[0] and e.label == 'exc':
                return False
            return True
        starts = [e for e in g.succ[pn.id]]
        w = must_pass(g, [], [g.exit, g.raise_exit], evict_now + evict_later, start_edges=starts, edge_ok=feasible)
        ctx.check('C11-R3', f'every exit after {norm(pn.ast)[:60]} evicts' + (' (queue unbounded: put cannot suspend)' if unbounded else ''),
                  g.loc(pn), w is None and bool(evict_now or evict_later),
                  'eviction on normal, exception and cancellation exits',
                  'an exit of the original caller leaves the key in the retention cache for ever (stale results / callers waiting for nothing)',
                  witness=render(g, w), construct=construct_key(r.call.qualname, 'exit without eviction'))
    # the branch between immediate and delayed eviction
    ret_tests: List[Tuple[Node, str]] = []
    for n in g.nodes:
        t_res = resolve(g, n, n.meta['test']) if n.kind == 'branch' else None
        if n.kind == 'branch' and isinstance(t_res, ast.Compare) and any(
                self_attr(x) == 'retention_timeout' for x in ast.walk(t_res)):
            t = t_res
            # evaluate the comparison for sample windows: every positive value must go one way, 0 the other
            def ev_(val):
                try:
                    def side(e):
                        if self_attr(e) == 'retention_timeout':
                            return val
                        if isinstance(e, ast.Constant) and isinstance(e.value, (int, float)) and not isinstance(e.value, bool):
                            return e.value
                        if isinstance(e, ast.UnaryOp) and isinstance(e.op, ast.USub) and isinstance(e.operand, ast.Constant):
                            return -e.operand.value
                        raise ValueError
                    if len(t.ops) != 1:
                        return None
                    l_, r__ = side(t.left), side(t.comparators[0])
                    return {ast.Lt: l_ < r__, ast.LtE: l_ <= r__, ast.Gt: l_ > r__, ast.GtE: l_ >= r__, ast.Eq: l_ == r__,
                            ast.NotEq: l_ != r__}.get(type(t.ops[0]))
                except ValueError:
                    return None
            pos_vals = [ev_(x) for x in (0.001, 0.5, 1, 2, 3600)]
            zero_val = ev_(0)
            pos_edge = None
            if None in pos_vals or zero_val is None:
                ctx.undecided('C11-R3', f'retention test {norm(t)}', g.loc(n), 'unrecognised comparison')
                continue
            if len(set(pos_vals)) != 1 or zero_val == pos_vals[0]:
                ctx.violation('C11-R3', f'retention test {norm(t)}', g.loc(n),
                              'the test does not separate "a window was asked for" (any positive value) from "no retention" (0): '
                              'some windows are dropped at once, or a zero window still remembers the result for a loop iteration',
                              construct=construct_key(r.call.qualname, 'retention branch', t))
                continue
            pos_edge = 'true' if pos_vals[0] else 'false'
            other = 'false' if pos_edge == 'true' else 'true'
            ret_tests.append((n, other))
            rp = reach(g, [], start_edges=[e for e in g.succ[n.id] if e.label == pos_edge])
            rn = reach(g, [], start_edges=[e for e in g.succ[n.id] if e.label == other])
            okp = any(x.id in rp for x in evict_later) and not any(x.id in rp for x in evict_now)
            okn = any(x.id in rn for x in evict_now) and not any(x.id in rn for x in evict_later)
            ctx.check('C11-R3', f'{norm(t)}: >0 -> delayed eviction, <=0 -> immediate', g.loc(n), okp and okn,
                      'window honoured', 'retention window ignored or inverted',
                      construct=construct_key(r.call.qualname, 'retention branch', t))
    # an immediate eviction is governed by the "no window" outcome of the retention test: reaching one any other way forgets an
    # outcome (say, a failure) inside the window it should be retained for
    if ret_tests:
        nowin = {(b.id, lab) for b, lab in ret_tests}
        for en in evict_now:
            for pn in puts:
                wn = find_path(g, [], [en], start_edges=list(g.succ[pn.id]), edge_ok=lambda e: (e.src.id, e.label) not in nowin)
                if wn is not None:
                    ctx.violation('C11-R3', f'{norm(en.ast)} is reached without retention_timeout <= 0 having been established', g.loc(en),
                                  'an outcome is dropped from the retention cache at once although a window was asked for: a later call inside '
                                  'the window is computed again and can receive a different outcome', witness=render(g, wn),
                                  construct=construct_key(r.call.qualname, 'unconditional immediate eviction', en.ast))
                    break
    reach_all = reach(g, [g.entry])
    now_ok = any(x.id in reach_all for x in evict_now)
    later_ok = any(x.id in reach_all for x in evict_later)
    ctx.check('C11-R3', f'both forms of eviction are reachable (immediate: {now_ok}, delayed: {later_ok})', f'{FILE}:{r.call.lineno}', now_ok and later_ok,
              'a zero window forgets at once, a positive one after the window',
              'one of the two forms is missing: either retention_timeout = 0 still remembers results for a while, or a positive window is not honoured',
              construct=construct_key(r.call.qualname, 'eviction forms', now_ok, later_ok))
    v = r.attr_ctor.get('retention_timeout')
    ctx.check('C11-R3', f'self.retention_timeout = {norm(v) if v is not None else None}', f'{FILE}:{r.init.lineno}',
              isinstance(v, ast.Name) and v.id == 'retention_timeout', 'constructor option stored unchanged',
              'the retention window is not the constructor option', construct=construct_key(r.init.qualname, 'retention_timeout', v))
    # R4
    reached = reach(g, [], start_edges=hit)
    muts = [n for n in evict_now + evict_later + stores if n.id in reached]
    w = find_path(g, [], muts, start_edges=hit) if muts else None
    ctx.check('C11-R4', 'hit path performs no retention-cache mutation', g.loc(lookups[0]), not muts,
              'sharers never evict', 'a sharer evicts the key: duplicate work inside the window', witness=render(g, w),
              construct=construct_key(r.call.qualname, 'hit path mutates'))
    # R5
    keyparam = 'key'
    ok = False
    for n in g.nodes:
        if n.kind == 'branch' and norm(n.meta['test']) in (f'{keyparam} is None',):
            te = [e for e in g.succ[n.id] if e.label == 'true']
            st = [x for x in g.nodes if x.kind == 'store_name' and x.meta['name'] == keyparam and not x.meta.get('inlined_param')]
            ok = len(st) == 1 and norm(st[0].meta['value']) == 'str(arg)' and find_path(g, [], st, start_edges=te) is not None \
                and find_path(g, [], st, start_edges=[e for e in g.succ[n.id] if e.label == 'false']) is None
    if not ok:
        # the conditional-expression form: key = str(arg) if key is None else key  (either orientation)
        st = [x for x in g.nodes if x.kind == 'store_name' and x.meta['name'] == keyparam and not x.meta.get('inlined_param')]
        if len(st) == 1 and isinstance(st[0].meta.get('value'), ast.IfExp):
            ie = st[0].meta['value']
            t_ = norm(ie.test)
            when_none, otherwise = (ie.body, ie.orelse) if t_ == f'{keyparam} is None' else \
                (ie.orelse, ie.body) if t_ == f'{keyparam} is not None' else (None, None)
            ok = when_none is not None and norm(when_none) == 'str(arg)' and isinstance(otherwise, ast.Name) and otherwise.id == keyparam \
                and not st[0].loops
    ctx.check('C11-R5', 'if key is None: key = str(arg)', f'{FILE}:{r.call.lineno}', ok, 'default key only when none given',
              'the key is not str(arg) by default / an explicit key is altered', construct=construct_key(r.call.qualname, 'default key'))
    r.publish(ctx)


# ---------------------------------------------------------------------------
# C15
# ---------------------------------------------------------------------------

def option_decorators(p) -> List[Scope]:
    """Implementation defs with an optional first positional `func`, keyword-only
    options and a `func is None` branch returning functools.partial(<itself>, ...)."""
    out = []
    for f in p.unit(FILE).functions():
        if f.parent is None or f.parent.kind != 'module' or '#' in f.qualname:
            continue
        a = f.node.args
        if not a.kwonlyargs or not a.args:
            continue
        first = a.args[0].arg
        has_default_none = a.defaults and isinstance(a.defaults[0], ast.Constant) and a.defaults[0].value is None
        if not has_default_none:
            continue
        out.append(f)
    return out


def c15(ctx: Ctx) -> None:
    p = ctx.program
    from .common import rule_unbound
    rule_unbound(ctx, 'C15-U1', [p.func(FILE, n_) for n_ in ('threadsafe_async_cache', 'buffer_until_timeout', 'async_background_batcher')], 'the option decorators')
    ctx.trusted += ['functools.partial', 'WeakKeyDictionary']
    ctx.rule('C15-R1', 'the partial returned for `func is None` re-binds exactly the keyword-only options, each to the same-named parameter', 1)
    ctx.rule('C15-R2', 'every option reaches its point of use in the direct form (def-use chains)', 6)
    ctx.rule('C15-R3', 'per-loop registry: keyed by get_running_loop() of the same activation, WeakKeyDictionary, built with all options and stored before use, no suspension between miss and store, no other registry mutation', 1)
    ctx.rule('C15-R4', 'the option decorators share one idiom', 1)
    decos = option_decorators(p)
    names = sorted(d.name for d in decos)
    ctx.check('C15-R4', f'option decorators found: {names}', f'{FILE}:1',
              {'threadsafe_async_cache', 'buffer_until_timeout', 'async_background_batcher'} <= set(names),
              'three siblings', 'a documented decorator lost its optional-func/keyword-only shape',
              construct=construct_key('module', 'decorators', names))
    for d in decos:
        g = build(d, p)
        first = d.node.args.args[0].arg
        kwonly = [a.arg for a in d.node.args.kwonlyargs]
        br = [n for n in g.nodes if n.kind == 'branch' and norm(n.meta['test']) in (f'{first} is None', f'{first} is not None')]
        if not br:
            if not any(isinstance(x, ast.Call) and (g.res.path(x.func) or '').endswith('partial') for x in ast.walk(d.node)):
                # the decorator simply requires func (e.g. buffer_until_timeout overloads) -> idiom left
                ctx.violation('C15-R4', f'{d.name}: no `{first} is None` branch', f'{FILE}:{d.lineno}',
                              'the decorator-with-options form is not supported any more',
                              construct=construct_key(d.qualname, 'no option form'))
            else:
                ctx.violation('C15-R1', f'{d.name}: a partial is built but no test of `{first} is None` decides between the two forms', f'{FILE}:{d.lineno}',
                              'one of the two forms is unreachable: either @deco(options) never returns a decorator, or deco(func, options) never wraps',
                              construct=construct_key(d.qualname, 'forms not separated'))
            continue
        # the test that separates the two forms: the one whose "no function given" edge leads to a return that its other edge
        # cannot reach (an argument check `if func is not None and not callable(func): raise` tests the same thing but returns nothing)
        def _rets_of(b_):
            lab_ = 'true' if norm(b_.meta['test']).endswith('is None') else 'false'
            te_ = [e for e in g.succ[b_.id] if e.label == lab_]
            reached_ = reach(g, [], start_edges=te_)
            return [n for n in g.nodes if n.kind == 'return' and n.id in reached_ and find_path(g, [], [n], start_edges=te_) is not None
                    and find_path(g, [], [n], start_edges=[e for e in g.succ[b_.id] if e.label != lab_]) is None]
        br = sorted(br, key=lambda b_: 0 if _rets_of(b_) else 1)
        rets = _rets_of(br[0])
        if not rets:
            ctx.violation('C15-R1', f'{d.name}: the `{first} is None` edge returns nothing of its own', g.loc(br[0]),
                          'the options form falls through into the direct form with func = None (or returns None): @deco(options) is unusable',
                          construct=construct_key(d.qualname, 'option form returns nothing'))
        for rn in rets:
            v = rn.ast.value
            # a shared re-binding helper `def _with_options(deco, **options): return partial(deco, **options)` is the partial
            # it returns; one that passes on anything but the options as given (a filtered / rebuilt mapping) alters them
            if isinstance(v, ast.Call) and isinstance(v.func, ast.Name) and (g.res.path(v.func) or '') != 'functools.partial':
                hs_ = [c_ for c_ in d.unit.module_scope.children if c_.kind == 'function' and c_.name == v.func.id]
                h_ = hs_[0] if len(hs_) == 1 else None
                if h_ is not None and not h_.is_async and not h_.is_generator and not h_.decorators:
                    a_ = h_.node.args
                    body_ = [st_ for st_ in h_.node.body if not (isinstance(st_, ast.Expr) and isinstance(st_.value, ast.Constant))]
                    r_ = body_[0].value if len(body_) == 1 and isinstance(body_[0], ast.Return) else None
                    if len(a_.args) == 1 and a_.kwarg is not None and not a_.vararg and not a_.kwonlyargs and isinstance(r_, ast.Call) \
                            and (Resolver(h_).path(r_.func) or '') == 'functools.partial' and len(r_.args) == 1 \
                            and isinstance(r_.args[0], ast.Name) and r_.args[0].id == a_.args[0].arg and len(r_.keywords) == 1 and r_.keywords[0].arg is None:
                        passed_ = r_.keywords[0].value
                        if isinstance(passed_, ast.Name) and passed_.id == a_.kwarg.arg:
                            v2_ = ast.Call(func=r_.func, args=list(v.args), keywords=list(v.keywords))
                            ast.copy_location(v2_, v)
                            v2_._via_helper = h_   # type: ignore[attr-defined]
                            v = v2_
                        else:
                            ctx.violation('C15-R1', f'{d.name}: {h_.name} re-binds {norm(passed_)[:80]}', f'{FILE}:{r_.lineno}',
                                          f'the re-binding helper does not pass the options on as given: what @{d.name}(...) was called with is '
                                          'filtered or rebuilt on the way (a falsy value such as 0 is dropped and the default applies), the direct form keeps it',
                                          construct=construct_key(d.qualname, 'options altered by the re-binding helper'))
                            continue
            if not (isinstance(v, ast.Call) and ((g.res.path(v.func) or '') == 'functools.partial' or getattr(v, '_via_helper', None) is not None)):
                ctx.undecided('C15-R1', f'{d.name}: {norm(v)[:80]}', g.loc(rn), 'option form does not return functools.partial')
                continue
            target_ok = v.args and isinstance(v.args[0], ast.Name) and v.args[0].id == d.name and len(v.args) == 1
            bound = expand_keywords(g, rn, v)
            if bound is None:
                ctx.undecided('C15-R1', f'{d.name}: {norm(v)[:80]}', g.loc(rn), '**mapping in the partial cannot be expanded')
                continue
            missing = sorted(set(kwonly) - set(bound))
            extra = sorted(set(bound) - set(kwonly))
            wrong = sorted(k for k, val in bound.items() if k in kwonly and not (isinstance(val, ast.Name) and val.id == k))
            if not target_ok:
                ctx.violation('C15-R1', f'{d.name}: partial target {norm(v.args[0]) if v.args else None}', g.loc(rn),
                              'the option form re-binds a different function', construct=construct_key(d.qualname, 'partial target'))
            inst = f'{d.name}: partial binds {sorted(bound)} / options {sorted(kwonly)}'
            if missing:
                ctx.violation('C15-R1', inst, g.loc(rn), f'option(s) {missing} given to the @{d.name}(...) form are silently dropped',
                              construct=construct_key(d.qualname, 'partial misses', missing))
            elif extra or wrong:
                ctx.violation('C15-R1', inst, g.loc(rn), f'option(s) bound to something else: extra={extra} wrong={wrong}',
                              construct=construct_key(d.qualname, 'partial wrong', extra, wrong))
            elif target_ok:
                ctx.holds('C15-R1', inst, g.loc(rn), 'complete and faithful')
    # R2: def-use chains
    _chains(ctx, p)
    # R3
    _registry(ctx, p)


def _chains(ctx: Ctx, p) -> None:
    u = p.unit(FILE)
    # cache -> CACHE role (checked in detail under C14-R4)
    from .cache import CacheRoles, classify_cache_select
    try:
        cr = CacheRoles(ctx)
        v, why = classify_cache_select(cr.cache_expr, cr.cache_param) if cr.cache_expr is not None else ('unknown', '')
        used = bool(cr.PROBE) and bool(cr.PUBLISH)
        ctx.check('C15-R2', f'threadsafe_async_cache: cache -> {cr.cache} -> probes/stores', f'{FILE}:{cr.impl.lineno}',
                  v == 'good' and used, 'option selects the store that is read and written', f'chain cut: {why}',
                  construct=construct_key(cr.impl.qualname, 'cache chain'))
    except AnalysisError as e:
        ctx.undecided('C15-R2', 'cache chain', f'{FILE}:1', str(e))
    # timeout -> BufferAsyncCalls(func, timeout=timeout) -> self.timeout -> wait_for(_, self.timeout)
    but = p.func(FILE, 'buffer_until_timeout')
    from ..cfg import resolve_class
    u = but.unit
    ctor_calls = [x for x in ast.walk(but.node) if isinstance(x, ast.Call) and isinstance(x.func, ast.Name)
                  and resolve_class(p, u, x.func.id) is not None]
    ok1 = any(any(k.arg == 'timeout' and isinstance(k.value, ast.Name) and k.value.id == 'timeout' for k in c.keywords) for c in ctor_calls)
    cls = resolve_class(p, u, ctor_calls[0].func.id) if ctor_calls else None
    ok2 = ok3 = False
    if cls is not None:
        u = cls.unit
        init = u.scopes.get(f'{cls.qualname}.__init__')
        for n in own_nodes(init.node):
            if isinstance(n, ast.Assign) and self_attr(n.targets[0]) == 'timeout' and isinstance(n.value, ast.Name) and n.value.id == 'timeout':
                ok2 = True
        writes = [x for f in u.functions() if f.enclosing_class() is cls for x in own_nodes(f.node)
                  if isinstance(x, (ast.Assign, ast.AugAssign)) and any(self_attr(t) == 'timeout' for t in (x.targets if isinstance(x, ast.Assign) else [x.target]))]
        for f in u.functions():
            if f.enclosing_class() is cls and any(isinstance(x, ast.Call) and Resolver(f).path(x.func) == 'asyncio.wait_for' for x in own_nodes(f.node)):
                gf_ = build(f, p)
                for n_ in gf_.nodes:
                    if n_.kind == 'call' and gf_.res.path(n_.ast.func) == 'asyncio.wait_for':
                        t_ = n_.ast.args[1] if len(n_.ast.args) > 1 else next((k.value for k in n_.ast.keywords if k.arg == 'timeout'), None)
                        if t_ is not None and self_attr(resolve(gf_, n_, t_)) == 'timeout':
                            ok3 = True
        ok2 = ok2 and len(writes) == 1
    ctx.check('C15-R2', 'buffer_until_timeout: timeout -> BufferAsyncCalls(timeout=) -> self.timeout -> wait_for(_, self.timeout)',
              f'{FILE}:{but.lineno}', ok1 and ok2 and ok3, 'chain complete',
              f'chain cut (passed to ctor: {ok1}, stored: {ok2}, used by the quiet timer: {ok3})',
              construct=construct_key(but.qualname, 'timeout chain', ok1, ok2, ok3))
    # batcher options
    r = BatcherRoles(ctx)
    abb = p.func(FILE, 'async_background_batcher')
    wrapper = next((c for c in abb.children if c.kind == 'function' and c.is_async), None)
    ctor = None
    ctor_kw = None

    def _desc(sc):
        out = [sc]
        for c_ in sc.children:
            out += _desc(c_)
        return out
    for sc in _desc(abb):
        if sc.kind != 'function':
            continue
        gsc = build(sc, p)
        for n in gsc.nodes:
            if n.kind == 'call' and isinstance(n.ast.func, ast.Name) and n.ast.func.id == r.cls.name and not n.meta.get('inlined'):
                ctor = n.ast
                ctor_kw = expand_keywords(gsc, n, n.ast)
    uses = {
        'max_batch_size': lambda: any(n.kind == 'branch' and any(self_attr(y) == 'max_batch_size' for y in ast.walk(n.meta['test'])) for n in r.gasm.nodes),
        'max_concurrent_batches': lambda: r.sem is not None and isinstance(r.attr_ctor.get(r.sem), ast.Call) and any(
            isinstance(y, ast.Name) and y.id == 'max_concurrent_batches' for y in ast.walk(r.attr_ctor[r.sem])),
        'batch_timeout': lambda: any(n.kind == 'call' and call_name(r.gasm, n.ast) == 'asyncio.wait_for' and len(n.ast.args) > 1
                                     and option_read(r.gasm, n, n.ast.args[1], 'batch_timeout') for n in r.gasm.nodes),
        'retention_timeout': lambda: any(n.kind == 'call' and isinstance(n.ast.func, ast.Attribute) and n.ast.func.attr == 'call_later'
                                         and n.ast.args and option_read(r.gcall, n, n.ast.args[0], 'retention_timeout') for n in r.gcall.nodes),
    }
    for opt, used in uses.items():
        passed = ctor is not None and ctor_kw is not None and isinstance(ctor_kw.get(opt), ast.Name) and ctor_kw[opt].id == opt
        rebound = wrapper is not None and (opt in wrapper.locals or any(
            isinstance(x, ast.Name) and x.id == opt and isinstance(x.ctx, ast.Store) for x in own_nodes(abb.node)))
        stored = opt == 'max_concurrent_batches' or (isinstance(r.attr_ctor.get(opt), ast.Name) and r.attr_ctor[opt].id == opt)
        ctx.check('C15-R2', f'async_background_batcher: {opt} -> constructor -> point of use', f'{FILE}:{abb.lineno}',
                  passed and not rebound and stored and used(), 'chain complete',
                  f'chain cut (passed: {passed}, rebound: {rebound}, stored: {stored}, used: {used()})',
                  construct=construct_key(abb.qualname, 'chain', opt))


def _registry(ctx: Ctx, p) -> None:
    abb = p.func(FILE, 'async_background_batcher')
    wrapper = next((c for c in abb.children if c.kind == 'function' and c.is_async), None)
    if wrapper is None:
        sync_w = [c for c in abb.children if c.kind == 'function' and not c.is_async and any(
            isinstance(x, ast.Call) and Resolver(c).path(x.func) == 'asyncio.get_running_loop' for x in ast.walk(c.node))]
        if sync_w:
            ctx.violation('C15-R3', f'{sync_w[0].qualname} is a plain function', f'{FILE}:{sync_w[0].lineno}',
                          'the per-loop batcher is chosen when the decorated function is *called*, not when its result is awaited: a coroutine '
                          'created outside the loop that runs it (asyncio.run(f(x)), run_coroutine_threadsafe(f(x), other_loop)) is batched in the '
                          'wrong loop or fails with "no running event loop"',
                          construct=construct_key(abb.qualname, 'wrapper is not a coroutine function'))
        else:
            ctx.undecided('C15-R3', 'decorated wrapper', f'{FILE}:{abb.lineno}', 'no nested coroutine')
        return
    g = build(wrapper, p)
    ares = Resolver(abb)
    regs = [t.id for n in own_nodes(abb.node) if isinstance(n, (ast.Assign, ast.AnnAssign)) and isinstance(n.value, ast.Call)
            and ares.path(n.value.func) in ('weakref.WeakKeyDictionary', 'builtins.dict', 'weakref.WeakValueDictionary')
            for t in ((n.targets if isinstance(n, ast.Assign) else [n.target])) if isinstance(t, ast.Name)]
    regs += [t.id for n in own_nodes(abb.node) if isinstance(n, (ast.Assign, ast.AnnAssign)) and isinstance(n.value, ast.Dict)
             for t in ((n.targets if isinstance(n, ast.Assign) else [n.target])) if isinstance(t, ast.Name)]
    lookups, miss, hit_, lkeys = table_lookups(g, lambda e: isinstance(e, ast.Name) and e.id in regs)
    stores = [n for n in g.nodes if n.kind == 'store_sub' and isinstance(n.ast.value, ast.Name) and n.ast.value.id in regs]
    if not lookups or not stores:
        ctx.violation('C15-R3', 'no per-loop registry lookup/store in the decorated wrapper', f'{FILE}:{wrapper.lineno}',
                      'one batcher is shared by all loops (its queue and futures belong to the first loop)',
                      construct=construct_key(wrapper.qualname, 'no registry'))
        return
    reg = stores[0].ast.value.id
    # a look-up decided by the *truth value* of what was found (`b = registry.get(loop); if not b:`) is a presence test only as long
    # as a batcher is always true: a `__len__` / `__bool__` on the class makes an idle batcher look missing, and it is replaced
    truthy_lk = []
    for b_ in lookups:
        if b_.kind == 'branch':
            t_ = resolve(g, b_, b_.meta['test'])
            while isinstance(t_, ast.UnaryOp) and isinstance(t_.op, ast.Not):
                t_ = t_.operand
            if isinstance(t_, ast.Call):
                truthy_lk.append(b_)
    if truthy_lk:
        try:
            rb_ = BatcherRoles(ctx)
            falsy_hooks = [m_.name for m_ in rb_.u.functions() if m_.enclosing_class() is rb_.cls and m_.name in ('__len__', '__bool__')]
        except AnalysisError:
            falsy_hooks = []
        ctx.check('C15-R3', f'registry look-up by truth value ({norm(truthy_lk[0].meta["test"])}); the batcher class defines {falsy_hooks or "neither __len__ nor __bool__"}',
                  g.loc(truthy_lk[0]), not falsy_hooks, 'a batcher object is always true',
                  'the look-up treats a batcher that is false (empty queue: `__len__` returns 0) as missing and replaces the live batcher of this loop: '
                  'its queue, semaphore and retention state are split over several batchers - limits and batching no longer hold',
                  construct=construct_key(wrapper.qualname, 'truthiness look-up of a sized batcher'))
    kind = None
    for n in own_nodes(abb.node):
        if isinstance(n, (ast.Assign, ast.AnnAssign)) and n.value is not None:
            for t in (n.targets if isinstance(n, ast.Assign) else [n.target]):
                if isinstance(t, ast.Name) and t.id == reg and isinstance(n.value, ast.Call):
                    kind = ares.path(n.value.func)
    ctx.check('C15-R3', f'registry {reg} is a {kind}', f'{FILE}:{abb.lineno}', kind == 'weakref.WeakKeyDictionary',
              'weakly keyed by the loop: a closed loop\'s batcher is dropped, a new loop never inherits it',
              'a strong (or value-weak) registry keeps batchers of dead loops / drops live ones',
              construct=construct_key(abb.qualname, 'registry kind', kind))
    rkeys = [resolve(g, lk_node, k) for lk_node, k in zip(lookups, lkeys)] + [resolve(g, n, n.ast.slice) for n in stores]
    keyn = {norm(k) for k in rkeys}
    ok = len(keyn) == 1 and all(isinstance(k, ast.Call) and g.res.path(k.func) == 'asyncio.get_running_loop' and not k.args
                                for k in rkeys)
    ctx.check('C15-R3', f'registry key {sorted(keyn)} = get_running_loop() of this activation', g.loc(lookups[0]), ok,
              'each loop gets its own batcher', 'the registry key is not the running loop',
              construct=construct_key(wrapper.qualname, 'registry key'))
    for s in stores:
        w = None
        for x in [x for x in g.nodes if x.suspends]:
            p1 = find_path(g, [], [x], avoid=[s], start_edges=miss)
            if p1 is not None and find_path(g, [x], [s]) is not None:
                w = p1
        ctx.check('C15-R3', f'{norm(s.ast)} stored right after the miss, before use', g.loc(s), w is None,
                  'atomic create-and-register', 'two calls on one loop can both build a batcher', witness=render(g, w),
                  construct=construct_key(wrapper.qualname, 'non-atomic registry'))
    miss_ids = {id(e) for e in miss}
    for s_ in stores:
        w = find_path(g, [g.entry], [s_], edge_ok=lambda e: id(e) not in miss_ids)
        ctx.check('C15-R3', f'{norm(s_.ast)}: a batcher is created only when the registry has none for this loop', g.loc(s_), w is None,
                  'creation is reached through the miss edge of the registry look-up only',
                  'something other than a registry miss (e.g. a KeyError raised by the delegated call) makes the wrapper build a second '
                  'batcher for the loop and overwrite the first: its queue, retention cache and in-flight futures are orphaned',
                  witness=render(g, w), construct=construct_key(wrapper.qualname, 'spurious re-creation'))
    muts = [n for n in g.nodes if (n.kind == 'call' and isinstance(n.ast.func, ast.Attribute) and isinstance(n.ast.func.value, ast.Name)
                                   and n.ast.func.value.id == reg and n.ast.func.attr in ('clear', 'pop', 'popitem', 'update', 'setdefault'))
            or (n.kind == 'del_sub' and isinstance(n.ast.value, ast.Name) and n.ast.value.id == reg)]
    outer = [x for x in own_nodes(abb.node) if isinstance(x, ast.Call) and isinstance(x.func, ast.Attribute) and isinstance(x.func.value, ast.Name)
             and x.func.value.id == reg and x.func.attr in ('clear', 'pop', 'popitem')]
    ctx.check('C15-R3', f'registry mutations besides the store on a miss: {[norm(n.ast) for n in muts] + [norm(x) for x in outer]}',
              g.loc(muts[0]) if muts else f'{FILE}:{wrapper.lineno}', not muts and not outer,
              'a loop\'s batcher lives as long as its loop', 'one loop\'s call evicts the batchers of other live loops: their queue, retention and in-flight state are lost',
              construct=construct_key(wrapper.qualname, 'registry mutated', [norm(n.ast) for n in muts]))
    # use: the awaited call is on the looked-up / stored batcher
    uses = [n for n in g.nodes if n.kind == 'await']
    bvars = {n.meta['name'] for n in g.nodes if n.kind == 'store_name' and n.meta.get('value') is not None and any(
        isinstance(x, ast.Name) and x.id == reg for x in ast.walk(resolve(g, n, n.meta['value'])))} | \
            {s_.meta['value'].id for s_ in stores if isinstance(s_.meta.get('value'), ast.Name)} | \
            {n.meta['name'] for n in g.nodes if n.kind == 'store_name' and (
        (isinstance(n.meta.get('value'), ast.Subscript) and isinstance(n.meta['value'].value, ast.Name) and n.meta['value'].value.id == reg)
        or (isinstance(n.meta.get('stmt'), ast.Assign) and any(isinstance(t, ast.Subscript) and isinstance(t.value, ast.Name)
                                                               and t.value.id == reg for t in n.meta['stmt'].targets)))}
    from ..dataflow import leaves as _leaves

    def _is_registered(n, fe) -> bool:
        """every value the callee expression can denote is a read of the registry or the batcher stored into it"""
        if isinstance(fe, ast.Name):
            # a value that reaches the call from before this activation (a `nonlocal` / shared variable written by an
            # earlier call, possibly on another loop) is not this loop's registry entry
            from ..dataflow import rdefs as _rdefs
            ds_ = _rdefs(g).reaching(n, fe.id)
            if ds_ is None or any(d_ is None for d_ in ds_):
                return False
            # ... and so is a value copied from such a variable (`batcher = current`): every definition that reaches the call
            # must itself be a read of the registry, the store into it, or a copy of a local that is
            nl_ = {x_ for y_ in own_nodes(wrapper.node) if isinstance(y_, (ast.Nonlocal, ast.Global)) for x_ in y_.names}

            def def_ok(d_) -> bool:
                v_ = d_.meta.get('value')
                st_ = d_.meta.get('stmt')
                if isinstance(st_, ast.Assign) and any(isinstance(t_, ast.Subscript) and isinstance(t_.value, ast.Name) and t_.value.id == reg for t_ in st_.targets):
                    return True
                if v_ is None:
                    return False
                rv_ = resolve(g, d_, v_)
                if isinstance(rv_, (ast.Subscript, ast.Call)) and any(isinstance(y_, ast.Name) and y_.id == reg for y_ in ast.walk(rv_)):
                    return True
                if isinstance(v_, ast.Name) and v_.id != fe.id and v_.id in bvars and v_.id not in nl_:
                    return True
                # a fresh batcher that this activation goes on to store under the loop (`b = make(); registry[loop] = b`)
                for s_ in stores:
                    sv_ = s_.meta.get('value')
                    if isinstance(sv_, ast.Name) and sv_.id == fe.id and d_ in (_rdefs(g).reaching(s_, fe.id) or []):
                        return True
                return isinstance(rv_, ast.Call) and any(norm(rv_) == norm(s_.meta['value']) for s_ in stores if s_.meta.get('value') is not None)
            if fe.id in bvars and all(def_ok(d_) for d_ in ds_):
                return True
            if fe.id in bvars and fe.id not in nl_ and not all(def_ok(d_) for d_ in ds_):
                return False
        lfs = _leaves(g, n, fe)
        def one(x) -> bool:
            if isinstance(x, ast.Name) and x.id in bvars:
                return True
            if any(isinstance(y, ast.Name) and y.id == reg for y in ast.walk(x)) and isinstance(x, (ast.Subscript, ast.Call)):
                return True       # batchers[loop] / batchers.get(loop)
            return norm(x) in stored_leaves
        stored_leaves = {norm(y) for s_ in stores if s_.meta.get('value') is not None for y in [s_.meta['value']] + _leaves(g, s_, s_.meta['value'])}
        return bool(lfs) and all(one(x) for x in lfs)
    ok = any(isinstance(a.ast.value, ast.Call) and _is_registered(a, a.ast.value.func) for a in uses)
    # the delegated call hands on the wrapper's own argument and key
    wparams = list(wrapper.params)
    kwonly = [a_.arg for a_ in wrapper.node.args.kwonlyargs]
    for a in uses:
        c_ = a.ast.value
        if not (isinstance(c_, ast.Call) and _is_registered(a, c_.func)):
            continue
        pos = [resolve(g, a, x) for x in c_.args]
        kws = {k.arg: resolve(g, a, k.value) for k in c_.keywords if k.arg}
        arg_ok = bool(wparams) and bool(pos) and isinstance(pos[0], ast.Name) and pos[0].id == wparams[0]
        key_name = kwonly[0] if kwonly else (wparams[1] if len(wparams) > 1 else None)
        kv = kws.get(key_name) if key_name else None
        if kv is None and len(pos) > 1:
            kv = pos[1]
        key_ok = key_name is None or (isinstance(kv, ast.Name) and kv.id == key_name)
        ctx.check('C15-R3', f'the delegated call {norm(c_)} forwards ({wparams[0] if wparams else None}, {key_name})', g.loc(a), arg_ok and key_ok,
                  'argument and key reach the loop\'s batcher unchanged',
                  'the decorated form drops or replaces the argument / the key: calls that should share a key (or must not) are keyed differently from the direct form',
                  construct=construct_key(wrapper.qualname, 'delegation arguments'))
    ctx.check('C15-R3', f'the call is delegated to the registered batcher {sorted(bvars)}', f'{FILE}:{wrapper.lineno}', ok,
              'uses this loop\'s batcher', 'the awaited batcher is not the one registered for this loop',
              construct=construct_key(wrapper.qualname, 'registry use'))
