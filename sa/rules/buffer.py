"""buffer_until_timeout / BufferAsyncCalls: C03, C07, C08 (DESIGN 4.C)."""
from __future__ import annotations

import ast
from typing import Dict, List, Optional, Set, Tuple

from ..cfg import CFG, Edge, Node, build, callee_info, find_method
from ..core import Ctx, construct_key, norm
from ..load import AnalysisError, Resolver, Scope, dotted, own_nodes, parent
from ..paths import find_path, must_pass, no_suspension, reach, render
from ..sym import call_name
from ..model import carries_exception

FILE = 'aiuti/asyncio.py'


def self_attr(e: ast.AST) -> Optional[str]:
    if isinstance(e, ast.Attribute) and isinstance(e.value, ast.Name) and e.value.id == 'self':
        return e.attr
    return None


def meth_call(n: Node, attr: str, method: str) -> bool:
    """node is a call `self.<attr>.<method>(...)`"""
    return n.kind == 'call' and isinstance(n.ast.func, ast.Attribute) and n.ast.func.attr == method \
        and self_attr(n.ast.func.value) == attr


class BufferRoles:
    def __init__(self, ctx: Ctx):
        p = ctx.program
        self.p = p
        u = p.unit(FILE)
        self.u = u
        self.cls = None
        for c in u.classes():
            init = u.scopes.get(f'{c.qualname}.__init__')
            if init is None:
                continue
            r = Resolver(init)
            kinds = {}
            for n in own_nodes(init.node):
                if isinstance(n, (ast.Assign, ast.AnnAssign)) and isinstance(n.value, ast.Call):
                    tg = n.targets[0] if isinstance(n, ast.Assign) else n.target
                    a = self_attr(tg)
                    if a:
                        kinds[a] = (r.path(n.value.func) or norm(n.value.func), n.value)
            names = {k for k, _ in kinds.values()}
            if 'asyncio.Queue' in names and 'asyncio.Event' in names:
                self.cls, self.init, self.kinds = c, init, kinds
        if self.cls is None:
            raise AnalysisError('buffer class (asyncio.Queue + asyncio.Event in __init__) not found')
        cls = self.cls
        self.q = next(a for a, (k, _) in self.kinds.items() if k == 'asyncio.Queue')
        self.flag = next(a for a, (k, _) in self.kinds.items() if k == 'asyncio.Event')
        self.methods = {f.name: f for f in u.functions() if f.enclosing_class() is cls}
        # daemon root: coroutine handed to DaemonTask(...) / create_task in __init__
        self.daemon_attr = self.root = None
        for a, (k, v) in self.kinds.items():
            for arg in v.args:
                if isinstance(arg, ast.Call) and self_attr(arg.func) in self.methods:
                    m = self.methods[self_attr(arg.func)]
                    if m.is_async:
                        self.daemon_attr, self.root, self.spawn_kind = a, m, k
        if self.root is None:
            raise AnalysisError('daemon task of the buffer not found in __init__')
        # RUN: the method awaiting self.func ; PROCESS: the method containing the round loop
        self.run = self.process = None
        for f in self.methods.values():
            g = build(f, p)
            for n in g.nodes:
                if n.kind == 'call' and self_attr(n.ast.func) == 'func':
                    self.run = f
            for x in own_nodes(f.node):
                if isinstance(x, ast.While) and any(
                        isinstance(y, ast.Call) and isinstance(y.func, ast.Attribute) and y.func.attr == 'is_set'
                        and self_attr(y.func.value) == self.flag for y in ast.walk(x.test)):
                    self.process = f
                    self.round_loop = x
        if self.run is None or self.process is None:
            raise AnalysisError(f'buffer roles not found: run={self.run} process={self.process}')
        self.gproc = build(self.process, p)
        self.grun = build(self.run, p)
        self.gproc.__dict__['event_flags'] = {f'self.{self.flag}'}
        self.grun.__dict__['event_flags'] = {f'self.{self.flag}'}
        # LOAD: nested coroutine of PROCESS with an async for
        self.load = None
        for c in self.process.children:
            if c.kind == 'function' and c.is_async and any(isinstance(x, ast.AsyncFor) for x in own_nodes(c.node)):
                self.load = c
        if self.load is None:
            raise AnalysisError('producer loader (nested coroutine with async for) not found')
        self.gload = build(self.load, p)
        # ROUNDSET: local of PROCESS assigned set() and mutated by LOAD
        g = self.gproc
        self.roundset = None
        for n in g.nodes:
            if n.kind == 'store_name' and isinstance(n.meta.get('value'), ast.Call) and \
                    g.res.path(n.meta['value'].func) == 'builtins.set' and not n.meta['value'].args:
                self.roundset = n.meta['name']
        # TIMER attr: assigned from a helper that wraps its argument in wait_for(_, self.timeout)
        self.timer = self.arm_helper = None
        for n in g.nodes:
            if n.kind == 'store_attr' and isinstance(n.meta.get('value'), ast.Call):
                info = callee_info(g, n.meta['value'])
                if info['kind'] == 'package':
                    for sc in info['scopes']:
                        if any(isinstance(x, ast.Call) and Resolver(sc).path(x.func) == 'asyncio.wait_for' for x in own_nodes(sc.node)):
                            self.timer, self.arm_helper = n.meta['attr'], sc
                elif call_name(g, n.meta['value']) in ('asyncio.create_task', 'asyncio.ensure_future') or \
                        (isinstance(n.meta['value'].func, ast.Attribute) and n.meta['value'].func.attr == 'create_task'):
                    if any(isinstance(x, ast.Call) and g.res.path(x.func) == 'asyncio.wait_for' for x in ast.walk(n.meta['value'])):
                        self.timer = n.meta['attr']
        # round loop head
        test_nodes = set(map(id, ast.walk(self.round_loop.test)))
        self.round_branch = next(n for n in g.nodes if n.kind == 'branch' and id(n.meta['test']) in test_nodes
                                 and isinstance(n.meta['test'], ast.Call)
                                 and isinstance(n.meta['test'].func, ast.Attribute) and n.meta['test'].func.attr == 'is_set')
        self.round_head = next(n for n in g.nodes if n.kind == 'loop_head' and n.ast is self.round_loop)
        # events in PROCESS
        self.blocking_get = [n for n in g.nodes if n.kind == 'await' and isinstance(n.ast.value, ast.Call)
                             and meth_call_ast(n.ast.value, self.q, 'get')]
        self.timed_get = [n for n in g.nodes if n.kind == 'await' and self_attr(n.ast.value) == self.timer] if self.timer else []
        self.done = [n for n in g.nodes if meth_call(n, self.q, 'task_done')]
        self.clear = [n for n in g.nodes if meth_call(n, self.flag, 'clear')]
        self.arm = [n for n in g.nodes if n.kind == 'store_attr' and n.meta['attr'] == self.timer] if self.timer else []
        self.run_calls = [n for n in g.nodes if n.kind == 'await' and isinstance(n.ast.value, ast.Call)
                          and callee_info(g, n.ast.value)['kind'] == 'package'
                          and self.run in callee_info(g, n.ast.value).get('scopes', [])]
        gr = self.grun
        self.callfunc = [n for n in gr.nodes if n.kind == 'await' and isinstance(n.ast.value, ast.Call)
                         and self_attr(n.ast.value.func) == 'func']
        self.set_ = [n for n in gr.nodes if meth_call(n, self.flag, 'set')]
        # drain generator: method with get_nowait
        self.drain = None
        for f in self.methods.values():
            gg = build(f, p)
            if any(meth_call(n, self.q, 'get_nowait') for n in gg.nodes):
                self.drain = f
        self.put = None
        ep = self.methods.get('__call__')
        if ep is not None:
            gg = build(ep, p)
            for n in gg.nodes:
                if n.kind == 'call' and isinstance(n.ast.func, ast.Attribute) and self_attr(n.ast.func) in self.methods:
                    self.put = self.methods[self_attr(n.ast.func)]
        if self.put is None:
            for f in self.methods.values():
                gg = build(f, p)
                if any(n.kind == 'call' and isinstance(n.ast.func, ast.Attribute) and n.ast.func.attr == 'call_soon_threadsafe'
                       for n in gg.nodes):
                    self.put = f
        self.wait = self.methods.get('wait')
        self.wait_anywhere = self.methods.get('wait_from_anywhere')
        self.entry_points = [self.methods[m] for m in ('__call__', 'await_', 'map', 'amap') if m in self.methods]

    def publish(self, ctx: Ctx) -> None:
        ctx.extra['roles'] = {'class': self.cls.qualname, 'Q': self.q, 'FLAG': self.flag, 'TIMER': self.timer,
                              'DAEMON root': self.root.qualname, 'PROCESS': self.process.qualname, 'LOAD': self.load.qualname,
                              'RUN': self.run.qualname, 'ROUNDSET': self.roundset,
                              'DRAIN': self.drain.qualname if self.drain else None,
                              'PUT': self.put.qualname if self.put else None}

    def daemon_scopes(self) -> List[Scope]:
        """Coroutines reached from the daemon root by awaited (inline) call edges."""
        out, stack = [], [self.root]
        while stack:
            f = stack.pop()
            if f in out:
                continue
            out.append(f)
            g = build(f, self.p)
            for n in g.nodes:
                if n.kind == 'await' and isinstance(n.ast.value, ast.Call):
                    info = callee_info(g, n.ast.value)
                    if info['kind'] == 'package':
                        stack.extend(s for s in info['scopes'] if s.kind == 'function')
        return out


def meth_call_ast(c: ast.Call, attr: str, method: str) -> bool:
    return isinstance(c.func, ast.Attribute) and c.func.attr == method and self_attr(c.func.value) == attr


def _nonexc(e: Edge) -> bool:
    return e.label != 'exc'


# ---------------------------------------------------------------------------
# C03
# ---------------------------------------------------------------------------

def c03(ctx: Ctx) -> None:
    r = BufferRoles(ctx)
    p = r.p
    g, gr, gl = r.gproc, r.grun, r.gload
    ctx.trusted += ['asyncio.Queue / wait_for / gather', 'loop.call_soon_threadsafe is FIFO and thread-safe']
    ctx.rule('C03-S1', 'the completion flag is set only after a normal completion of the wrapped call (or when the round set is empty)', 1)
    ctx.rule('C03-S2', 'within a round the input set is bound once and only grows', 1)
    ctx.rule('C03-S3', 'an Exception of the wrapped call leads back to the round loop without set/return/re-raise', 2)
    ctx.rule('C03-S4', 'every dequeued producer flows into exactly one loader coroutine that is awaited', 3)
    ctx.rule('C03-S5', 'the loader contains a producer\'s failure and keeps the prefix it already loaded', 2)
    ctx.rule('C03-S6', 'only submitted values enter the set; the function receives the round set itself', 2)
    ctx.rule('C03-S7', 'every entry point hands exactly one producer to the thread-safe put, with the adaptor of its kind', 4)
    ctx.rule('C03-S8', 'code that may run on a foreign thread touches the asyncio.Queue only via loop.call_soon_threadsafe', 2)
    ctx.rule('C03-S9', 'the loop-owned completion flag is never mutated directly by any-thread entry points', 1)
    ctx.rule('C03-S10', 'no suspension point between setting the flag and the round-loop test; the activation ends after the loop', 2)
    where_run = f'{FILE}:{r.run.lineno}'
    # S1
    if not r.callfunc:
        ctx.violation('C03-S1', 'the wrapped function is not awaited inline by the runner', where_run,
                      'the flag is set without knowing whether the call succeeded',
                      construct=construct_key(r.run.qualname, 'call not awaited'))
    all_sets = []
    for f in r.methods.values():
        gg = build(f, p)
        for n in gg.nodes:
            if meth_call(n, r.flag, 'set') and f is not r.init:
                all_sets.append((gg, n))
    for gg, n in all_sets:
        if gg.scope is not r.run:
            ctx.violation('C03-S1', f'{norm(n.ast)} in {gg.scope.qualname}', gg.loc(n),
                          'the completion flag is set outside the function runner',
                          construct=construct_key(gg.scope.qualname, n.ast))
    for s in r.set_:
        ee = [e for c in r.callfunc for e in gr.succ[c.id] if e.label == 'exc']
        # also the call node creating the coroutine
        for c in r.callfunc:
            for n2 in gr.nodes:
                if n2.kind == 'call' and n2.ast is c.ast.value:
                    ee += [e for e in gr.succ[n2.id] if e.label == 'exc']
        # the set is reachable - from entry and from any failure edge - only via a (new) normal
        # completion of CALLFUNC or the empty-set edge
        empty_edges = [e for n in gr.nodes if n.kind == 'branch' and isinstance(n.meta['test'], ast.Name)
                       and n.meta['test'].id in r.run.params for e in gr.succ[n.id] if e.label == 'false']
        ok_edges = {id(e) for c in r.callfunc for e in gr.succ[c.id] if e.label != 'exc'} | {id(e) for e in empty_edges}
        w = find_path(gr, [], [s], start_edges=ee, edge_ok=lambda e: id(e) not in ok_edges)
        w2 = find_path(gr, [gr.entry], [s], edge_ok=lambda e: id(e) not in ok_edges)
        ctx.check('C03-S1', f'{norm(s.ast)}', gr.loc(s), w is None and w2 is None,
                  'set only after the call returned normally (or nothing to deliver)',
                  'the flag can be set after a failed call: the round ends and its arguments are dropped',
                  witness=render(gr, w or w2), construct=construct_key(r.run.qualname, 'set after failure'))
    if not r.set_:
        ctx.violation('C03-S1', 'the completion flag is never set', where_run, 'wait() never returns',
                      construct=construct_key(r.run.qualname, 'no set'))
    # S2
    if r.roundset is None:
        ctx.violation('C03-S2', 'no per-round input set', f'{FILE}:{r.process.lineno}',
                      construct=construct_key(r.process.qualname, 'no round set'))
        r.publish(ctx)
        return
    RS = r.roundset
    binds = [n for n in g.nodes if n.kind == 'store_name' and n.meta['name'] == RS]
    muts = []
    for sc in [r.process] + list(r.process.children):
        gg = build(sc, p) if sc.kind == 'function' else None
        if gg is None:
            continue
        for n in gg.nodes:
            if n.kind == 'call' and isinstance(n.ast.func, ast.Attribute) and isinstance(n.ast.func.value, ast.Name) \
                    and n.ast.func.value.id == RS and sc.binding_scope(RS) is r.process:
                muts.append((gg, n, n.ast.func.attr))
            if n.kind == 'store_name' and n.meta['name'] == RS and sc is not r.process and sc.binding_scope(RS) is r.process:
                muts.append((gg, n, 'rebind'))
            if n.kind == 'store_name' and n.meta['name'] == RS and isinstance(n.meta.get('stmt'), ast.AugAssign):
                muts.append((gg, n, 'augassign'))
    bad = [(gg, n, m) for gg, n, m in muts if m not in ('add', 'update', 'copy', '__len__', '__contains__')]
    in_loop = [b for b in binds if b.loops]
    ctx.check('C03-S2', f'{RS}: {len(binds)} binding(s), mutators {sorted({m for _, _, m in muts})}',
              g.loc(binds[0]) if binds else f'{FILE}:{r.process.lineno}',
              len(binds) == 1 and not bad and not in_loop, 'bound once per activation, only add()',
              'the round set is re-bound or shrunk before a successful call: arguments of a failed call are lost',
              witness=[f'{gg.loc(n)} {norm(n.ast)}' for gg, n, _ in bad] + [f'{g.loc(b)} rebinding inside the loop' for b in in_loop],
              construct=construct_key(r.process.qualname, 'round set shrinks', sorted({m for _, _, m in bad}), len(binds), bool(in_loop)))
    # RUN's parameter set must not be mutated either
    rp = r.run.params[1] if len(r.run.params) > 1 else None
    for n in gr.nodes:
        if n.kind == 'call' and isinstance(n.ast.func, ast.Attribute) and isinstance(n.ast.func.value, ast.Name) \
                and n.ast.func.value.id == rp and n.ast.func.attr in ('clear', 'discard', 'pop', 'remove', 'difference_update'):
            ctx.violation('C03-S2', f'{norm(n.ast)} in the runner', gr.loc(n), 'the runner shrinks the round set',
                          construct=construct_key(r.run.qualname, n.ast))
    # S3
    for c in r.callfunc:
        ee = [e for e in gr.succ[c.id] if e.label == 'exc' and e.classes and ({'Exception', 'BaseException'} & set(e.classes))]
        reached = reach(gr, [], start_edges=ee)
        esc = [e for n in gr.nodes if n.id in reached or n is c for e in gr.succ[n.id]
               if e.dst is gr.raise_exit and carries_exception(e.classes)]
        esc_direct = [e for e in ee if e.dst is gr.raise_exit]
        ctx.check('C03-S3', f'Exception edge of {norm(c.ast)} is contained in the runner', gr.loc(c),
                  not esc and not esc_direct and bool(ee), 'caught, logged, no flag set',
                  'an exception of the wrapped function escapes the runner: it kills the round (and the daemon) with its arguments',
                  construct=construct_key(r.run.qualname, 'exception escapes'))
    for rc in r.run_calls:
        ne = [e for e in g.succ[rc.id] if e.label != 'exc']
        w = must_pass(g, [], [g.exit, g.raise_exit], [r.round_head], start_edges=ne, edge_ok=_nonexc)
        ctx.check('C03-S3', f'after {norm(rc.ast)} control returns to the round loop', g.loc(rc), w is None,
                  'a failed call is followed by another collection cycle with the same set',
                  'after running the function the round ends regardless of the outcome', witness=render(g, w),
                  construct=construct_key(r.process.qualname, 'no retry'))
    # S4: every GET flows into a loader coroutine that is awaited
    def is_load_call(e: ast.AST) -> bool:
        return isinstance(e, ast.Call) and isinstance(e.func, ast.Name) and e.func.id == r.load.name
    lists = [n for n in g.nodes if n.kind == 'store_name' and isinstance(n.meta.get('value'), ast.List)
             and any(is_load_call(x) for x in n.meta['value'].elts)]
    L = lists[0].meta['name'] if lists else None
    for bg in r.blocking_get:
        par = parent(bg.ast)
        if isinstance(parent(par), ast.Call) and call_name(g, parent(par)) == 'asyncio.wait_for':
            continue  # this is the timed read being armed, consumed at `await TIMER`
        ok = is_load_call(par) and (isinstance(parent(par), ast.List) or isinstance(parent(par), ast.Await))
        ctx.check('C03-S4', f'blocking get -> {norm(par)[:60]}', g.loc(bg), ok, 'dequeued producer wrapped by the loader',
                  'a dequeued producer is not handed to the loader', construct=construct_key(r.process.qualname, 'get not loaded', par))
    for tg in r.timed_get:
        par = parent(tg.ast)
        ok = is_load_call(par) and isinstance(parent(par), ast.Await)
        ctx.check('C03-S4', f'timed get -> {norm(parent(par))[:70]}', g.loc(tg), ok, 'awaited inline through the loader',
                  'the producer delivered by the timed read is not loaded', construct=construct_key(r.process.qualname, 'timed get not loaded', par))
    if r.drain is not None:
        drains = [n for n in g.nodes if n.kind == 'call' and callee_info(g, n.ast)['kind'] == 'package'
                  and r.drain in callee_info(g, n.ast).get('scopes', [])]
        for d in drains:
            par = parent(d.ast)
            ok = isinstance(par, ast.Call) and g.res.path(par.func) == 'builtins.map' and isinstance(par.args[0], ast.Name) \
                and par.args[0].id == r.load.name and isinstance(parent(par), ast.Call) and isinstance(parent(par).func, ast.Attribute) \
                and parent(par).func.attr == 'extend' and isinstance(parent(par).func.value, ast.Name) and parent(par).func.value.id == L
            ctx.check('C03-S4', f'drained producers -> {norm(parent(par))[:70] if par is not None else None}', g.loc(d), ok,
                      'every drained producer becomes a loader coroutine in the gather list',
                      'drained producers are not all loaded', construct=construct_key(r.process.qualname, 'drain not loaded'))
    if L is not None:
        growth = lists + [n for n in g.nodes if n.kind == 'call' and isinstance(n.ast.func, ast.Attribute) and n.ast.func.attr in ('extend', 'append')
                          and isinstance(n.ast.func.value, ast.Name) and n.ast.func.value.id == L]
        consume = [n for n in g.nodes if n.kind == 'await' and isinstance(n.ast.value, ast.Call)
                   and call_name(g, n.ast.value) == 'asyncio.gather' and any(
            isinstance(a, ast.Starred) and isinstance(a.value, ast.Name) and a.value.id == L for a in n.ast.value.args)]
        drops = [n for n in g.nodes if n.kind == 'call' and isinstance(n.ast.func, ast.Attribute) and n.ast.func.attr == 'clear'
                 and isinstance(n.ast.func.value, ast.Name) and n.ast.func.value.id == L]
        def empty_false(e: Edge) -> bool:
            return e.src.kind == 'branch' and isinstance(e.src.meta['test'], ast.Name) and e.src.meta['test'].id == L and e.label == 'false'
        for gn in growth:
            starts = [e for e in g.succ[gn.id] if e.label != 'exc']
            w = must_pass(g, [], drops + [g.exit, r.round_head] + r.timed_get, consume, start_edges=starts,
                          edge_ok=lambda e: _nonexc(e) and not empty_false(e))
            # reaching round_head again without gather is fine only if nothing was dropped; require gather before the timed read
            w = must_pass(g, [], drops + [g.exit] + r.timed_get, consume, start_edges=starts,
                          edge_ok=lambda e: _nonexc(e) and not empty_false(e))
            ctx.check('C03-S4', f'loaders added by {norm(gn.ast)[:50]} are gathered before the list is cleared / the timer is awaited',
                      g.loc(gn), w is None and bool(consume), 'await gather(*list) on every non-exceptional path',
                      'loader coroutines can be dropped un-awaited (their producers are lost)', witness=render(g, w),
                      construct=construct_key(r.process.qualname, 'loaders not gathered'))
    else:
        ctx.violation('C03-S4', 'no loader list', f'{FILE}:{r.process.lineno}', 'dequeued producers are not collected',
                      construct=construct_key(r.process.qualname, 'no loader list'))
    # S5
    fors = [n for n in gl.nodes if n.kind == 'for_iter' and n.meta.get('is_async')]
    adds = [n for n in gl.nodes if n.kind == 'call' and isinstance(n.ast.func, ast.Attribute) and n.ast.func.attr == 'add'
            and isinstance(n.ast.func.value, ast.Name) and n.ast.func.value.id == RS]
    for fo in fors:
        ee = [e for e in gl.succ[fo.id] if e.label == 'exc']
        # a producer may also fail with CancelledError (a cancelled task/future handed to await_());
        # what may remain un-caught is only the rest of BaseException (KeyboardInterrupt, SystemExit, GeneratorExit)
        esc = [e for e in ee if e.dst is gl.raise_exit and (carries_exception(e.classes)
                                                             or {'CancelledError', 'BaseException'} & set(e.classes or ()))]
        reached = reach(gl, [], start_edges=ee)
        reraises = [n for n in gl.nodes if n.kind == 'raise' and n.id in reached]
        ctx.check('C03-S5', f'failure of {norm(fo.ast.iter)} is contained', gl.loc(fo), not esc and not reraises and bool(ee),
                  'handler covers Exception and CancelledError and does not re-raise',
                  'one failing producer (Exception, or CancelledError of a cancelled awaitable) aborts the gather: other producers\' arguments and its own prefix are lost',
                  construct=construct_key(r.load.qualname, 'producer failure escapes'))
        inbody = [a for a in adds if fo.ast in a.loops]
        ctx.check('C03-S5', f'{RS}.add(...) inside the producer loop', gl.loc(fo), bool(inbody) and len(inbody) == len(adds),
                  'each element is recorded as it arrives (prefix survives a later failure)',
                  'elements are recorded only after the producer finished: a failing producer loses its prefix',
                  construct=construct_key(r.load.qualname, 'add outside loop'))
        # S6
        tv = fo.ast.target.id if isinstance(fo.ast.target, ast.Name) else None
        for a in inbody:
            ok = a.ast.args and isinstance(a.ast.args[0], ast.Name) and a.ast.args[0].id == tv
            ctx.check('C03-S6', f'{norm(a.ast)}', gl.loc(a), bool(ok), 'adds the element produced', 'adds something other than the produced element',
                      construct=construct_key(r.load.qualname, a.ast))
    for c in r.callfunc:
        a0 = c.ast.value.args[0] if c.ast.value.args else None
        ok = isinstance(a0, ast.Name) and a0.id == rp
        passed = all(rc.ast.value.args and isinstance(rc.ast.value.args[0], ast.Name) and rc.ast.value.args[0].id == RS for rc in r.run_calls)
        ctx.check('C03-S6', f'{norm(c.ast)} with the round set', gr.loc(c), ok and passed and bool(r.run_calls),
                  'the function receives the round set itself', 'the function receives something other than the retained round set',
                  construct=construct_key(r.run.qualname, c.ast, 'argument'))
    # S7
    adaptors = {'__call__': '_obj_to_aiter', 'await_': '_awaitable_to_aiter', 'map': 'to_async_iter', 'amap': None}
    for ep in r.entry_points:
        ge = build(ep, p)
        puts = [n for n in ge.nodes if n.kind == 'call' and r.put is not None and callee_info(ge, n.ast)['kind'] == 'package'
                and r.put in callee_info(ge, n.ast).get('scopes', [])]
        argp = ep.params[1] if len(ep.params) > 1 else None
        ok = len(puts) == 1 and not puts[0].loops
        w = must_pass(ge, [ge.entry], [ge.exit], puts) if puts else None
        shape = False
        if puts:
            a = puts[0].ast.args[0] if puts[0].ast.args else None
            want = adaptors.get(ep.name)
            if want is None:
                shape = isinstance(a, ast.Name) and a.id == argp
            else:
                shape = isinstance(a, ast.Call) and isinstance(a.func, ast.Name) and a.func.id == want and len(a.args) == 1 \
                    and isinstance(a.args[0], ast.Name) and a.args[0].id == argp
        ctx.check('C03-S7', f'{ep.name}: {norm(puts[0].ast) if puts else "no put"}', f'{FILE}:{ep.lineno}',
                  ok and w is None and shape, 'exactly one hand-off with the right adaptor',
                  'an entry point does not enqueue its argument (exactly once, through its adaptor)', witness=render(ge, w),
                  construct=construct_key(ep.qualname, 'entry point'))
    for ad in ('_obj_to_aiter', '_awaitable_to_aiter'):
        sc = p.find(FILE, ad)
        if sc is None:
            ctx.undecided('C03-S7', f'adaptor {ad}', f'{FILE}:1', 'vanished')
            continue
        ga = build(sc, p)
        ys = [n for n in ga.nodes if n.kind == 'yield']
        w = must_pass(ga, [ga.entry], [ga.exit], ys, edge_ok=_nonexc)
        par = sc.params[0]
        shape = len(ys) == 1 and (norm(ys[0].ast.value) == par or norm(ys[0].ast.value) == f'await {par}')
        ctx.check('C03-S7', f'adaptor {ad}: {norm(ys[0].ast) if ys else None}', f'{FILE}:{sc.lineno}', w is None and shape,
                  'yields its element on every normal path', 'the adaptor can finish without yielding its element', witness=render(ga, w),
                  construct=construct_key(ad, 'adaptor'))
    # S8 / S9
    any_scopes = list(r.entry_points) + ([r.put] if r.put else [])
    for f in any_scopes:
        gg = build(f, p)
        for x in own_nodes(f.node):
            if self_attr(x) == r.q:
                # allowed only as `self.q.put_nowait` argument of call_soon_threadsafe
                par = parent(x)
                gpar = parent(par) if par is not None else None
                ok = isinstance(par, ast.Attribute) and par.attr == 'put_nowait' and isinstance(gpar, ast.Call) and par in gpar.args \
                    and isinstance(gpar.func, ast.Attribute) and gpar.func.attr == 'call_soon_threadsafe' and self_attr(gpar.func.value) == 'loop'
                ctx.check('C03-S8', f'{f.name}: {norm(gpar if ok else par)}', f'{FILE}:{x.lineno}', ok,
                          'queue touched only by a callback scheduled thread-safely on the owning loop',
                          'an asyncio.Queue is touched from a thread that may not be the loop\'s: a foreign put_nowait does not wake the loop',
                          construct=construct_key(f.qualname, 'queue touched', par))
            if self_attr(x) == r.flag:
                par = parent(x)
                if isinstance(par, ast.Attribute) and par.attr in ('clear', 'set'):
                    call = parent(par)
                    direct = isinstance(call, ast.Call) and call.func is par
                    if direct:
                        ctx.violation('C03-S9', f'{f.name}: {norm(call)}', f'{FILE}:{x.lineno}',
                                      'a loop-owned asyncio.Event is mutated on the caller\'s thread: a foreign clear() landing between '
                                      'set() and the round-loop test re-opens the finished round, so arguments already delivered are delivered again',
                                      construct=construct_key(f.qualname, call))
                    else:
                        ctx.holds('C03-S9', f'{f.name}: {norm(parent(par))}', f'{FILE}:{x.lineno}', 'scheduled on the loop')
    if not any(o.rule == 'C03-S9' for o in ctx.obs):
        ctx.holds('C03-S9', 'entry points never mutate the completion flag directly', f'{FILE}:{r.cls.lineno}')
    # foreign producer in to_async_iter
    tai = p.find(FILE, 'to_async_iter')
    if tai is not None:
        for c in tai.children:
            if c.kind == 'function' and not c.is_async:
                gg = build(c, p)
                for n in gg.nodes:
                    if n.kind == 'call':
                        info = callee_info(gg, n.ast)
                        if info['kind'] == 'partial':
                            pc = info['partial']
                            ok = info['name'].endswith('call_soon_threadsafe') and len(pc.args) == 2 and \
                                isinstance(pc.args[1], ast.Attribute) and pc.args[1].attr == 'put_nowait'
                            ctx.check('C03-S8', f'{c.qualname}: {norm(n.ast)} = {norm(pc)}', gg.loc(n), ok,
                                      'helper thread forwards through call_soon_threadsafe(q.put_nowait, x)',
                                      'the helper thread touches the asyncio.Queue directly',
                                      construct=construct_key(c.qualname, 'foreign put', pc))
    # S10
    for s in r.set_:
        w = None
        for x in [x for x in gr.nodes if x.suspends]:
            if find_path(gr, [s], [x]) is not None:
                w = find_path(gr, [s], [x])
        ctx.check('C03-S10', f'no suspension between {norm(s.ast)} and the end of the runner', gr.loc(s), w is None,
                  'atomic with the round-loop test', 'the runner can be suspended after setting the flag', witness=render(gr, w),
                  construct=construct_key(r.run.qualname, 'suspension after set'))
    for rc in r.run_calls:
        ne = [e for e in g.succ[rc.id] if e.label != 'exc']
        w = None
        for x in [x for x in g.nodes if x.suspends and x is not rc]:
            p1 = find_path(g, [], [x], avoid=[r.round_branch], start_edges=ne)
            if p1 is not None:
                w = p1
        after = reach(g, [], start_edges=[e for e in g.succ[r.round_branch.id] if e.label == 'true'])
        uses_after = [n for n in g.nodes if n.id in after and n is not r.round_branch and n.kind not in ('implicit_return', 'return', 'exit')
                      and n.ast is not None and r.round_loop not in n.loops]
        ctx.check('C03-S10', f'from {norm(rc.ast)} to the round-loop test: no suspension; nothing after the loop', g.loc(rc),
                  w is None and not uses_after, 'a finished round cannot be re-opened by a loop-thread submission',
                  'a submission can slip in between the successful call and the loop test' if w is not None else 'the activation continues after the round loop',
                  witness=render(g, w), construct=construct_key(r.process.qualname, 'window after run'))
    r.publish(ctx)


# ---------------------------------------------------------------------------
# C07
# ---------------------------------------------------------------------------

def c07(ctx: Ctx) -> None:
    r = BufferRoles(ctx)
    p = r.p
    g, gr = r.gproc, r.grun
    ctx.trusted += ['asyncio ready-queue FIFO order', 'Queue.join / task_done semantics', 'asyncio.Event wakes all waiters']
    ctx.rule('C07-W1', 'wait(): awaited queue join, then wait on the completion flag, nothing suspends after it', 1)
    ctx.rule('C07-W2', 'picked up => flag cleared: between the blocking get and its task_done there is a clear() and no suspension; other get/done pairs are under a cleared flag', 2)
    ctx.rule('C07-W3', 'every successful dequeue is followed by exactly one task_done on every non-exceptional path', 3)
    ctx.rule('C07-W4', 'wait() cancels only the timed read, and only when cancel is true and the read is pending', 1)
    ctx.rule('C07-W5', 'both TimeoutError and CancelledError of the timed read lead to running the function with the round set', 1)
    ctx.rule('C07-W6', 'the flag is an asyncio.Event and wait() never clears it', 1)
    ctx.rule('C07-W7', 'wait_from_anywhere runs wait(cancel=cancel) on the owning loop via ensure_aw', 1)
    ctx.rule('C07-W8', 'hand-off and join both travel the owning loop\'s ready queue', 2)
    ctx.rule('C07-W9', 'the daemon is cancellation-transparent: a handler that may catch CancelledError at a suspension point re-raises', 3)
    ctx.rule('C07-W10', 'DaemonTask subclasses asyncio.Task and overrides nothing that handles cancellation', 1)
    # W1
    if r.wait is None:
        raise AnalysisError('wait() vanished')
    gw = build(r.wait, p)
    joins = [n for n in gw.nodes if n.kind == 'await' and any(
        isinstance(x, ast.Call) and meth_call_ast(x, r.q, 'join') for x in ast.walk(n.ast))]
    fwaits = [n for n in gw.nodes if n.kind == 'await' and isinstance(n.ast.value, ast.Call) and meth_call_ast(n.ast.value, r.flag, 'wait')]
    w1 = must_pass(gw, [gw.entry], [gw.exit], joins, edge_ok=_nonexc)
    w2 = must_pass(gw, [gw.entry], [gw.exit], fwaits, edge_ok=_nonexc)
    w3 = find_path(gw, fwaits, joins) if fwaits and joins else None
    w4 = must_pass(gw, [gw.entry], fwaits, joins, edge_ok=_nonexc) if fwaits else None
    after = None
    for x in [x for x in gw.nodes if x.suspends and x not in fwaits]:
        if fwaits and find_path(gw, fwaits, [x]) is not None:
            after = find_path(gw, fwaits, [x])
    ok = bool(joins) and bool(fwaits) and w1 is None and w2 is None and w3 is None and w4 is None and after is None
    ctx.check('C07-W1', f'wait(): join {[norm(j.ast)[:50] for j in joins]} then {[norm(f.ast) for f in fwaits]}', f'{FILE}:{r.wait.lineno}', ok,
              'join proves "picked up", the flag then proves "delivered"',
              'wait() can return without the join or without waiting for the flag (or in the wrong order)',
              witness=render(gw, w1 or w2 or w3 or w4 or after), construct=construct_key(r.wait.qualname, 'barrier order'))
    # W2
    firsts = [bg for bg in r.blocking_get if not (isinstance(parent(parent(bg.ast)), ast.Call)
                                                  and call_name(g, parent(parent(bg.ast))) == 'asyncio.wait_for')
              and r.round_loop not in bg.loops]
    for bg in firsts:
        ne = [e for e in g.succ[bg.id] if e.label != 'exc']
        susp_nodes = [x for x in g.nodes if x.suspends and x is not bg]
        # the flag is cleared and the producer marked done before the daemon can be suspended again
        w = must_pass(g, [], susp_nodes + [g.exit], r.clear, start_edges=ne, edge_ok=_nonexc)
        susp = must_pass(g, [], susp_nodes + [g.exit], r.done, start_edges=ne, edge_ok=_nonexc)
        ctx.check('C07-W2', f'{norm(bg.ast)}: clear() and task_done() before the next suspension point', g.loc(bg),
                  w is None and susp is None and bool(r.clear),
                  'a waiter released by join() can only see a cleared flag',
                  'a waiter released by join() can see the stale set flag of the previous round and return before delivery',
                  witness=render(g, w or susp), construct=construct_key(r.process.qualname, 'stale flag window'))
    inner_done = [d for d in r.done if r.round_loop in d.loops]
    for d in inner_done:
        ctx.holds('C07-W2', f'{norm(d.ast)} inside the round loop (entered only while the flag is cleared)', g.loc(d))
    if r.drain is not None:
        gd = build(r.drain, p)
        dcalls = [n for n in g.nodes if n.kind == 'call' and callee_info(g, n.ast)['kind'] == 'package'
                  and r.drain in callee_info(g, n.ast).get('scopes', [])]
        okd = all(r.round_loop in n.loops for n in dcalls)
        ctx.check('C07-W2', 'the drain generator runs only inside the round loop', f'{FILE}:{r.drain.lineno}', okd and bool(dcalls),
                  'its task_done calls happen under a cleared flag', 'producers are drained outside the round loop',
                  construct=construct_key(r.process.qualname, 'drain outside round'))
    # no SET inside the round loop other than through RUN followed by the loop test
    # W3
    def pair_rule(gg: CFG, gets: List[Node], dones: List[Node], label: str) -> None:
        for ge in gets:
            ne = [e for e in gg.succ[ge.id] if e.label != 'exc']
            others = [x for x in gets if x is not ge]
            w = must_pass(gg, [], others + [gg.exit] + [ge], dones, start_edges=ne, edge_ok=_nonexc)
            ctx.check('C07-W3', f'{label}: {norm(ge.ast)[:60]} -> task_done', gg.loc(ge), w is None and bool(dones),
                      'one task_done per dequeued producer', 'a dequeued producer is never marked done: wait() hangs in join()',
                      witness=render(gg, w), construct=construct_key(gg.scope.qualname, 'get without task_done', ge.ast))
        got = lambda e: not (e.src in gets and e.label != 'exc')   # forbid "a get succeeded" edges
        for d in dones:
            starts = [e for x in dones for e in gg.succ[x.id] if e.label != 'exc']
            w = find_path(gg, [], [d], start_edges=starts, edge_ok=got)
            w0 = find_path(gg, [gg.entry], [d], edge_ok=got)
            ctx.check('C07-W3', f'{label}: no second/unpaired {norm(d.ast)}', gg.loc(d), w is None and w0 is None,
                      'task_done only after a dequeue', 'an extra task_done releases join() before its producer was picked up',
                      witness=render(gg, w or w0), construct=construct_key(gg.scope.qualname, 'extra task_done', d.ast))
    real_gets = [bg for bg in r.blocking_get if not (isinstance(parent(parent(bg.ast)), ast.Call)
                                                     and call_name(g, parent(parent(bg.ast))) == 'asyncio.wait_for')] + r.timed_get
    pair_rule(g, real_gets, r.done, r.process.name)
    if r.drain is not None:
        gd = build(r.drain, p)
        dg = [n for n in gd.nodes if meth_call(n, r.q, 'get_nowait')]
        dd = [n for n in gd.nodes if meth_call(n, r.q, 'task_done')]
        pair_rule(gd, dg, dd, r.drain.name)
    for f in r.methods.values():
        if f in (r.process, r.drain):
            continue
        gg = build(f, p)
        for n in gg.nodes:
            if meth_call(n, r.q, 'task_done'):
                ctx.violation('C07-W3', f'{norm(n.ast)} in {f.name}', gg.loc(n), 'task_done outside the dequeuing code',
                              construct=construct_key(f.qualname, n.ast))
    # W4
    cancels = [n for n in gw.nodes if n.kind == 'call' and isinstance(n.ast.func, ast.Attribute) and n.ast.func.attr == 'cancel']
    cb = [n for n in gw.nodes if n.kind == 'branch' and isinstance(n.meta['test'], ast.Name) and n.meta['test'].id == 'cancel']
    for c in cancels:
        target_ok = self_attr(c.ast.func.value) == r.timer
        w = find_path(gw, [gw.entry], [c], edge_ok=lambda e: not (e.src in cb and e.label == 'true'))
        done_b = [n for n in gw.nodes if n.kind == 'branch' and isinstance(n.meta['test'], ast.Call) and isinstance(n.meta['test'].func, ast.Attribute)
                  and n.meta['test'].func.attr == 'done' and self_attr(n.meta['test'].func.value) == r.timer]
        w2 = find_path(gw, [gw.entry], [c], edge_ok=lambda e: not (e.src in done_b and e.label == 'false')) if done_b else []
        ctx.check('C07-W4', f'{norm(c.ast)}', gw.loc(c), target_ok and w is None and w2 is None,
                  'cancels the pending timed read only when asked to', 'wait() cancels something else, or also with cancel=False / a finished read',
                  witness=render(gw, w or (w2 or None)), construct=construct_key(r.wait.qualname, c.ast))
    if not cancels:
        ctx.violation('C07-W4', 'wait(cancel=True) never cancels the timed read', f'{FILE}:{r.wait.lineno}',
                      'a flush has to sit out the whole quiet period', construct=construct_key(r.wait.qualname, 'no cancel'))
    # W5
    for tg in r.timed_get:
        for cls_ in ('TimeoutError', 'CancelledError'):
            ee = [e for e in g.succ[tg.id] if e.label == 'exc' and e.classes and cls_ in e.classes and e.dst.kind == 'except']
            w = must_pass(g, [], [g.exit, g.raise_exit, r.round_head], r.run_calls, start_edges=ee) if ee else None
            okarg = all(rc.ast.value.args and isinstance(rc.ast.value.args[0], ast.Name) and rc.ast.value.args[0].id == r.roundset
                        for rc in r.run_calls)
            ctx.check('C07-W5', f'{cls_} edge of {norm(tg.ast)} -> run the function', g.loc(tg), bool(ee) and w is None and okarg,
                      'flush', f'{cls_} of the timed read does not lead to a flush' + (' (wait(cancel=True) would not return early)' if cls_ == 'CancelledError' else ''),
                      witness=render(g, w), construct=construct_key(r.process.qualname, 'no flush on', cls_))
    # W6
    clears_in_wait = [n for n in gw.nodes if meth_call(n, r.flag, 'clear') or meth_call(n, r.flag, 'set')]
    ctx.check('C07-W6', f'self.{r.flag} is {r.kinds[r.flag][0]}; wait() mutates it {len(clears_in_wait)} time(s)', f'{FILE}:{r.wait.lineno}',
              r.kinds[r.flag][0] == 'asyncio.Event' and not clears_in_wait, 'broadcast to all concurrent waiters',
              'a waiter consumes/clears the flag: other concurrent waiters hang', construct=construct_key(r.wait.qualname, 'flag mutated in wait'))
    # W7
    if r.wait_anywhere is not None:
        ga = build(r.wait_anywhere, p)
        rets = [n for n in ga.nodes if n.kind == 'return']
        ok = False
        for rn in rets:
            v = rn.ast.value
            if isinstance(v, ast.Await):
                v = v.value
            if isinstance(v, ast.Call) and isinstance(v.func, ast.Name) and v.func.id == 'ensure_aw' and len(v.args) == 2:
                a0, a1 = v.args
                ok = isinstance(a0, ast.Call) and self_attr(a0.func) == 'wait' and self_attr(a1) == 'loop' and \
                    any(k.arg == 'cancel' and isinstance(k.value, ast.Name) and k.value.id == 'cancel' for k in a0.keywords)
        ctx.check('C07-W7', f'wait_from_anywhere: {norm(rets[0].ast) if rets else None}', f'{FILE}:{r.wait_anywhere.lineno}', ok,
                  'same cancel flag, the stored loop', 'foreign waiters do not run wait() on the owning loop with their cancel flag',
                  construct=construct_key(r.wait_anywhere.qualname, 'delegation'))
    # W8
    if r.put is not None:
        gp = build(r.put, p)
        hand = [n for n in gp.nodes if n.kind == 'call' and isinstance(n.ast.func, ast.Attribute) and n.ast.func.attr == 'call_soon_threadsafe'
                and self_attr(n.ast.func.value) == 'loop']
        other = [n for n in gp.nodes if n.kind == 'call' and isinstance(n.ast.func, ast.Attribute) and n.ast.func.attr in ('call_later', 'call_at', 'run_in_executor', 'call_soon')]
        ctx.check('C07-W8', f'hand-off: {[norm(h.ast) for h in hand]}', f'{FILE}:{r.put.lineno}', len(hand) == 1 and not other,
                  'enters the owning loop\'s ready queue', 'the hand-off takes a detour (timer/executor/non-thread-safe call): a later join can overtake it',
                  construct=construct_key(r.put.qualname, 'hand-off'))
    jn = joins[0] if joins else None
    if jn is not None:
        v = jn.ast.value
        ok = (isinstance(v, ast.Call) and isinstance(v.func, ast.Attribute) and v.func.attr == 'create_task' and self_attr(v.func.value) == 'loop') \
            or (isinstance(v, ast.Call) and call_name(gw, v) in ('asyncio.create_task', 'asyncio.ensure_future'))
        ctx.check('C07-W8', f'join: {norm(jn.ast)}', gw.loc(jn), ok,
                  'the join starts as a task, i.e. behind the already scheduled put callbacks in the ready queue',
                  'join() awaited inline runs before a put that is still pending in the ready queue (call_soon_threadsafe): '
                  'it sees no unfinished task for a just-submitted argument and wait() returns too early',
                  construct=construct_key(r.wait.qualname, 'join placement'))
    init_loop = r.kinds.get(r.daemon_attr)
    # W9
    for f in r.daemon_scopes():
        gg = build(f, p)
        offenders_before = len([o for o in ctx.obs if o.rule == 'C07-W9'])
        hs = [n for n in gg.nodes if n.kind == 'except']
        if not any(({'CancelledError', 'BaseException'} & set(h.meta.get('caught', set()))) and
                   any(e.label == 'exc' and e.src.suspends for e in gg.pred[h.id]) for h in hs):
            ctx.holds('C07-W9', f'{f.qualname}: no handler catches a cancellation delivered at a suspension point',
                      f'{FILE}:{f.lineno}', examined=len(hs) + 1)
        for h in hs:
            caught = h.meta.get('caught', set())
            if not ({'CancelledError', 'BaseException'} & set(caught)):
                continue
            # which suspension points feed a CancelledError into this handler?
            feeders = [e.src for e in gg.pred[h.id] if e.label == 'exc' and e.src.suspends and e.classes
                       and ({'CancelledError', 'BaseException'} & set(e.classes))]
            if not feeders:
                continue
            # every path from the handler must leave by raising CancelledError/BaseException
            def guard_edge(e: Edge) -> bool:
                t = e.src.meta.get('test') if e.src.kind == 'branch' else None
                return t is not None and any(isinstance(x, ast.Attribute) and x.attr == 'cancelling' for x in ast.walk(t))
            targets = [gg.exit] + [n for n in gg.nodes if n.kind == 'loop_head'] + \
                      [n for n in gg.nodes if n.kind in ('implicit_return',)]
            w = find_path(gg, [h], targets, edge_ok=lambda e: not guard_edge(e))
            inst = f'{f.qualname}: except {norm(h.ast.type) if h.ast.type else "(bare)"} around {sorted({norm(x.ast)[:40] for x in feeders})}'
            ctx.check('C07-W9', inst, gg.loc(h), w is None,
                      're-raises the cancellation',
                      'a CancelledError aimed at the daemon is swallowed here: the `while True` daemon goes on and loop shutdown never finishes',
                      witness=render(gg, w), construct=construct_key(f.qualname, 'swallows cancel', h.ast.type or 'bare'))
    # W10
    dt = r.u.scopes.get('DaemonTask')
    if dt is None:
        ctx.undecided('C07-W10', 'DaemonTask', f'{FILE}:1', 'class vanished')
    else:
        bases = [Resolver(r.u.module_scope).path(b) for b in dt.node.bases]
        defined = set()
        for s in ast.walk(dt.node):
            if isinstance(s, (ast.FunctionDef, ast.AsyncFunctionDef)):
                defined.add(s.name)
            if isinstance(s, ast.Assign):
                defined |= {t.id for t in s.targets if isinstance(t, ast.Name)}
        bad = defined - {'__del__', '__init__', '__slots__', '__doc__'}
        ctx.check('C07-W10', f'DaemonTask({bases}) defines {sorted(defined)}', f'{FILE}:{dt.lineno}',
                  bases == ['asyncio.Task'] and not bad, 'cancel()/__await__/_step are asyncio.Task\'s own',
                  f'the daemon wrapper overrides {sorted(bad)}', construct=construct_key('DaemonTask', 'overrides', sorted(bad), bases))
    r.publish(ctx)


# ---------------------------------------------------------------------------
# C08
# ---------------------------------------------------------------------------

def c08(ctx: Ctx) -> None:
    r = BufferRoles(ctx)
    p = r.p
    g, gr = r.gproc, r.grun
    ctx.trusted += ['asyncio.wait_for timer', 'a single asyncio task runs one coroutine step at a time']
    ctx.rule('C08-D1', 'one awaited call site of the wrapped function, reached from the daemon root by awaited calls only; the root is spawned once', 2)
    ctx.rule('C08-D2', 'the call is control-dependent on the truthiness of the set it passes', 1)
    ctx.rule('C08-D3', 'the function runs only after a freshly armed quiet timer expired (or was cancelled), once per expiry; the timer wraps queue.get() in wait_for(_, self.timeout)', 4)
    ctx.rule('C08-D4', 'drain precedes arming, everything drained is gathered before the timer is awaited, a successful timed get returns to the loop head', 3)
    # D1
    sites = []
    for f in p.all_functions():
        gg = build(f, p)
        for n in gg.nodes:
            if n.kind == 'call' and self_attr(n.ast.func) == 'func' and (f.enclosing_class() is r.cls or (
                    f.enclosing_function() is not None and f.enclosing_function().enclosing_class() is r.cls)):
                sites.append((gg, n))
    awaited = [(gg, n) for gg, n in sites if isinstance(parent(n.ast), ast.Await)]
    dscopes = r.daemon_scopes()
    ok = len(sites) == 1 and len(awaited) == 1 and sites[0][0].scope in dscopes
    ctx.check('C08-D1', f'call sites of self.func: {[(gg.scope.qualname, norm(parent(n.ast))) for gg, n in sites]}', f'{FILE}:{r.run.lineno}', ok,
              'single, awaited inline, inside the daemon', 'the wrapped function can be started a second time / as a separate task: overlapping calls',
              construct=construct_key(r.cls.qualname, 'call sites', len(sites), len(awaited)))
    spawns = []
    for f in p.all_functions():
        gg = build(f, p)
        for n in gg.nodes:
            if n.kind == 'call':
                info = n.meta.get('callee') or callee_info(gg, n.ast)
                if info['kind'] == 'package' and any(s in dscopes for s in info.get('scopes', [])):
                    awaited_ = isinstance(parent(n.ast), ast.Await)
                    if not awaited_:
                        spawns.append((gg, n))
    # un-awaited daemon coroutine objects: allowed: the root in __init__ (once) and loader coroutines collected for gather
    bad = [(gg, n) for gg, n in spawns if not (gg.scope is r.init and not n.loops) and
           not (callee_info(gg, n.ast).get('scopes', [None])[0] is r.load)]
    root_spawns = [(gg, n) for gg, n in spawns if gg.scope is r.init]
    ctx.check('C08-D1', f'daemon coroutines started without await: root {len(root_spawns)}x in __init__, others {[(gg.scope.qualname, norm(n.ast)) for gg, n in bad]}',
              f'{FILE}:{r.init.lineno}', len(root_spawns) == 1 and not bad, 'one daemon', 'a second processing task can run the function concurrently',
              construct=construct_key(r.cls.qualname, 'daemon spawns', len(root_spawns), len(bad)))
    # D2
    for c in r.callfunc:
        a0 = c.ast.value.args[0] if c.ast.value.args else None
        br = [n for n in gr.nodes if n.kind == 'branch' and isinstance(n.meta['test'], ast.Name) and isinstance(a0, ast.Name)
              and n.meta['test'].id == a0.id]
        w = find_path(gr, [gr.entry], [c], edge_ok=lambda e: not (e.src in br and e.label == 'true'))
        ctx.check('C08-D2', f'{norm(c.ast)} only if {norm(a0) if a0 is not None else None}', gr.loc(c), bool(br) and w is None,
                  'never called with an empty set', 'the function can be called with an empty set', witness=render(gr, w),
                  construct=construct_key(r.run.qualname, 'empty call'))
    # D3
    if r.timer is None or not r.arm:
        ctx.violation('C08-D3', 'no quiet timer', f'{FILE}:{r.process.lineno}', 'the function is not triggered by a quiet period',
                      construct=construct_key(r.process.qualname, 'no timer'))
        r.publish(ctx)
        return
    gets = [bg for bg in r.blocking_get if not (isinstance(parent(parent(bg.ast)), ast.Call)
                                                and call_name(g, parent(parent(bg.ast))) == 'asyncio.wait_for')] + r.timed_get
    for ge in gets:
        ne = [e for e in g.succ[ge.id] if e.label != 'exc']
        w = must_pass(g, [], r.run_calls, r.arm, start_edges=ne)
        ctx.check('C08-D3', f'after {norm(ge.ast)[:50]} a fresh timer is armed before the function can run', g.loc(ge), w is None,
                  're-armed per arrival', 'the function can run right after an arrival without a new quiet period', witness=render(g, w),
                  construct=construct_key(r.process.qualname, 'run without fresh timer', ge.ast))
    for rc in r.run_calls:
        # reachable only through the Timeout/Cancelled edges of `await TIMER`
        trig = {id(e) for tg in r.timed_get for e in g.succ[tg.id] if e.label == 'exc' and e.classes
                and ({'TimeoutError', 'CancelledError'} & set(e.classes))}
        w = find_path(g, [g.entry], [rc], edge_ok=lambda e: id(e) not in trig)
        ctx.check('C08-D3', f'{norm(rc.ast)} is reached only through the expiry/cancel edge of the timed read', g.loc(rc), w is None and bool(trig),
                  'the timer is the sole trigger', 'the function is triggered by something other than the quiet timer', witness=render(g, w),
                  construct=construct_key(r.process.qualname, 'other trigger'))
    for c in r.callfunc:
        w = find_path(gr, [], [c], start_edges=list(gr.succ[c.id]))
        ctx.check('C08-D3', f'{norm(c.ast)} runs at most once per expiry of the quiet timer', gr.loc(c), w is None,
                  'a retry goes back through drain + fresh timer', 'the function is re-run inside the runner without a new quiet period: '
                  'arguments arriving in between are neither merged nor restart the timer', witness=render(gr, w),
                  construct=construct_key(r.run.qualname, 'call in a loop'))
    # the timer wraps Q.get() in wait_for(_, self.timeout)
    arm = r.arm[0]
    v = arm.meta['value']
    wf = None
    inner_ok = False
    if r.arm_helper is not None:
        for x in own_nodes(r.arm_helper.node):
            if isinstance(x, ast.Call) and Resolver(r.arm_helper).path(x.func) == 'asyncio.wait_for':
                wf = x
        hp = r.arm_helper.params[1] if len(r.arm_helper.params) > 1 else None
        inner_ok = wf is not None and wf.args and isinstance(wf.args[0], ast.Name) and wf.args[0].id == hp and \
            v.args and isinstance(v.args[0], ast.Call) and meth_call_ast(v.args[0], r.q, 'get')
    else:
        for x in ast.walk(v):
            if isinstance(x, ast.Call) and g.res.path(x.func) == 'asyncio.wait_for':
                wf = x
        inner_ok = wf is not None and wf.args and isinstance(wf.args[0], ast.Call) and meth_call_ast(wf.args[0], r.q, 'get')
    t = None
    if wf is not None:
        t = wf.args[1] if len(wf.args) > 1 else next((k.value for k in wf.keywords if k.arg == 'timeout'), None)
    tv = None
    for n in own_nodes(r.init.node):
        if isinstance(n, ast.Assign) and self_attr(n.targets[0]) == 'timeout':
            tv = n.value
    ok = inner_ok and self_attr(t) == 'timeout' and isinstance(tv, ast.Name) and tv.id == 'timeout'
    ctx.check('C08-D3', f'timer = wait_for(queue.get(), {norm(t) if t is not None else None}); self.timeout = {norm(tv) if tv is not None else None}',
              g.loc(arm), bool(ok), 'the configured quiet period bounds a read of the queue', 'the quiet timer is not wait_for(queue.get(), self.timeout)',
              construct=construct_key(r.process.qualname, 'timer shape'))
    # D4
    drains = [n for n in g.nodes if n.kind == 'call' and r.drain is not None and callee_info(g, n.ast)['kind'] == 'package'
              and r.drain in callee_info(g, n.ast).get('scopes', [])]
    for a in r.arm:
        w = must_pass(g, [r.round_head], [a], drains)
        ctx.check('C08-D4', 'on every iteration the drain precedes arming the timer', g.loc(a), w is None and bool(drains),
                  'everything already queued joins the same round', 'the timer can be armed without draining what is already queued',
                  witness=render(g, w), construct=construct_key(r.process.qualname, 'arm before drain'))
    for tg in r.timed_get:
        ne = [e for e in g.succ[tg.id] if e.label != 'exc']
        w = find_path(g, [], r.run_calls, avoid=[r.round_head], start_edges=ne)
        ctx.check('C08-D4', 'a successful timed get returns to the loop head (re-drain, re-arm), not to the function', g.loc(tg), w is None,
                  'a burst is one call', 'an arrival during the quiet period triggers the function', witness=render(g, w),
                  construct=construct_key(r.process.qualname, 'arrival triggers run'))
    gath = [n for n in g.nodes if n.kind == 'await' and isinstance(n.ast.value, ast.Call) and call_name(g, n.ast.value) == 'asyncio.gather']
    for d in drains:
        ne = [e for e in g.succ[d.id] if e.label != 'exc']
        def empty_false(e: Edge) -> bool:
            return e.src.kind == 'branch' and isinstance(e.src.meta['test'], ast.Name) and e.label == 'false'
        w = must_pass(g, [], r.timed_get, gath, start_edges=ne, edge_ok=lambda e: _nonexc(e) and not empty_false(e))
        ctx.check('C08-D4', 'everything drained is gathered before the timed read is awaited', g.loc(d), w is None and bool(gath),
                  'immediately available arguments are loaded before the quiet period can expire',
                  'the timer can be awaited with drained producers still unloaded', witness=render(g, w),
                  construct=construct_key(r.process.qualname, 'await timer before gather'))
    r.publish(ctx)
