"""buffer_until_timeout / BufferAsyncCalls: C03, C07, C08 (DESIGN 4.C).

All daemon-side rules are evaluated on ONE graph: the CFG of the daemon's root
coroutine with every awaited/called private method and nested helper inlined
(`inline_methods=True`).  Extracting or inlining helpers, aliasing `self.q` in a
local, splitting statements or restructuring try/else therefore do not change
what the rules see; names are compared after value resolution (sa.dataflow).
"""
from __future__ import annotations

import ast
import itertools
from typing import Dict, List, Optional, Set, Tuple

from ..cfg import CFG, Edge, Node, build, callee_info, find_method
from ..core import Ctx, construct_key, norm, norm_locals
from ..dataflow import alternatives, resolve
from ..load import AnalysisError, Resolver, Scope, dotted, own_nodes, parent
from ..model import carries_exception
from ..paths import find_path, must_pass, reach, render
from ..sym import call_name, enum_paths

FILE = 'aiuti/asyncio.py'


def self_attr(e: ast.AST) -> Optional[str]:
    if isinstance(e, ast.Attribute) and isinstance(e.value, ast.Name) and e.value.id == 'self':
        return e.attr
    return None


def _nonexc(e: Edge) -> bool:
    return e.label != 'exc'


def _rule_spawn(ctx: Ctx, r: 'BufferRoles', rule: str) -> None:
    """One daemon per buffer, for the buffer's whole life: it is spawned in the constructor (an entry point that starts it on first
    use can run on two threads at once - two daemons then share one queue, each with its own round set and timer), and the
    buffer holds the task itself (the event loop keeps only weak references to tasks: a task reachable through a weakref alone
    can be collected while it is suspended, taking the round's arguments with it)."""
    m, n = r.spawn_site
    ctx.check(rule, f'the daemon is spawned in {m.qualname}', f'{FILE}:{n.line}', r.spawn_elsewhere is None,
              'once, when the buffer is built', f'the daemon is started by {m.name}() on first use: two first submissions from different threads can both '
              'find it missing and start two daemons on one queue - bursts are split between them and the function can run twice at once',
              construct=construct_key('BUFFER', 'daemon spawned lazily', m.name))
    par = parent(n.ast)
    strong = isinstance(par, (ast.Assign, ast.AnnAssign)) and getattr(par, 'value', None) is n.ast and any(
        isinstance(t, ast.Attribute) and isinstance(t.value, ast.Name) and t.value.id == 'self'
        for t in (par.targets if isinstance(par, ast.Assign) else [par.target]))
    if not strong and isinstance(par, ast.Return):
        strong = True       # a factory method returning the task: the caller's assignment is checked at its own site
    ctx.check(rule, f'the buffer keeps the daemon task itself: {norm(par)[:70] if par is not None else None}', f'{FILE}:{n.line}', strong,
              'a strong reference for the life of the buffer', 'the task is not stored, or stored only through weakref.ref / proxy / a weak container: '
              'the loop references tasks weakly, so the daemon can be garbage-collected while suspended (e.g. inside the wrapped function) - the '
              'round is lost and nothing submitted later is delivered', construct=construct_key('BUFFER', 'daemon not strongly referenced'))


def rpath(g: CFG, n: Node, expr: Optional[ast.AST]) -> Optional[str]:
    """Canonical access path of *expr* at node *n*, local aliases resolved."""
    if expr is None:
        return None
    r = resolve(g, n, expr)
    return g.res.path(r) or g.res.path(expr)


def is_meth(g: CFG, n: Node, recv_path: str, method: str) -> bool:
    return n.kind == 'call' and isinstance(n.ast.func, ast.Attribute) and n.ast.func.attr == method \
        and rpath(g, n, n.ast.func.value) == recv_path


def call_of(g: CFG, n: Node, expr: ast.AST) -> Optional[ast.Call]:
    r = resolve(g, n, expr)
    return r if isinstance(r, ast.Call) else None


class BufferRoles:
    def __init__(self, ctx: Ctx):
        p = ctx.program
        self.p = p
        u = p.unit(FILE)
        self.u = u
        self.cls = None
        for c in u.classes():
            init = u.scopes.get(f'{c.qualname}.__init__')
            if init is None:
                continue
            r = Resolver(init)
            kinds = {}
            for n in own_nodes(init.node):
                if isinstance(n, (ast.Assign, ast.AnnAssign)) and isinstance(n.value, ast.Call):
                    tg = n.targets[0] if isinstance(n, ast.Assign) else n.target
                    a = self_attr(tg)
                    if a:
                        kinds[a] = (r.path(n.value.func) or norm(n.value.func), n.value)
            names = {k for k, _ in kinds.values()}
            if 'asyncio.Queue' in names and 'asyncio.Event' in names:
                self.cls, self.init, self.kinds = c, init, kinds
        if self.cls is None:
            raise AnalysisError('buffer class (asyncio.Queue + asyncio.Event in __init__) not found')
        self._post_init(ctx, p, u)

    def _reads_timer(self, n) -> bool:
        """Does `await X` at *n* await the armed timer: X is the timer attribute, or a local that on every path holds
        what the arming statement stored (`t = self._timer = arm(...)` ... `await t`) or a read of the attribute?"""
        G = self.G
        v = n.ast.value
        if rpath(G, n, v) == self.TIMER:
            return True
        if not isinstance(v, ast.Name):
            return False
        from ..dataflow import leaves
        arm_vals = [a.meta.get('value') for a in self.arm if a.meta.get('value') is not None]

        def same(a: ast.AST, b: ast.AST) -> bool:
            return (getattr(a, 'lineno', None), getattr(a, 'col_offset', None)) == (getattr(b, 'lineno', None), getattr(b, 'col_offset', None)) \
                and norm(a) == norm(b)
        lfs = leaves(G, n, v)
        return bool(lfs) and all(any(same(lf, av) for av in arm_vals) or (isinstance(lf, ast.Attribute) and norm(lf) == self.TIMER)
                                 for lf in lfs)

    def _post_init(self, ctx, p, u) -> None:
        cls = self.cls
        self.q = next(a for a, (k, _) in self.kinds.items() if k == 'asyncio.Queue')
        self.flag = next(a for a, (k, _) in self.kinds.items() if k == 'asyncio.Event')
        self.Q, self.FLAG = f'self.{self.q}', f'self.{self.flag}'
        self.methods = {f.name: f for f in u.functions() if f.enclosing_class() is cls}
        # daemon root: the coroutine handed to DaemonTask(...) / create_task(...) in __init__
        gi = build(self.init, p)
        self.ginit = gi
        self.root = None
        for n in gi.nodes:
            if n.kind != 'call' or not n.ast.args:
                continue
            a0 = call_of(gi, n, n.ast.args[0])
            if a0 is not None and self_attr(a0.func) in self.methods and self.methods[self_attr(a0.func)].is_async:
                callee = (gi.res.path(n.ast.func) or norm(n.ast.func))
                if callee.endswith('DaemonTask') or callee.endswith('create_task') or callee.endswith('ensure_future') or callee.endswith('Task'):
                    self.root = self.methods[self_attr(a0.func)]
                    self.spawn_site = (self.init, n)
        self.spawn_elsewhere = None
        if self.root is None:
            # not in the constructor: spawned lazily by some other method (found so that the rules can say what is wrong with that)
            for m in self.methods.values():
                if m is self.init:
                    continue
                gm = build(m, p)
                for n in gm.nodes:
                    if n.kind != 'call' or not n.ast.args:
                        continue
                    a0 = call_of(gm, n, n.ast.args[0])
                    if a0 is not None and self_attr(a0.func) in self.methods and self.methods[self_attr(a0.func)].is_async:
                        callee = (gm.res.path(n.ast.func) or norm(n.ast.func))
                        if callee.endswith('DaemonTask') or callee.endswith('create_task') or callee.endswith('ensure_future') or callee.endswith('Task'):
                            self.root = self.methods[self_attr(a0.func)]
                            self.spawn_elsewhere = (m, n)
                            self.spawn_site = (m, n)
        if self.root is None:
            raise AnalysisError('daemon task of the buffer not found in __init__')
        G = build(self.root, p, inline_methods=True)
        G.__dict__['event_flags'] = {self.FLAG}
        self.G = G
        self.blocking_get = [n for n in G.nodes if n.kind == 'await' and isinstance(n.ast.value, ast.Call)
                             and isinstance(n.ast.value.func, ast.Attribute) and n.ast.value.func.attr == 'get'
                             and rpath(G, n, n.ast.value.func.value) == self.Q]
        # timer: attribute assigned a task that wraps queue.get() in wait_for
        self.timer = None
        self.arm: List[Node] = []
        for n in G.nodes:
            if n.kind == 'store_attr' and self_attr(n.ast) and n.meta.get('value') is not None:
                v = resolve(G, n, n.meta['value'])
                if any(isinstance(x, ast.Call) and G.res.path(x.func) == 'asyncio.wait_for' for x in ast.walk(v)):
                    self.timer = self_attr(n.ast)
        if self.timer:
            self.arm = [n for n in G.nodes if n.kind == 'store_attr' and self_attr(n.ast) == self.timer]
        self.TIMER = f'self.{self.timer}' if self.timer else None
        self.timed_get = [n for n in G.nodes if n.kind == 'await' and self.TIMER and self._reads_timer(n)]
        self.done = [n for n in G.nodes if is_meth(G, n, self.Q, 'task_done')]
        self.clear = [n for n in G.nodes if is_meth(G, n, self.FLAG, 'clear')]
        self.set_ = [n for n in G.nodes if is_meth(G, n, self.FLAG, 'set')]
        self.callfunc_calls = [n for n in G.nodes if n.kind == 'call' and self_attr(n.ast.func) == 'func']
        self.callfunc = [n for n in G.nodes if n.kind == 'await' and isinstance(n.ast.value, ast.Call) and self_attr(n.ast.value.func) == 'func']
        # round loop: governed by FLAG.is_set()
        rb = [n for n in G.nodes if n.kind == 'branch' and isinstance(n.meta['test'], ast.Call) and isinstance(n.meta['test'].func, ast.Attribute)
              and n.meta['test'].func.attr == 'is_set' and rpath(G, n, n.meta['test'].func.value) == self.FLAG
              and not n.meta.get('in_assert')]       # (an assert about the flag states an invariant, it governs nothing)
        if not rb:
            raise AnalysisError('round loop (test of the completion flag in the daemon) not found')
        self.round_branch = rb[0]
        b = self.round_branch
        loop = None
        for x in ast.walk(self.root.unit.tree):
            if isinstance(x, ast.While) and any(y is b.meta['test'] for y in ast.walk(x.test)):
                loop = x
        if loop is None and b.loops:
            loop = b.loops[-1]
        if loop is None:
            raise AnalysisError('round loop statement not found')
        self.round_loop = loop
        self.round_head = next(n for n in G.nodes if n.kind == 'loop_head' and n.ast is loop)
        self.round_exit_label = 'true'     # the edge of `FLAG.is_set()` that leaves the round
        # LOAD: coroutine iterating a producer (`async for`) into a set: a closure of the daemon adding to a
        # closure set, or a (static) method adding to a set it is given (bound with functools.partial / passed at the call)
        self.load = None
        self.roundset = None
        self.load_set_param: Optional[int] = None     # position of the set parameter, when the set is passed in
        for f in u.functions():
            if not f.is_async:
                continue
            top = f
            while top.enclosing_function() is not None:
                top = top.enclosing_function()
            if top.enclosing_class() is not cls:
                continue
            if any(isinstance(x, ast.AsyncFor) for x in own_nodes(f.node)):
                for y in own_nodes(f.node):
                    if isinstance(y, ast.Call) and isinstance(y.func, ast.Attribute) and y.func.attr in ('add', 'update') \
                            and isinstance(y.func.value, ast.Name):
                        nm = y.func.value.id
                        if f.enclosing_function() is not None and f.binding_scope(nm) not in (None, f):
                            self.load = f
                            self.roundset = nm
                        elif nm in f.params and nm not in ('self', 'cls'):
                            self.load = f
                            ps = [x for x in f.params if x not in ('self', 'cls')]
                            self.load_set_param = ps.index(nm)
        if self.load is None:
            self._diagnose_list_loader(ctx)
            raise AnalysisError('producer loader (nested coroutine with async for adding to a closure set) not found')
        if self.load_set_param is not None:
            # the set the daemon binds to that parameter
            bound: Set[str] = set()
            for x in ast.walk(self.root.unit.tree):
                if isinstance(x, ast.Call):
                    pre = self.loader_ref(x.func)
                    if pre is not None:
                        args = pre + list(x.args)
                        if len(args) > self.load_set_param and isinstance(args[self.load_set_param], ast.Name):
                            bound.add(args[self.load_set_param].id)
                    elif G.res.path(x.func) == 'functools.partial' and x.args and self._names_loader(x.args[0]):
                        args = list(x.args[1:])
                        if len(args) > self.load_set_param and isinstance(args[self.load_set_param], ast.Name):
                            bound.add(args[self.load_set_param].id)
            if len(bound) != 1:
                raise AnalysisError(f'round set bound to the loader is not a single local: {sorted(bound)}')
            self.roundset = bound.pop()
        self.gload = build(self.load, p)
        # drain generator: method with get_nowait on the queue
        self.drain = None
        for f in self.methods.values():
            gg = build(f, p)
            if f.is_generator and any(is_meth(gg, n, self.Q, 'get_nowait') for n in gg.nodes):
                self.drain = f
        self.drain_calls = [n for n in G.nodes if n.kind == 'call' and self.drain is not None and self_attr(n.ast.func) == self.drain.name]
        # non-blocking dequeues written inline in the daemon (no separate drain generator)
        self.nowait_gets = [n for n in G.nodes if is_meth(G, n, self.Q, 'get_nowait')]
        self.wait = self.methods.get('wait')
        self.wait_anywhere = self.methods.get('wait_from_anywhere')
        self.entry_points = [self.methods[m] for m in ('__call__', 'await_', 'map', 'amap') if m in self.methods]
        self.gathers = [n for n in G.nodes if n.kind == 'await' and isinstance(n.ast.value, ast.Call) and call_name(G, n.ast.value) == 'asyncio.gather']

    def _diagnose_list_loader(self, ctx: Ctx) -> None:
        """The loader was rewritten to *return* what it loaded (a list built under its own guard) and the daemon merges
        the lists into the round set.  That shape is not analysed further - but one thing about it is definite: adding a
        caller's element to a set hashes it, and a merge that no handler covers lets the TypeError of an unhashable
        argument end the daemon (in the closure form the add sits inside the per-producer guard)."""
        if ctx.prop not in ('C03', 'C07'):
            return
        u, cls = self.u, self.cls
        cands = []
        for f in u.functions():
            if not f.is_async:
                continue
            top = f
            while top.enclosing_function() is not None:
                top = top.enclosing_function()
            if top.enclosing_class() not in (cls, None):
                continue
            has_for = any(isinstance(x, ast.AsyncFor) or (isinstance(x, ast.comprehension) and x.is_async) for x in own_nodes(f.node))
            rets = [x for x in own_nodes(f.node) if isinstance(x, ast.Return) and x.value is not None]
            if has_for and rets:
                cands.append(f)
        if not cands:
            return
        names = {f.name for f in cands}
        for f in u.functions():
            top = f
            while top.enclosing_function() is not None:
                top = top.enclosing_function()
            if top.enclosing_class() is not cls:
                continue
            for x in own_nodes(f.node):
                site = None
                if isinstance(x, ast.Call) and isinstance(x.func, ast.Attribute) and x.func.attr in ('update', 'add') \
                        and isinstance(x.func.value, ast.Name) and any(isinstance(y, ast.Await) for a in x.args for y in ast.walk(a)):
                    site = x
                elif isinstance(x, ast.AugAssign) and isinstance(x.op, ast.BitOr) and isinstance(x.target, ast.Name) \
                        and any(isinstance(y, ast.Await) for y in ast.walk(x.value)):
                    site = x
                if site is None:
                    continue
                guarded = False
                q = parent(site)
                child = site
                while q is not None and q is not f.node:
                    if isinstance(q, ast.Try) and child in q.body:
                        for h in q.handlers:
                            tn = [] if h.type is None else [dotted(t_) or '' for t_ in (h.type.elts if isinstance(h.type, ast.Tuple) else [h.type])]
                            if h.type is None or any(t_.split('.')[-1] in ('TypeError', 'Exception', 'BaseException') for t_ in tn):
                                guarded = True
                    child, q = q, parent(q)
                rule = f'{ctx.prop}-L1'
                ctx.rule(rule, 'elements enter the round set under a guard: an argument that cannot be hashed is logged and dropped, it does not end the daemon', 1)
                ctx.check(rule, f'{f.qualname}: {norm(site)}', f'{FILE}:{site.lineno}', guarded,
                          'the merge is covered by a handler',
                          f'the loader ({", ".join(sorted(names))}) returns what it loaded and the merge into the round set happens outside every handler: the TypeError of an '
                          'unhashable argument escapes the daemon task - nothing submitted afterwards is ever delivered and wait() hangs',
                          construct=construct_key('BUFFER.daemon', 'merge outside the guard'))

    def _names_loader(self, e: ast.AST) -> bool:
        """`_load`, `self._load`, `Class._load` for the loader function"""
        if self.load is None:
            return False
        if isinstance(e, ast.Name):
            return e.id == self.load.name and self.load.enclosing_function() is not None
        if isinstance(e, ast.Attribute) and e.attr == self.load.name and isinstance(e.value, ast.Name):
            return self.load.enclosing_function() is None and e.value.id in ('self', 'cls', self.cls.name)
        return False

    def loader_ref(self, e: ast.AST) -> Optional[List[ast.expr]]:
        """If *e* denotes the loader - directly, or through a single-assignment local bound to
        functools.partial(loader, a, ...) - the list of pre-bound positional arguments; else None."""
        if self._names_loader(e):
            return []
        if isinstance(e, ast.Name):
            from ..match import closure_value
            v = None
            for m in self.methods.values():
                for sc in [m] + list(m.children):
                    if e.id in sc.locals and e.id not in sc.params:
                        v = v or closure_value(sc, e.id)
            if isinstance(v, ast.Call) and self.G.res.path(v.func) == 'functools.partial' and v.args \
                    and self._names_loader(v.args[0]) and not v.keywords:
                return list(v.args[1:])
        return None

    def is_armed_get(self, n: Node) -> bool:
        """Is this awaited queue.get() the coroutine handed to wait_for for the timer (not a dequeue of its own)?"""
        x = n.ast
        for _ in range(3):
            x = parent(x) if x is not None else None
            if isinstance(x, ast.Call) and call_name(self.G, x) == 'asyncio.wait_for':
                return True
        return False

    def role_of(self, scope_qualname: str) -> str:
        q = scope_qualname
        if self.load is not None and q == self.load.qualname:
            return 'LOADER'
        for n in self.callfunc_calls:
            if n.meta.get('inlined_from') == q or (not n.meta.get('inlined') and q == self.root.qualname):
                return 'RUNNER'
        b = self.round_branch
        if b.meta.get('inlined_from') == q or (not b.meta.get('inlined') and q == self.root.qualname):
            return 'PROCESS'
        if q == self.root.qualname:
            return 'ROOT'
        return q

    def publish(self, ctx: Ctx) -> None:
        ctx.extra['roles'] = {'class': self.cls.qualname, 'Q': self.q, 'FLAG': self.flag, 'TIMER': self.timer,
                              'DAEMON root': self.root.qualname, 'LOAD': self.load.qualname, 'ROUNDSET': self.roundset,
                              'DRAIN': self.drain.qualname if self.drain else None,
                              'daemon graph': self.G.stats(),
                              'inlined': sorted({n.meta['name'] for n in self.G.nodes if n.kind == 'inline_enter'})}


def _is_load_call(r: BufferRoles, e: ast.AST) -> bool:
    return isinstance(e, ast.Call) and r.loader_ref(e.func) is not None


def _entry_graph(r: BufferRoles, f: Scope) -> CFG:
    return build(f, r.p, inline_methods=True)


def _empty_guards(r: BufferRoles) -> List[Node]:
    """Branches testing the truthiness of the round set: their false edge (nothing to deliver)
    is an accepted way around the call."""
    G = r.G
    out = []
    for n in G.nodes:
        if n.kind == 'branch':
            t = resolve(G, n, n.meta['test'], keep=(r.roundset,))
            if isinstance(t, ast.Name) and t.id == r.roundset:
                out.append(n)
    return out


# ---------------------------------------------------------------------------
# C03
# ---------------------------------------------------------------------------

def c03(ctx: Ctx) -> None:
    r = BufferRoles(ctx)
    from .common import rule_unbound
    rule_unbound(ctx, 'C03-U1', [s_ for s_ in r.u.functions() if s_.enclosing_class() is r.cls and s_.enclosing_function() is None], 'BufferAsyncCalls')
    p, G, gl = r.p, r.G, r.gload
    ctx.trusted += ['asyncio.Queue / wait_for / gather', 'loop.call_soon_threadsafe is FIFO and thread-safe']
    ctx.rule('C03-S1', 'the completion flag is set only after a normal completion of the wrapped call (or when the round set is empty)', 1)
    ctx.rule('C03-S2', 'within a round the input set is bound once and only grows', 1)
    ctx.rule('C03-S3', 'an Exception of the wrapped call leads back to the round loop without set/return/re-raise', 2)
    ctx.rule('C03-S4', 'every dequeued producer flows into exactly one loader coroutine that is awaited', 3)
    ctx.rule('C03-S5', 'the loader contains a producer\'s failure and keeps the prefix it already loaded', 2)
    ctx.rule('C03-S6', 'only submitted values enter the set; the function receives the round set itself', 2)
    ctx.rule('C03-S7', 'every entry point hands exactly one producer to the thread-safe put, with the adaptor of its kind', 4)
    ctx.rule('C03-S8', 'code that may run on a foreign thread touches the asyncio.Queue only via loop.call_soon_threadsafe', 2)
    ctx.rule('C03-S9', 'the loop-owned completion flag is never mutated directly by any-thread entry points', 1)
    # (S8, continued) the hand-off is a put_nowait run as a loop callback: it must never find the queue full - QueueFull there is
    # raised where nobody sees it and the submitted argument is gone
    qc_ = r.kinds[r.q][1]
    cap_ = (qc_.args[0] if qc_.args else next((k.value for k in qc_.keywords if k.arg == 'maxsize'), None)) if isinstance(qc_, ast.Call) else None
    unb_ = cap_ is None or (isinstance(cap_, ast.Constant) and isinstance(cap_.value, (int, float)) and cap_.value <= 0) or (
        isinstance(cap_, ast.UnaryOp) and isinstance(cap_.op, ast.USub) and isinstance(cap_.operand, ast.Constant))
    lk_ = r.kinds.get('loop')
    if lk_ is not None:
        ctx.check('C03-S8', f'the owning loop self.loop = {norm(lk_[1])}', f'{FILE}:{getattr(lk_[1], "lineno", r.init.lineno)}',
                  lk_[0] in ('asyncio.get_event_loop', 'asyncio.get_running_loop'), 'the loop current where the buffer is created: the one that runs the daemon',
                  'the buffer binds itself to a loop other than the current one (a fresh loop nobody runs): hand-offs are scheduled on it and the '
                  'daemon lives on it, so nothing submitted is ever delivered', construct=construct_key('BUFFER.__init__', 'owning loop', lk_[0]))
    ctx.check('C03-S8', f'the hand-off queue self.{r.q} = {norm(qc_)} is unbounded', f'{FILE}:{getattr(qc_, "lineno", r.init.lineno)}', unb_,
              'a put that cannot wait never finds it full', 'the queue is bounded while submissions are handed over with put_nowait from a loop callback: '
              'when the daemon falls behind, QueueFull is raised inside the callback and the argument is lost',
              construct=construct_key('BUFFER.__init__', 'bounded hand-off queue'))
    ctx.rule('C03-S10', 'no suspension point between setting the flag and the round-loop test; the activation ends after the loop', 2)
    where = f'{FILE}:{r.root.lineno}'
    RS = r.roundset
    guards = _empty_guards(r)
    # S1
    if not r.callfunc:
        ctx.violation('C03-S1', 'the wrapped function is not awaited inline by the daemon', where,
                      'the flag is set without knowing whether the call succeeded',
                      construct=construct_key('BUFFER.daemon', 'call not awaited'))
    set_asts = {id(s.ast) for s in r.set_}
    for f in r.methods.values():
        if f is r.init:
            continue
        gg = build(f, p)
        for n in gg.nodes:
            if is_meth(gg, n, r.FLAG, 'set') and id(n.ast) not in set_asts:
                ctx.violation('C03-S1', f'{norm(n.ast)} in {f.name}', gg.loc(n), 'the completion flag is set outside the daemon',
                              construct=construct_key(f.qualname, n.ast))
    fail_edges = [e for c in r.callfunc for e in G.succ[c.id] if e.label == 'exc']
    for c in r.callfunc:
        for n2 in G.nodes:
            if n2.kind == 'call' and n2.ast is c.ast.value:
                fail_edges += [e for e in G.succ[n2.id] if e.label == 'exc']
    ok_edges = {id(e) for c in r.callfunc for e in G.succ[c.id] if e.label != 'exc'} | \
               {id(e) for b in guards for e in G.succ[b.id] if e.label == 'false'}
    for s in r.set_:
        allow = lambda e: id(e) not in ok_edges
        w = find_path(G, [], [s], start_edges=fail_edges, edge_ok=allow)
        round_starts = [e for e in G.succ[r.round_branch.id] if e.label != r.round_exit_label]
        w2 = find_path(G, [], [s], start_edges=round_starts, edge_ok=allow)
        ctx.check('C03-S1', f'{norm(s.ast)}', G.loc(s), w is None and w2 is None,
                  'set only after the call returned normally (or nothing to deliver)',
                  'the flag can be set after a failed call (or without calling): the round ends and its arguments are dropped',
                  witness=render(G, w or w2), construct=construct_key('BUFFER.daemon', 'set after failure'))
    if not r.set_:
        ctx.violation('C03-S1', 'the completion flag is never set', where, 'wait() never returns',
                      construct=construct_key('BUFFER.daemon', 'no set'))
    # S11: ... and a successful call always sets it: otherwise the round goes on with the set it has just delivered
    ctx.rule('C03-S11', 'after a normal completion of the wrapped call the flag is set on every path back to the round test', 1)
    for c in r.callfunc:
        ne_ = [e for e in G.succ[c.id] if e.label != 'exc']
        w11 = must_pass(G, [], [r.round_branch, G.exit], r.set_, start_edges=ne_, edge_ok=_nonexc)
        # ... also when something placed after the call (bookkeeping, logging arithmetic) raises and the handler meant for
        # the function's failures takes it for one: the call has succeeded, a retry delivers its arguments a second time
        w11 = w11 or must_pass(G, [], [r.round_branch], r.set_, start_edges=ne_)
        ctx.check('C03-S11', f'success of {norm(c.ast)} ends the round', G.loc(c), w11 is None and bool(r.set_),
                  'delivered arguments are delivered once', 'after a successful call the round can continue with the same set (the flag is set only '
                  'under a further condition): arguments already delivered are passed to the function again',
                  witness=render(G, w11), construct=construct_key('BUFFER.daemon', 'success does not end the round'))
    # S2
    binds = [n for n in G.nodes if n.kind == 'store_name' and n.meta['name'] == RS and not n.meta.get('inlined_param')]
    muts = []
    sink0 = RS if r.load_set_param is None else [x for x in r.load.params if x not in ('self', 'cls')][r.load_set_param]
    for gg, nm in [(G, RS), (gl, sink0)]:
        for n in gg.nodes:
            if n.kind == 'call' and isinstance(n.ast.func, ast.Attribute):
                recv = resolve(gg, n, n.ast.func.value, keep=(nm,))
                if isinstance(recv, ast.Name) and recv.id == nm:
                    muts.append((gg, n, n.ast.func.attr))
            if n.kind == 'store_name' and n.meta['name'] == nm and isinstance(n.meta.get('stmt'), ast.AugAssign):
                muts.append((gg, n, 'augassign'))
    bad = [(gg, n, m) for gg, n, m in muts if m not in ('add', 'update', 'copy', 'union', '__len__', '__contains__')]
    in_round = [b for b in binds if r.round_loop in b.loops]
    ctx.check('C03-S2', f'{RS}: {len(binds)} binding(s), mutators {sorted({m for _, _, m in muts})}',
              G.loc(binds[0]) if binds else where, len(binds) == 1 and not bad and not in_round,
              'bound once per activation (outside the round loop), only add()',
              'the round set is re-bound or shrunk before a successful call: arguments of a failed call are lost',
              witness=[f'{gg.loc(n)} {norm(n.ast)}' for gg, n, _ in bad] + [f'{G.loc(b)} rebinding inside the round loop' for b in in_round],
              construct=construct_key('BUFFER.daemon', 'round set shrinks', sorted({m for _, _, m in bad}), len(binds), bool(in_round)))
    # S3
    for c in r.callfunc:
        # a failure of the function is an Exception - or a CancelledError of something it awaited
        def failure(cl) -> bool:
            return carries_exception(cl) or bool({'CancelledError', 'BaseException'} & set(cl or ()))

        def own_cancel_guard(e: Edge) -> bool:
            t = e.src.meta.get('test') if e.src.kind == 'branch' else None
            return t is not None and any(isinstance(x, ast.Attribute) and x.attr == 'cancelling' for x in ast.walk(t))
        ee = [e for e in G.succ[c.id] if e.label == 'exc' and failure(e.classes)]
        w_esc = must_pass(G, [], [G.raise_exit, G.exit] + binds, [r.round_branch], start_edges=ee,
                          edge_ok=lambda e: (e.label != 'exc' or failure(e.classes)) and not own_cancel_guard(e))
        ws = find_path(G, [], r.set_, start_edges=ee, edge_ok=lambda e: id(e) not in ok_edges)
        ctx.check('C03-S3', f'Exception edge of {norm(c.ast)} is contained and leads back to the round-loop test', G.loc(c),
                  bool(ee) and w_esc is None and ws is None, 'caught, logged, no flag set, another collection cycle with the same set',
                  'an exception of the wrapped function escapes the daemon (or ends the round): its arguments are lost',
                  witness=render(G, w_esc or ws), construct=construct_key('BUFFER.daemon', 'exception escapes'))
        ne = [e for e in G.succ[c.id] if e.label != 'exc']
        w2 = must_pass(G, [], [G.exit, G.raise_exit] + binds, [r.round_branch], start_edges=ne, edge_ok=_nonexc)
        ctx.check('C03-S3', f'after {norm(c.ast)} control returns to the round-loop test', G.loc(c), w2 is None,
                  'the flag decides whether another cycle is needed', 'after running the function the round ends regardless of the outcome',
                  witness=render(G, w2), construct=construct_key('BUFFER.daemon', 'no retry'))
    # S4: every GET flows into a loader coroutine that is awaited
    tree = r.root.unit.tree

    def _pos(x: ast.AST):
        return (type(x).__name__, getattr(x, 'lineno', None), getattr(x, 'col_offset', None), getattr(x, 'end_col_offset', None))

    # loader applications in the daemon graph: direct calls (also the ones inlined because they are awaited on the
    # spot) and map(loader, producers); each with the expression that supplies the producer(s)
    loader_apps: List[Tuple[Node, ast.AST, bool, str]] = []     # (node, producer expression, awaited inline, form)
    for n in G.nodes:
        if n.kind not in ('call', 'inline_enter') or not isinstance(n.ast, ast.Call):
            continue
        c = n.ast
        from ..dataflow import unalias as _ua0
        pre = r.loader_ref(c.func)
        if pre is None:
            pre = r.loader_ref(_ua0(G, n, c.func))
        if pre is not None and c.args:
            awaited = (n.kind == 'inline_enter' and bool(n.meta.get('awaited'))) or isinstance(parent(c), ast.Await)
            loader_apps.append((n, c.args[-1], awaited, 'call'))
        elif G.res.path(c.func) == 'builtins.map' and len(c.args) == 2 and r.loader_ref(resolve(G, n, c.args[0], depth=2)) is not None:
            loader_apps.append((n, c.args[1], False, 'map'))
        elif G.res.path(c.func) == 'builtins.map' and len(c.args) == 2 and (
                r.loader_ref(c.args[0]) is not None or r.loader_ref(_ua0(G, n, c.args[0])) is not None):
            loader_apps.append((n, c.args[1], False, 'map'))

    def flows_into_loader(get_ast: ast.AST, awaited_only: bool = False, form: Optional[str] = None) -> bool:
        want = _pos(get_ast)
        for n, prod, awaited, fm in loader_apps:
            if awaited_only and not awaited:
                continue
            if form is not None and fm != form:
                continue
            rv = resolve(G, n, prod)
            if any(_pos(x) == want for x in ast.walk(rv)) or any(x is get_ast for x in ast.walk(prod)):
                return True
        return False

    # the list in which created-but-not-yet-awaited loader coroutines are kept
    def _is_loader_value(n: Node, e: ast.AST) -> bool:
        rv = resolve(G, n, e)
        if isinstance(rv, ast.Call) and (r.loader_ref(rv.func) is not None or (
                G.res.path(rv.func) == 'builtins.map' and rv.args and r.loader_ref(rv.args[0]) is not None)):
            return True
        if isinstance(e, ast.Call) and (r.loader_ref(e.func) is not None or (
                G.res.path(e.func) == 'builtins.map' and e.args and r.loader_ref(e.args[0]) is not None)):
            return True
        return isinstance(rv, ast.List) and bool(rv.elts) and all(_is_load_call(r, x) for x in rv.elts)
    lists = [n for n in G.nodes if n.kind == 'store_name' and isinstance(n.meta.get('value'), ast.List) and n.meta['value'].elts
             and all(_is_load_call(r, x) for x in n.meta['value'].elts)]
    from ..dataflow import unalias as _ua
    Lcands: Dict[str, int] = {}
    for n in lists:
        Lcands[n.meta['name']] = Lcands.get(n.meta['name'], 0) + 1
    for n in G.nodes:
        if n.kind == 'call' and isinstance(n.ast.func, ast.Attribute) and n.ast.func.attr in ('append', 'extend') and n.ast.args:
            rc = _ua(G, n, n.ast.func.value)
            if isinstance(rc, ast.Name) and _is_loader_value(n, n.ast.args[0]):
                Lcands[rc.id] = Lcands.get(rc.id, 0) + 1
    L = max(sorted(Lcands), key=lambda k: Lcands[k]) if Lcands else None

    for bg in r.blocking_get:
        if r.is_armed_get(bg):
            continue
        ok = flows_into_loader(bg.ast)
        ctx.check('C03-S4', f'blocking get {norm(bg.ast)[:60]} -> loader', G.loc(bg), ok, 'dequeued producer wrapped by the loader',
                  'a dequeued producer is not handed to the loader', construct=construct_key('BUFFER.daemon', 'get not loaded'))
    for tg in r.timed_get:
        ok = flows_into_loader(tg.ast, awaited_only=True)
        ctx.check('C03-S4', f'timed get {norm(tg.ast)[:60]} -> awaited loader', G.loc(tg), ok,
                  'awaited inline through the loader', 'the producer delivered by the timed read is not loaded',
                  construct=construct_key('BUFFER.daemon', 'timed get not loaded'))
    for ng in r.nowait_gets:
        ok = flows_into_loader(ng.ast)
        ctx.check('C03-S4', f'non-blocking get {norm(ng.ast)[:60]} -> loader', G.loc(ng), ok, 'drained producer wrapped by the loader',
                  'a drained producer is not handed to the loader', construct=construct_key('BUFFER.daemon', 'nowait get not loaded'))
    for d in r.drain_calls:
        # all drained producers: map(loader, <drain>) whose result is added to the loader list
        ok = False
        for n, prod, awaited, fm in loader_apps:
            if fm != 'map':
                continue
            rv = resolve(G, n, prod)
            if not (any(_pos(x) == _pos(d.ast) for x in ast.walk(rv)) or any(x is d.ast for x in ast.walk(prod))):
                continue
            par = parent(n.ast)
            if isinstance(par, ast.Call) and isinstance(par.func, ast.Attribute) and par.func.attr == 'extend':
                pn = next((x for x in G.nodes if x.kind == 'call' and x.ast is par), None)
                rc = _ua(G, pn, par.func.value) if pn is not None else par.func.value
                ok = ok or (isinstance(rc, ast.Name) and rc.id == L)
            # ... or the map travels on (returned by a helper, held in a local) into L.extend(...)
            for x in G.nodes:
                if x.kind == 'call' and isinstance(x.ast.func, ast.Attribute) and x.ast.func.attr == 'extend' and x.ast.args:
                    rc = _ua(G, x, x.ast.func.value)
                    if isinstance(rc, ast.Name) and rc.id == L:
                        rv2 = resolve(G, x, x.ast.args[0])
                        if any(_pos(y) == _pos(n.ast) for y in ast.walk(rv2)):
                            ok = True
        ctx.check('C03-S4', f'drained producers {norm(d.ast)} -> map(loader, ...) -> loader list', G.loc(d), ok,
                  'every drained producer becomes a loader coroutine in the gather list',
                  'drained producers are not all loaded', construct=construct_key('BUFFER.daemon', 'drain not loaded'))
    if L is not None:
        def _isL(n: Node, e: ast.AST) -> bool:
            rc = _ua(G, n, e)
            return isinstance(rc, ast.Name) and rc.id == L
        growth = [n for n in lists if n.meta['name'] == L] + [
            n for n in G.nodes if n.kind == 'call' and isinstance(n.ast.func, ast.Attribute) and n.ast.func.attr in ('extend', 'append')
            and _isL(n, n.ast.func.value)]
        consume = [n for n in r.gathers if any(isinstance(a, ast.Starred) and _isL(n, a.value) for a in n.ast.value.args)]
        drops = [n for n in G.nodes if n.kind == 'call' and isinstance(n.ast.func, ast.Attribute) and n.ast.func.attr == 'clear'
                 and _isL(n, n.ast.func.value)]
        # re-binding the list (the next round's fresh list) drops whatever the old one still held
        drops += [n for n in G.nodes if n.kind == 'store_name' and n.meta['name'] == L and not n.meta.get('inlined_param')]

        def empty_false(e: Edge) -> bool:
            return e.src.kind == 'branch' and isinstance(e.src.meta['test'], ast.Name) and _isL(e.src, e.src.meta['test']) and e.label == 'false'
        for gn in growth:
            starts = [e for e in G.succ[gn.id] if e.label != 'exc']
            w = must_pass(G, [], drops + [G.exit] + r.timed_get, consume, start_edges=starts,
                          edge_ok=lambda e: _nonexc(e) and not empty_false(e))
            ctx.check('C03-S4', f'loaders added by {norm(gn.ast)[:50]} are gathered before the list is cleared / the timer is awaited',
                      G.loc(gn), w is None and bool(consume), 'await gather(*list) on every non-exceptional path',
                      'loader coroutines can be dropped un-awaited (their producers are lost)', witness=render(G, w),
                      construct=construct_key('BUFFER.daemon', 'loaders not gathered'))
    else:
        ctx.violation('C03-S4', 'no loader list', where, 'dequeued producers are not collected',
                      construct=construct_key('BUFFER.daemon', 'no loader list'))
    # S5 / S6 on the loader's own graph
    fors = [n for n in gl.nodes if n.kind == 'for_iter' and n.meta.get('is_async')]
    sink = RS if r.load_set_param is None else [x for x in r.load.params if x not in ('self', 'cls')][r.load_set_param]
    adds = [n for n in gl.nodes if n.kind == 'call' and isinstance(n.ast.func, ast.Attribute) and n.ast.func.attr == 'add'
            and isinstance(n.ast.func.value, ast.Name) and n.ast.func.value.id == sink]
    for fo in fors:
        ee = [e for e in gl.succ[fo.id] if e.label == 'exc']
        esc = [e for e in ee if e.dst is gl.raise_exit and (carries_exception(e.classes) or {'CancelledError', 'BaseException'} & set(e.classes or ()))]
        reached = reach(gl, [], start_edges=ee)
        reraises = [n for n in gl.nodes if n.kind == 'raise' and n.id in reached]
        ctx.check('C03-S5', f'failure of {norm(fo.ast.iter)} is contained', gl.loc(fo), not esc and not reraises and bool(ee),
                  'handler covers Exception and CancelledError and does not re-raise',
                  'one failing producer (Exception, or CancelledError of a cancelled awaitable) aborts the gather: other producers\' arguments and its own prefix are lost',
                  construct=construct_key('BUFFER.loader', 'producer failure escapes'))
        inbody = [a for a in adds if fo.ast in a.loops]
        ctx.check('C03-S5', f'{RS}.add(...) inside the producer loop', gl.loc(fo), bool(inbody) and len(inbody) == len(adds),
                  'each element is recorded as it arrives (prefix survives a later failure)',
                  'elements are recorded only after the producer finished: a failing producer loses its prefix',
                  construct=construct_key('BUFFER.loader', 'add outside loop'))
        tv = fo.ast.target.id if isinstance(fo.ast.target, ast.Name) else None
        for a in inbody:
            arg = resolve(gl, a, a.ast.args[0]) if a.ast.args else None
            ok = isinstance(arg, ast.Name) and arg.id == tv
            ctx.check('C03-S6', f'{norm(a.ast)}', gl.loc(a), bool(ok), 'adds the element produced', 'adds something other than the produced element',
                      construct=construct_key('BUFFER.loader', norm_locals(a.ast, r.load)))
    for c in r.callfunc:
        a0 = resolve(G, c, c.ast.value.args[0], keep=(RS,)) if c.ast.value.args else None
        ok = isinstance(a0, ast.Name) and a0.id == RS
        ctx.check('C03-S6', f'{norm(c.ast)} with the round set ({norm(a0) if a0 is not None else None})', G.loc(c), ok,
                  'the function receives the round set itself', 'the function receives something other than the retained round set',
                  construct=construct_key('BUFFER.daemon', 'argument of the call'))
    # S7 / S8 / S9 on the entry points (private helpers inlined)
    # the adaptors by what they do, not by their names: a one-parameter async generator of the module that yields its
    # parameter ('obj') / the awaited parameter ('aw') exactly once
    adaptor_kind: Dict[str, str] = {}
    for sc_ in [c_ for uu in p.units.values() for c_ in uu.module_scope.children]:
        if sc_.kind == 'function' and sc_.is_async and sc_.is_generator and len(sc_.params) == 1:
            ga_ = build(sc_, p)
            ys_ = [n for n in ga_.nodes if n.kind == 'yield']
            if len(ys_) == 1:
                yv = norm(resolve(ga_, ys_[0], ys_[0].ast.value)) if ys_[0].ast.value is not None else None
                if yv == sc_.params[0]:
                    adaptor_kind[sc_.name] = 'obj'
                elif yv == f'await {sc_.params[0]}':
                    adaptor_kind[sc_.name] = 'aw'
    want_kind = {'__call__': 'obj', 'await_': 'aw'}
    adaptors = {'map': 'to_async_iter', 'amap': None}
    used_adaptors: List[str] = []
    s9_seen = False
    for ep in r.entry_points:
        ge = _entry_graph(r, ep)
        argp = ep.params[1] if len(ep.params) > 1 else None
        puts = []
        for n in ge.nodes:
            if n.kind == 'call' and len(n.ast.args) >= 2 and isinstance(n.ast.func, ast.Attribute) and n.ast.func.attr.startswith('call_'):
                cb = resolve(ge, n, n.ast.args[0])
                if isinstance(cb, ast.Attribute) and cb.attr == 'put_nowait' and ge.res.path(cb.value) == r.Q:
                    puts.append(n)
        direct = [n for n in ge.nodes if n.kind == 'call' and isinstance(n.ast.func, ast.Attribute) and n.ast.func.attr in ('put_nowait', 'put')
                  and rpath(ge, n, n.ast.func.value) == r.Q]
        payloads = [resolve(ge, n, n.ast.args[1]) for n in puts] + [resolve(ge, n, n.ast.args[0]) for n in direct if n.ast.args]
        w = must_pass(ge, [ge.entry], [ge.exit], puts + direct) if (puts or direct) else None
        want = adaptors.get(ep.name)
        shape = False
        if len(payloads) == 1 and ep.name in want_kind:
            a = payloads[0]
            shape = isinstance(a, ast.Call) and isinstance(a.func, ast.Name) and adaptor_kind.get(a.func.id) == want_kind[ep.name] \
                and len(a.args) == 1 and isinstance(a.args[0], ast.Name) and a.args[0].id == argp
            if shape:
                used_adaptors.append(a.func.id)
        elif len(payloads) == 1:
            a = payloads[0]
            if want is None:
                shape = isinstance(a, ast.Name) and a.id == argp
            else:
                shape = isinstance(a, ast.Call) and isinstance(a.func, ast.Name) and a.func.id == want and len(a.args) == 1 \
                    and isinstance(a.args[0], ast.Name) and a.args[0].id == argp
        ok = len(puts + direct) == 1 and not (puts + direct)[0].loops and w is None and shape
        ctx.check('C03-S7', f'{ep.name}: {norm((puts + direct)[0].ast)[:70] if puts + direct else "no hand-off"} <- {norm(payloads[0]) if payloads else None}',
                  f'{FILE}:{ep.lineno}', ok, 'exactly one hand-off with the right adaptor',
                  'an entry point does not enqueue its argument (exactly once, through its adaptor)', witness=render(ge, w),
                  construct=construct_key(ep.qualname, 'entry point'))
        # ... and what is handed over is the caller's argument itself: an entry point that re-binds it (`_args = tuple(_args)` to take
        # a "snapshot") iterates the source in the submitting thread, outside the loader's guard - a source that fails half way
        # raises into the submitter and the elements it had produced are never delivered
        if argp is not None:
            rb_ = [n for n in ge.nodes if n.kind == 'store_name' and n.meta['name'] == argp and not n.meta.get('inlined_param') and not n.meta.get('inlined')]
            ctx.check('C03-S7', f'{ep.name}: the argument `{argp}` is handed over as it was given ({len(rb_)} re-binding(s))', ge.loc(rb_[0]) if rb_ else f'{FILE}:{ep.lineno}',
                      not rb_, 'production happens in the loader, under its guard', f'`{argp}` is replaced by something computed from it in the entry point: the '
                      'source is consumed (or transformed) in the submitter\'s thread, before the loader that keeps a failing producer\'s prefix sees it',
                      construct=construct_key(ep.qualname, 'argument re-bound'))
        # S8: the queue is touched only as the callback of loop.call_soon_threadsafe
        ts = [n for n in puts if n.ast.func.attr == 'call_soon_threadsafe' and rpath(ge, n, n.ast.func.value) == 'self.loop']
        bad_touch = list(direct) + [n for n in puts if n not in ts]
        other = [n for n in ge.nodes if n.kind == 'call' and isinstance(n.ast.func, ast.Attribute) and rpath(ge, n, n.ast.func.value) == r.Q
                 and n not in direct]
        ctx.check('C03-S8', f'{ep.name}: queue touched via {[norm(n.ast.func) for n in ts + bad_touch + other]}', f'{FILE}:{ep.lineno}',
                  bool(ts) and not bad_touch and not other,
                  'queue touched only by a callback scheduled thread-safely on the owning loop',
                  'an asyncio.Queue is touched from a thread that may not be the loop\'s: a foreign put_nowait does not wake the loop',
                  construct=construct_key(ep.qualname, 'queue touched', [norm(n.ast.func) for n in bad_touch + other]))
        # S9
        for n in ge.nodes:
            if n.kind == 'call' and isinstance(n.ast.func, ast.Attribute) and n.ast.func.attr in ('clear', 'set') \
                    and rpath(ge, n, n.ast.func.value) == r.FLAG:
                s9_seen = True
                host = 'BUFFER.put' if n.meta.get('inlined') else ep.qualname
                ctx.violation('C03-S9', f'{ep.name}: {norm(n.ast)}', ge.loc(n),
                              'a loop-owned asyncio.Event is mutated on the caller\'s thread: a foreign clear() landing between '
                              'set() and the round-loop test re-opens the finished round, so arguments already delivered are delivered again',
                              construct=construct_key(host, f'{r.FLAG}.{n.ast.func.attr}()'))
    if not s9_seen:
        ctx.holds('C03-S9', 'entry points never mutate the completion flag directly', f'{FILE}:{r.cls.lineno}')
    for ad in sorted(set(used_adaptors)):
        sc = p.find(FILE, ad)
        if sc is None:
            ctx.undecided('C03-S7', f'adaptor {ad}', f'{FILE}:1', 'vanished')
            continue
        ga = build(sc, p)
        ys = [n for n in ga.nodes if n.kind == 'yield']
        w = must_pass(ga, [ga.entry], [ga.exit], ys, edge_ok=_nonexc)
        par = sc.params[0]
        shape = len(ys) == 1 and norm(resolve(ga, ys[0], ys[0].ast.value)) in (par, f'await {par}')
        ctx.check('C03-S7', f'adaptor {ad}: {norm(ys[0].ast) if ys else None}', f'{FILE}:{sc.lineno}', w is None and shape,
                  'yields its element on every normal path', 'the adaptor can finish without yielding its element', witness=render(ga, w),
                  construct=construct_key(ad, 'adaptor'))
    # foreign producer in to_async_iter
    tai = p.find(FILE, 'to_async_iter')
    if tai is not None:
        for c in tai.children:
            if c.kind == 'function' and not c.is_async:
                gg = build(c, p)
                for n in gg.nodes:
                    if n.kind == 'call':
                        info = callee_info(gg, n.ast)
                        if info['kind'] == 'partial':
                            pc = info['partial']
                            ok = info['name'].endswith('call_soon_threadsafe') and len(pc.args) == 2 and \
                                isinstance(pc.args[1], ast.Attribute) and pc.args[1].attr == 'put_nowait'
                            ctx.check('C03-S8', f'{c.qualname}: {norm(n.ast)} = {norm(pc)}', gg.loc(n), ok,
                                      'helper thread forwards through call_soon_threadsafe(q.put_nowait, x)',
                                      'the helper thread touches the asyncio.Queue directly',
                                      construct=construct_key(c.qualname, 'foreign put', pc))
    # S10
    for s in r.set_:
        w = None
        for x in [x for x in G.nodes if x.suspends]:
            p1 = find_path(G, [s], [x], avoid=[r.round_branch], edge_ok=_nonexc)
            if p1 is not None:
                w = p1
                break
        back = find_path(G, [s], [r.round_branch], edge_ok=_nonexc)
        ctx.check('C03-S10', f'no suspension between {norm(s.ast)} and the round-loop test', G.loc(s), w is None and back is not None,
                  'a finished round cannot be re-opened by a loop-thread submission',
                  'a submission can slip in between the successful call and the loop test', witness=render(G, w),
                  construct=construct_key('BUFFER.daemon', 'window after set'))
    exit_edges = [e for e in G.succ[r.round_branch.id] if e.label == r.round_exit_label]
    reached = reach(G, [], avoid=binds, start_edges=exit_edges)
    uses_after = [n for n in G.nodes if n.id in reached and n.ast is not None and n.kind in ('call', 'await', 'store_name')
                  and r.round_loop not in n.loops and n not in binds
                  and any(isinstance(x, ast.Name) and x.id == RS for x in ast.walk(n.ast))]
    ctx.check('C03-S10', 'after the round loop the activation ends (fresh round set next round)', G.loc(r.round_branch), not uses_after,
              'nothing is carried over', 'the round set is used after the round ended', witness=[f'{G.loc(n)} {norm(n.ast)}' for n in uses_after],
              construct=construct_key('BUFFER.daemon', 'use after round'))
    r.publish(ctx)


# ---------------------------------------------------------------------------
# C07
# ---------------------------------------------------------------------------

def _implied_facts(g: CFG, b: Node, truth: bool, r: BufferRoles, cancelp: str) -> Dict[str, bool]:
    """Facts about (cancel, timer, done) implied by taking the `truth` edge of branch b, whose
    (resolved) test is a boolean combination of those atoms; evaluated by truth table."""
    t = resolve(g, b, b.meta['test'])

    def ev(e, env) -> Optional[bool]:
        if isinstance(e, ast.Name) and e.id == cancelp:
            return env['cancel']
        if isinstance(e, ast.Attribute) and g.res.path(e) == r.TIMER:
            return env['timer']
        if isinstance(e, ast.Call) and isinstance(e.func, ast.Attribute) and e.func.attr == 'done' and g.res.path(e.func.value) == r.TIMER:
            return env['done']
        if isinstance(e, ast.UnaryOp) and isinstance(e.op, ast.Not):
            v = ev(e.operand, env)
            return None if v is None else not v
        if isinstance(e, ast.Call) and isinstance(e.func, ast.Name) and e.func.id == 'bool' and len(e.args) == 1 and not e.keywords:
            return ev(e.args[0], env)
        if isinstance(e, ast.Compare) and len(e.ops) == 1 and isinstance(e.comparators[0], ast.Constant) and e.comparators[0].value is None \
                and isinstance(e.left, ast.Attribute) and g.res.path(e.left) == r.TIMER and isinstance(e.ops[0], (ast.Is, ast.IsNot)):
            return env['timer'] if isinstance(e.ops[0], ast.IsNot) else not env['timer']
        if isinstance(e, ast.BoolOp):
            vals = [ev(v, env) for v in e.values]
            if any(v is None for v in vals):
                return None
            return all(vals) if isinstance(e.op, ast.And) else any(vals)
        return None
    sat = []
    for c_, t_, d_ in itertools.product((True, False), repeat=3):
        env = {'cancel': c_, 'timer': t_, 'done': d_}
        v = ev(t, env)
        if v is None:
            return {}
        if v == truth:
            sat.append(env)
    out: Dict[str, bool] = {}
    for k in ('cancel', 'timer', 'done'):
        vs = {e[k] for e in sat}
        if len(vs) == 1:
            out[k] = vs.pop()
    return out


def c07(ctx: Ctx) -> None:
    r = BufferRoles(ctx)
    from .common import rule_unbound
    rule_unbound(ctx, 'C07-U1', [s_ for s_ in r.u.functions() if s_.enclosing_class() is r.cls and s_.enclosing_function() is None], 'BufferAsyncCalls')
    p, G = r.p, r.G
    ctx.trusted += ['asyncio ready-queue FIFO order', 'Queue.join / task_done semantics', 'asyncio.Event wakes all waiters']
    ctx.rule('C07-W1', 'wait(): awaited queue join, then wait on the completion flag, nothing suspends after it', 1)
    ctx.rule('C07-W2', 'picked up => flag cleared: after the blocking get the flag is cleared and the producer marked done before the next suspension point; other get/done pairs are under a cleared flag', 2)
    ctx.rule('C07-W3', 'every successful dequeue is followed by exactly one task_done on every non-exceptional path', 3)
    ctx.rule('C07-W4', 'wait() cancels only the timed read, and only when cancel is true and the read is pending', 1)
    ctx.rule('C07-W5', 'both TimeoutError and CancelledError of the timed read lead to running the function with the round set', 1)
    ctx.rule('C07-W6', 'the flag is an asyncio.Event and wait() never clears it', 1)
    ctx.rule('C07-W7', 'wait_from_anywhere runs wait(cancel=cancel) on the owning loop via ensure_aw', 1)
    ctx.rule('C07-W8', 'hand-off and join both travel the owning loop\'s ready queue', 2)
    ctx.rule('C07-W9', 'the daemon is cancellation-transparent: a handler that may catch CancelledError at a suspension point re-raises', 3)
    ctx.rule('C07-W10', 'DaemonTask subclasses asyncio.Task and overrides nothing that handles cancellation', 1)
    ctx.rule('C07-W12', 'the drain generator (task_done after the yield) is consumed to its end by every user', 1)
    ctx.rule('C07-W11', 'the completion flag starts out set: wait() on an idle buffer returns', 1)
    gi_ = r.ginit
    sets_i = [n for n in gi_.nodes if is_meth(gi_, n, r.FLAG, 'set')]
    clears_i = [n for n in gi_.nodes if is_meth(gi_, n, r.FLAG, 'clear')]
    w11 = must_pass(gi_, [gi_.entry], [gi_.exit], sets_i, edge_ok=_nonexc)
    w11b = find_path(gi_, sets_i, clears_i) if sets_i and clears_i else None
    ctx.check('C07-W11', f'__init__: {[norm(n.ast) for n in sets_i]}', gi_.loc(sets_i[0]) if sets_i else f'{FILE}:{r.init.lineno}',
              bool(sets_i) and w11 is None and w11b is None and not (clears_i and not sets_i),
              'nothing submitted means nothing to wait for', 'a wait() before the first submission (or with only empty producers so far) waits for a flag '
              'that only a completed call would set: it never returns', witness=render(gi_, w11 or w11b),
              construct=construct_key('BUFFER.__init__', 'flag not initially set'))
    if r.wait is None:
        raise AnalysisError('wait() vanished')
    # who may write the timer attribute: the daemon arms it (and the constructor says "none yet"); a reset from wait() or an
    # entry point races with the daemon, which awaits whatever the attribute holds right after arming
    if r.timer:
        daemon_fns = {f_.qualname for f_ in r.daemon_scopes} if hasattr(r, 'daemon_scopes') else set()
        arm_stmts = {id(a_.meta.get('stmt')) for a_ in r.arm}
        for m_ in r.methods.values():
            for x_ in own_nodes(m_.node):
                if isinstance(x_, (ast.Assign, ast.AnnAssign, ast.AugAssign, ast.Delete)):
                    tgts_ = x_.targets if isinstance(x_, (ast.Assign, ast.Delete)) else [x_.target]
                    if any(isinstance(t_, ast.Attribute) and isinstance(t_.value, ast.Name) and t_.value.id == 'self' and t_.attr == r.timer for t_ in tgts_):
                        ok_ = m_ is r.init or id(x_) in arm_stmts or m_.qualname in daemon_fns
                        ctx.check('C07-W4', f'{m_.qualname}: {norm(x_)[:60]} writes the timer attribute', f'{FILE}:{x_.lineno}', ok_,
                                  'written by the daemon (armed) or the constructor only',
                                  f'self.{r.timer} is re-assigned outside the daemon: the daemon arms the timer and awaits the attribute a few statements later - a '
                                  'write in between (from a waiter that has just been woken, say) makes it await something else (None: TypeError, the daemon dies)',
                                  construct=construct_key(m_.qualname, 'timer attribute written outside the daemon'))
    gw = build(r.wait, p, inline_methods=True)

    def res_call(n: Node) -> Optional[ast.Call]:
        v = resolve(gw, n, n.ast.value)
        return v if isinstance(v, ast.Call) else None
    joins = [n for n in gw.nodes if n.kind == 'await' and any(
        isinstance(x, ast.Call) and isinstance(x.func, ast.Attribute) and x.func.attr == 'join' and gw.res.path(x.func.value) == r.Q
        for x in ast.walk(resolve(gw, n, n.ast)))]
    fwaits = [n for n in gw.nodes if n.kind == 'await' and res_call(n) is not None and isinstance(res_call(n).func, ast.Attribute)
              and res_call(n).func.attr == 'wait' and gw.res.path(res_call(n).func.value) == r.FLAG]
    w1 = must_pass(gw, [gw.entry], [gw.exit], joins, edge_ok=_nonexc)
    w2 = must_pass(gw, [gw.entry], [gw.exit], fwaits, edge_ok=_nonexc)
    w3 = find_path(gw, fwaits, joins) if fwaits and joins else None
    w4 = must_pass(gw, [gw.entry], fwaits, joins, edge_ok=_nonexc) if fwaits else None
    after = None
    for x in [x for x in gw.nodes if x.suspends and x not in fwaits]:
        if fwaits and find_path(gw, fwaits, [x]) is not None:
            after = find_path(gw, fwaits, [x])
    ok = bool(joins) and bool(fwaits) and w1 is None and w2 is None and w3 is None and w4 is None and after is None
    ctx.check('C07-W1', f'wait(): join {[norm(j.ast)[:50] for j in joins]} then {[norm(f.ast) for f in fwaits]}', f'{FILE}:{r.wait.lineno}', ok,
              'join proves "picked up", the flag then proves "delivered"',
              'wait() can return without the join or without waiting for the flag (or in the wrong order)',
              witness=render(gw, w1 or w2 or w3 or w4 or after), construct=construct_key(r.wait.qualname, 'barrier order'))
    # W2
    firsts = [bg for bg in r.blocking_get if not r.is_armed_get(bg) and r.round_loop not in bg.loops]
    for bg in firsts:
        ne = [e for e in G.succ[bg.id] if e.label != 'exc']
        susp_nodes = [x for x in G.nodes if x.suspends and x is not bg]
        w = must_pass(G, [], susp_nodes + [G.exit], r.clear, start_edges=ne, edge_ok=_nonexc)
        susp = must_pass(G, [], susp_nodes + [G.exit], r.done, start_edges=ne, edge_ok=_nonexc)
        ctx.check('C07-W2', f'{norm(bg.ast)}: clear() and task_done() before the next suspension point', G.loc(bg),
                  w is None and susp is None and bool(r.clear),
                  'a waiter released by join() can only see a cleared flag',
                  'a waiter released by join() can see the stale set flag of the previous round and return before delivery',
                  witness=render(G, w or susp), construct=construct_key('BUFFER.daemon', 'stale flag window'))
    if not firsts:
        ctx.violation('C07-W2', 'no blocking get outside the round loop', f'{FILE}:{r.root.lineno}', 'the daemon never blocks for a first producer',
                      construct=construct_key('BUFFER.daemon', 'no first get'))
    for d in [d for d in r.done if r.round_loop in d.loops]:
        ctx.holds('C07-W2', f'{norm(d.ast)} inside the round loop (entered only while the flag is cleared)', G.loc(d))
    drains = r.drain_calls + r.nowait_gets
    if drains:
        okd = all(r.round_loop in n.loops for n in drains)
        ctx.check('C07-W2', 'queued producers are drained only inside the round loop', G.loc(drains[0]), okd,
                  'their task_done calls happen under a cleared flag', 'producers are drained outside the round loop',
                  construct=construct_key('BUFFER.daemon', 'drain outside round'))
    # W3
    def pair_rule(gg: CFG, gets: List[Node], dones: List[Node], label: str, key: str) -> None:
        for ge in gets:
            ne = [e for e in gg.succ[ge.id] if e.label != 'exc']
            others = [x for x in gets if x is not ge]
            w = must_pass(gg, [], others + [gg.exit] + [ge], dones, start_edges=ne, edge_ok=_nonexc)
            kind = 'timed' if ge in r.timed_get else 'get'
            ctx.check('C07-W3', f'{label}: {norm(ge.ast)[:60]} -> task_done', gg.loc(ge), w is None and bool(dones),
                      'one task_done per dequeued producer', 'a dequeued producer is never marked done: wait() hangs in join()',
                      witness=render(gg, w), construct=construct_key(key, 'get without task_done', kind))
        got = lambda e: not (e.src in gets and e.label != 'exc')   # forbid "a get succeeded" edges
        for d in dones:
            starts = [e for x in dones for e in gg.succ[x.id] if e.label != 'exc']
            w = find_path(gg, [], [d], start_edges=starts, edge_ok=got)
            w0 = find_path(gg, [gg.entry], [d], edge_ok=got)
            ctx.check('C07-W3', f'{label}: no second/unpaired {norm(d.ast)}', gg.loc(d), w is None and w0 is None,
                      'task_done only after a dequeue', 'an extra task_done releases join() before its producer was picked up',
                      witness=render(gg, w or w0), construct=construct_key(key, 'extra task_done'))
    real_gets = [bg for bg in r.blocking_get if not r.is_armed_get(bg)] + r.timed_get + r.nowait_gets
    pair_rule(G, real_gets, r.done, 'daemon', 'BUFFER.daemon')
    if r.drain is not None:
        gd = build(r.drain, p)
        dg = [n for n in gd.nodes if is_meth(gd, n, r.Q, 'get_nowait')]
        dd = [n for n in gd.nodes if is_meth(gd, n, r.Q, 'task_done')]
        pair_rule(gd, dg, dd, r.drain.name, 'BUFFER.drain')
    daemon_scopes = {r.root.qualname} | {n.meta['name'] for n in G.nodes if n.kind == 'inline_enter'}
    for f in r.methods.values():
        if f.qualname in daemon_scopes or f is r.drain:
            continue
        gg = build(f, p)
        for n in gg.nodes:
            if is_meth(gg, n, r.Q, 'task_done'):
                ctx.violation('C07-W3', f'{norm(n.ast)} in {f.name}', gg.loc(n), 'task_done outside the dequeuing code',
                              construct=construct_key(f.qualname, n.ast))
    # W12: a drain generator that marks an item done only when it is resumed after yielding it must be run to its end
    if r.drain is not None:
        gd_ = build(r.drain, p)
        ys_ = [n for n in gd_.nodes if n.kind == 'yield']
        dn_ = [n for n in gd_.nodes if is_meth(gd_, n, r.Q, 'task_done')]
        late_done = any(find_path(gd_, [y], [d_], edge_ok=_nonexc) is not None for y in ys_ for d_ in dn_)
        if late_done:
            PARTIAL = {'itertools.islice', 'itertools.takewhile', 'builtins.zip', 'builtins.next', 'itertools.zip_longest', 'itertools.dropwhile'}
            dpos = {(getattr(d_.ast, 'lineno', None), getattr(d_.ast, 'col_offset', None)) for d_ in r.drain_calls}

            def from_drain(n_: Node, e_: ast.AST) -> bool:
                rv_ = resolve(G, n_, e_)
                return any(isinstance(y, ast.Call) and (getattr(y, 'lineno', None), getattr(y, 'col_offset', None)) in dpos for y in ast.walk(rv_)) \
                    or any(isinstance(y, ast.Call) and (getattr(y, 'lineno', None), getattr(y, 'col_offset', None)) in dpos for y in ast.walk(e_))
            bad_ = []
            for n_ in G.nodes:
                if n_.kind == 'call' and (G.res.path(n_.ast.func) or '') in PARTIAL and any(from_drain(n_, a_) for a_ in n_.ast.args):
                    bad_.append((n_, norm(n_.ast)[:70]))
                elif n_.kind == 'for_iter' and from_drain(n_, n_.ast.iter) and any(
                        isinstance(y, (ast.Break, ast.Return)) for b_ in n_.ast.body for y in ast.walk(b_)):
                    bad_.append((n_, 'a for-loop with break / return'))
            for n_, what_ in bad_:
                ctx.violation('C07-W12', f'the drain generator is consumed by {what_}', G.loc(n_),
                              'the drain generator marks an item done only when resumed after yielding it; a consumer that stops early '
                              '(islice / zip / takewhile / break) leaves the last item unmarked: join() - and with it every later wait() - never returns',
                              construct=construct_key('BUFFER.daemon', 'drain partially consumed'))
            if not bad_:
                ctx.holds('C07-W12', f'{len(r.drain_calls)} use(s) of the drain generator, none through a consumer that can stop early',
                          G.loc(r.drain_calls[0]) if r.drain_calls else f'{FILE}:{r.drain.lineno}')
        else:
            ctx.holds('C07-W12', f'{r.drain.qualname}: items are marked done before they are yielded (or not in the generator)', f'{FILE}:{r.drain.lineno}')
    else:
        ctx.holds('C07-W12', 'no drain generator', f'{FILE}:{r.root.lineno}')
    # W4
    cancels = [n for n in gw.nodes if n.kind == 'call' and isinstance(n.ast.func, ast.Attribute) and n.ast.func.attr == 'cancel']
    cancelp = 'cancel'
    for c in cancels:
        target_ok = rpath(gw, c, c.ast.func.value) == r.TIMER
        bad = None
        for pth in enum_paths(gw, [c], sources=[gw.entry], edge_ok=_nonexc):
            facts: Dict[str, bool] = {}
            for e in pth:
                if e.src.kind == 'branch' and e.label in ('true', 'false'):
                    facts.update(_implied_facts(gw, e.src, e.label == 'true', r, cancelp))
            if not (facts.get('cancel') is True and facts.get('done') is False):
                bad = pth
                break
        ctx.check('C07-W4', f'{norm(c.ast)}', gw.loc(c), target_ok and bad is None,
                  'cancels the pending timed read only when asked to', 'wait() cancels something else, or also with cancel=False / a finished read',
                  witness=render(gw, bad), construct=construct_key(r.wait.qualname, 'cancel target/guard'))
    if not cancels:
        ctx.violation('C07-W4', 'wait(cancel=True) never cancels the timed read', f'{FILE}:{r.wait.lineno}',
                      'a flush has to sit out the whole quiet period', construct=construct_key(r.wait.qualname, 'no cancel'))
    # W5
    for tg in r.timed_get:
        for cls_ in ('TimeoutError', 'CancelledError'):
            ee = [e for e in G.succ[tg.id] if e.label == 'exc' and e.classes and cls_ in e.classes and e.dst.kind == 'except']
            guards = _empty_guards(r)
            w = must_pass(G, [], [G.exit, G.raise_exit, r.round_head], r.callfunc + r.callfunc_calls, start_edges=ee,
                          edge_ok=lambda e: not (e.src in guards and e.label == 'false')) if ee else None
            ctx.check('C07-W5', f'{cls_} edge of {norm(tg.ast)} -> run the function', G.loc(tg), bool(ee) and w is None and bool(r.callfunc),
                      'flush', f'{cls_} of the timed read does not lead to a flush' + (' (wait(cancel=True) would not return early)' if cls_ == 'CancelledError' else ''),
                      witness=render(G, w), construct=construct_key('BUFFER.daemon', 'no flush on', cls_))
    # W6
    mut_in_wait = [n for n in gw.nodes if is_meth(gw, n, r.FLAG, 'clear') or is_meth(gw, n, r.FLAG, 'set')]
    ctx.check('C07-W6', f'self.{r.flag} is {r.kinds[r.flag][0]}; wait() mutates it {len(mut_in_wait)} time(s)', f'{FILE}:{r.wait.lineno}',
              r.kinds[r.flag][0] == 'asyncio.Event' and not mut_in_wait, 'broadcast to all concurrent waiters',
              'a waiter consumes/clears the flag: other concurrent waiters hang', construct=construct_key(r.wait.qualname, 'flag mutated in wait'))
    # W7
    if r.wait_anywhere is not None:
        ga = build(r.wait_anywhere, p)
        rets = [n for n in ga.nodes if n.kind == 'await']
        goods = []
        for rn in rets:
            v = resolve(ga, rn, rn.ast.value)
            if isinstance(v, ast.Call) and isinstance(v.func, ast.Name) and v.func.id == 'ensure_aw' and len(v.args) == 2:
                a0, a1 = v.args
                if isinstance(a0, ast.Call) and self_attr(a0.func) == 'wait' and self_attr(a1) == 'loop' and \
                        any(k.arg == 'cancel' and isinstance(k.value, ast.Name) and k.value.id == 'cancel' for k in a0.keywords):
                    goods.append(rn)
        # every normal path awaits the delegated wait (returned or not: wait() returns None)
        ok = bool(goods) and must_pass(ga, [ga.entry], [ga.exit], goods) is None
        ctx.check('C07-W7', f'wait_from_anywhere: {[norm(x.ast) for x in rets]}', f'{FILE}:{r.wait_anywhere.lineno}', ok,
                  'same cancel flag, the stored loop', 'foreign waiters do not run wait() on the owning loop with their cancel flag',
                  construct=construct_key(r.wait_anywhere.qualname, 'delegation'))
    # W8
    ep = r.methods.get('__call__')
    if ep is not None:
        ge = _entry_graph(r, ep)
        hand = [n for n in ge.nodes if n.kind == 'call' and isinstance(n.ast.func, ast.Attribute) and n.ast.func.attr == 'call_soon_threadsafe'
                and rpath(ge, n, n.ast.func.value) == 'self.loop']
        other = [n for n in ge.nodes if n.kind == 'call' and isinstance(n.ast.func, ast.Attribute) and n.ast.func.attr in ('call_later', 'call_at', 'run_in_executor', 'call_soon')]
        ctx.check('C07-W8', f'hand-off: {[norm(h.ast) for h in hand]}', f'{FILE}:{ep.lineno}', len(hand) == 1 and not other,
                  'enters the owning loop\'s ready queue', 'the hand-off takes a detour (timer/executor/non-thread-safe call): a later join can overtake it',
                  construct=construct_key('BUFFER.put', 'hand-off'))
    for ep_ in r.entry_points:
        ge = _entry_graph(r, ep_)
        hand = [n for n in ge.nodes if n.kind == 'call' and isinstance(n.ast.func, ast.Attribute) and n.ast.func.attr.startswith('call_')]
        clr = [n for n in ge.nodes if is_meth(ge, n, r.FLAG, 'clear')]
        if clr and hand:
            w = must_pass(ge, [ge.entry], hand, clr)
            ctx.check('C07-W8', f'{ep_.name}: the flag is cleared before the hand-off is scheduled', f'{FILE}:{ep_.lineno}', w is None,
                      'a submission is visible as "pending" before the loop can process it',
                      'the hand-off is scheduled first: the loop can deliver the argument and set the flag before the late clear(), '
                      'which then leaves the flag cleared with nothing pending - wait() never returns',
                      witness=render(ge, w), construct=construct_key('BUFFER.put', 'hand-off before clear'))
    jn = joins[0] if joins else None
    if jn is not None:
        v = resolve(gw, jn, jn.ast.value)
        ok = (isinstance(v, ast.Call) and isinstance(v.func, ast.Attribute) and v.func.attr == 'create_task' and gw.res.path(v.func.value) == 'self.loop') \
            or (isinstance(v, ast.Call) and call_name(gw, v) in ('asyncio.create_task', 'asyncio.ensure_future'))
        ctx.check('C07-W8', f'join: {norm(jn.ast)}', gw.loc(jn), ok,
                  'the join starts as a task, i.e. behind the already scheduled put callbacks in the ready queue',
                  'join() awaited inline runs before a put that is still pending in the ready queue (call_soon_threadsafe): '
                  'it sees no unfinished task for a just-submitted argument and wait() returns too early',
                  construct=construct_key(r.wait.qualname, 'join placement'))
    # W9: every handler of the daemon graph (own + inlined) and of the loader, once per handler
    seen_handlers: Set[int] = set()
    roles_with_offender: Set[str] = set()
    for gg in (G, r.gload):
        for h in [n for n in gg.nodes if n.kind == 'except']:
            if id(h.ast) in seen_handlers:
                continue
            caught = h.meta.get('caught', set())
            if not ({'CancelledError', 'BaseException', 'NonException'} & set(caught)):
                continue
            feeders = [e.src for e in gg.pred[h.id] if e.label == 'exc' and e.src.suspends and e.classes
                       and ({'CancelledError', 'BaseException', 'NonException'} & set(e.classes))]
            if not feeders:
                continue
            seen_handlers.add(id(h.ast))

            def guard_edge(e: Edge) -> bool:
                t = e.src.meta.get('test') if e.src.kind == 'branch' else None
                return t is not None and any(isinstance(x, ast.Attribute) and x.attr == 'cancelling' for x in ast.walk(t))
            targets = [gg.exit] + [n for n in gg.nodes if n.kind in ('loop_head', 'implicit_return', 'inline_exit')]
            w = find_path(gg, [h], targets, edge_ok=lambda e: not guard_edge(e))
            host = h.meta.get('inlined_from') or gg.scope.qualname
            # the role of a handler is what it guards, wherever a refactoring has put it
            # (the handler that receives the CancelledError edge of the guarded await itself; a handler further out that only
            # sees what the inner one lets through has the role of the function it is written in)
            def direct(nodes_) -> bool:
                return any(e.src in nodes_ and e.label == 'exc' and 'CancelledError' in (e.classes or ()) for e in gg.pred[h.id])
            if gg is G and direct(r.timed_get):
                role = 'PROCESS'
            elif gg is G and direct(r.callfunc):
                role = 'RUNNER'
            elif gg is r.gload:
                role = 'LOADER'
            else:
                role = r.role_of(host)
            roles_with_offender.add(role)
            inst = f'{role} ({host}): except {norm(h.ast.type) if h.ast.type else "(bare)"} around {sorted({norm(x.ast)[:40] for x in feeders})}'
            ctx.check('C07-W9', inst, gg.loc(h), w is None, 're-raises the cancellation',
                      'a CancelledError aimed at the daemon is swallowed here: the `while True` daemon goes on and loop shutdown never finishes',
                      witness=render(gg, w), construct=construct_key('BUFFER.' + role, 'swallows cancel'))
    for role in ('ROOT', 'PROCESS', 'RUNNER', 'LOADER'):
        if role not in roles_with_offender:
            ctx.holds('C07-W9', f'{role}: no handler catches a cancellation delivered at a suspension point', f'{FILE}:{r.root.lineno}')
    # W10
    dt = r.u.scopes.get('DaemonTask')
    if dt is None:
        dt = next((uu.scopes['DaemonTask'] for uu in p.units.values() if 'DaemonTask' in uu.scopes and uu.scopes['DaemonTask'].kind == 'class'), None)
    if dt is None:
        ctx.undecided('C07-W10', 'DaemonTask', f'{FILE}:1', 'class vanished')
    else:
        bases = [Resolver(dt.unit.module_scope).path(b) for b in dt.node.bases]
        defined = set()
        def class_level(stmts):
            for s in stmts:
                if isinstance(s, (ast.FunctionDef, ast.AsyncFunctionDef)):
                    defined.add(s.name)
                elif isinstance(s, ast.Assign):
                    defined.update(t.id for t in s.targets if isinstance(t, ast.Name))
                elif isinstance(s, (ast.If, ast.Try, ast.With)):
                    for fld in ('body', 'orelse', 'finalbody'):
                        class_level(getattr(s, fld, []) or [])
                    for h_ in getattr(s, 'handlers', []) or []:
                        class_level(h_.body)
        class_level(dt.node.body)
        # (class metadata - where the class claims to live, its slots, its docstring - overrides no behaviour)
        bad = defined - {'__del__', '__init__', '__slots__', '__doc__', '__module__', '__qualname__'}
        ctx.check('C07-W10', f'DaemonTask({bases}) defines {sorted(defined)}', f'{FILE}:{dt.lineno}',
                  bases == ['asyncio.Task'] and not bad, 'cancel()/__await__/_step are asyncio.Task\'s own',
                  f'the daemon wrapper overrides {sorted(bad)}', construct=construct_key('DaemonTask', 'overrides', sorted(bad), bases))
    r.publish(ctx)


# ---------------------------------------------------------------------------
# C08
# ---------------------------------------------------------------------------

def _ancestors_until(x: ast.AST, stop: ast.AST):
    a = parent(x)
    while a is not None and a is not stop:
        yield a
        a = parent(a)


def c08(ctx: Ctx) -> None:
    r = BufferRoles(ctx)
    from .common import rule_unbound
    rule_unbound(ctx, 'C08-U1', [s_ for s_ in r.u.functions() if s_.enclosing_class() is r.cls and s_.enclosing_function() is None], 'BufferAsyncCalls')
    p, G = r.p, r.G
    ctx.trusted += ['asyncio.wait_for timer', 'a single asyncio task runs one coroutine step at a time']
    ctx.rule('C08-D1', 'one awaited call site of the wrapped function, reached from the daemon root by awaited calls only; the root is spawned once', 2)
    ctx.rule('C08-D2', 'the call is control-dependent on the truthiness of the set it passes', 1)
    ctx.rule('C08-D3', 'the function runs only after a freshly armed quiet timer expired (or was cancelled), once per expiry; the timer wraps queue.get() in wait_for(_, self.timeout)', 4)
    ctx.rule('C08-D4', 'drain precedes arming, everything drained is gathered before the timer is awaited, a successful timed get returns to the loop head', 3)
    where = f'{FILE}:{r.root.lineno}'
    from .common import rule_func_attr_is_param
    rule_func_attr_is_param(ctx, 'C08-D1', r.init, 'func', 'wrapped function')
    _rule_spawn(ctx, r, 'C08-D1')
    # D1: distinct call sites (by AST identity) of self.func anywhere in the class
    sites = {}
    for f in p.all_functions():
        top = f
        while top.enclosing_function() is not None:
            top = top.enclosing_function()
        if top.enclosing_class() is not r.cls:
            continue
        for x in own_nodes(f.node):
            if isinstance(x, ast.Call) and self_attr(x.func) == 'func':
                sites[id(x)] = (f, x)
    in_daemon = {id(n.ast) for n in r.callfunc_calls}
    awaited = [x for _, x in sites.values() if isinstance(parent(x), ast.Await)]
    ok = len(sites) == 1 and len(awaited) == 1 and set(sites) <= in_daemon
    ctx.check('C08-D1', f'call sites of self.func: {[(f.qualname, norm(parent(x))) for f, x in sites.values()]}', where, ok,
              'single, awaited inline, inside the daemon', 'the wrapped function can be started a second time / as a separate task: overlapping calls',
              construct=construct_key(r.cls.qualname, 'call sites', len(sites), len(awaited)))
    # the daemon coroutines are started without await exactly once: the root, by the constructor, outside any loop
    inl = {n.meta['name'] for n in G.nodes if n.kind == 'inline_enter'} | {r.root.qualname}
    starts = []
    for f in p.all_functions():
        top = f
        while top.enclosing_function() is not None:
            top = top.enclosing_function()
        if top.enclosing_class() is not r.cls:
            continue
        for x in own_nodes(f.node):
            if isinstance(x, ast.Call) and self_attr(x.func) is not None:
                m = r.methods.get(self_attr(x.func))
                if m is not None and m.qualname in inl and m.is_async and not isinstance(parent(x), ast.Await):
                    starts.append((f, x))
    root_starts = [(f, x) for f, x in starts if f is r.init]
    others = [(f, x) for f, x in starts if f is not r.init]
    in_loop = [x for f, x in root_starts if any(isinstance(a, (ast.For, ast.While)) for a in _ancestors_until(x, r.init.node))]
    ctx.check('C08-D1', f'daemon coroutines started without await: {len(root_starts)}x in __init__, elsewhere {[(f.qualname, norm(x)) for f, x in others]}',
              f'{FILE}:{r.init.lineno}', len(root_starts) == 1 and not others and not in_loop, 'one daemon',
              'a second processing task can run the function concurrently',
              construct=construct_key(r.cls.qualname, 'daemon spawns', len(root_starts), len(others)))
    # D2
    guards = _empty_guards(r)
    for c in r.callfunc:
        w = find_path(G, [G.entry], [c], edge_ok=lambda e: not (e.src in guards and e.label == 'true'))
        a0 = c.ast.value.args[0] if c.ast.value.args else None
        ctx.check('C08-D2', f'{norm(c.ast)} only if {norm(a0) if a0 is not None else None}', G.loc(c), bool(guards) and w is None,
                  'never called with an empty set', 'the function can be called with an empty set', witness=render(G, w),
                  construct=construct_key('BUFFER.daemon', 'empty call'))
    # D3
    if r.timer is None or not r.arm:
        ctx.violation('C08-D3', 'no quiet timer', where, 'the function is not triggered by a quiet period',
                      construct=construct_key('BUFFER.daemon', 'no timer'))
        r.publish(ctx)
        return
    gets = [bg for bg in r.blocking_get if not r.is_armed_get(bg)] + r.timed_get
    for ge in gets:
        ne = [e for e in G.succ[ge.id] if e.label != 'exc']
        w = must_pass(G, [], r.callfunc, r.arm, start_edges=ne)
        ctx.check('C08-D3', f'after {norm(ge.ast)[:50]} a fresh timer is armed before the function can run', G.loc(ge), w is None,
                  're-armed per arrival', 'the function can run right after an arrival without a new quiet period', witness=render(G, w),
                  construct=construct_key('BUFFER.daemon', 'run without fresh timer', 'timed' if ge in r.timed_get else 'blocking'))
    trig = {id(e) for tg in r.timed_get for e in G.succ[tg.id] if e.label == 'exc' and e.classes
            and ({'TimeoutError', 'CancelledError'} & set(e.classes))}
    for c in r.callfunc:
        w = find_path(G, [G.entry], [c], edge_ok=lambda e: id(e) not in trig)
        ctx.check('C08-D3', f'{norm(c.ast)} is reached only through the expiry/cancel edge of the timed read', G.loc(c), w is None and bool(trig),
                  'the timer is the sole trigger', 'the function is triggered by something other than the quiet timer', witness=render(G, w),
                  construct=construct_key('BUFFER.daemon', 'other trigger'))
        w = find_path(G, [], [c], start_edges=list(G.succ[c.id]), edge_ok=lambda e: id(e) not in trig)
        ctx.check('C08-D3', f'{norm(c.ast)} runs at most once per expiry of the quiet timer', G.loc(c), w is None,
                  'a retry goes back through drain + fresh timer', 'the function is re-run without a new quiet period: '
                  'arguments arriving in between are neither merged nor restart the timer', witness=render(G, w),
                  construct=construct_key('BUFFER.daemon', 'call in a loop'))
    arm = r.arm[0]
    v = resolve(G, arm, arm.meta['value'])
    wf = next((x for x in ast.walk(v) if isinstance(x, ast.Call) and G.res.path(x.func) == 'asyncio.wait_for'), None)
    inner_ok = wf is not None and wf.args and isinstance(wf.args[0], ast.Call) and isinstance(wf.args[0].func, ast.Attribute) \
        and wf.args[0].func.attr == 'get' and G.res.path(wf.args[0].func.value) == r.Q
    t = None
    if wf is not None:
        t = wf.args[1] if len(wf.args) > 1 else next((k.value for k in wf.keywords if k.arg == 'timeout'), None)
    tv = None
    for n in own_nodes(r.init.node):
        if isinstance(n, ast.Assign) and self_attr(n.targets[0]) == 'timeout':
            tv = n.value
    twrites = [x for f in r.methods.values() for x in own_nodes(f.node) if isinstance(x, (ast.Assign, ast.AugAssign))
               and any(self_attr(tt) == 'timeout' for tt in (x.targets if isinstance(x, ast.Assign) else [x.target]))]
    ok = inner_ok and self_attr(t) == 'timeout' and isinstance(tv, ast.Name) and tv.id == 'timeout' and len(twrites) == 1
    ctx.check('C08-D3', f'timer = {norm(v)[:90]}; self.timeout = {norm(tv) if tv is not None else None}',
              G.loc(arm), bool(ok), 'the configured quiet period bounds a read of the queue', 'the quiet timer is not wait_for(queue.get(), self.timeout)',
              construct=construct_key('BUFFER.daemon', 'timer shape'))
    # D4
    drains = r.drain_calls + r.nowait_gets
    for a in r.arm:
        w = must_pass(G, [r.round_head], [a], drains)
        # an inline drain loop must run until the queue is empty: after a successful non-blocking get the
        # timer is armed only after another get attempt
        for ng in r.nowait_gets:
            ne_ = [e for e in G.succ[ng.id] if e.label != 'exc']
            w = w or must_pass(G, [], [a], r.nowait_gets, start_edges=ne_)
        ctx.check('C08-D4', 'on every iteration the drain precedes arming the timer', G.loc(a), w is None and bool(drains),
                  'everything already queued joins the same round', 'the timer can be armed without draining what is already queued',
                  witness=render(G, w), construct=construct_key('BUFFER.daemon', 'arm before drain'))
    # ... and the timer starts running right away: between the round's (re-)start and arming nothing suspends - the producers
    # found in the queue are awaited *after* the read is scheduled, so the quiet period counts from the last arrival, and
    # wait(cancel=True) always finds a pending read to cancel
    from ..paths import no_suspension as _nosusp
    for a in r.arm:
        ws = _nosusp(G, [r.round_head], [a])
        ctx.check('C08-D4', 'no suspension point between the start of an iteration and arming the timer', G.loc(a), ws is None,
                  'the timed read is scheduled before anything is awaited', 'the round awaits something (the drained producers) before the timed read '
                  'is scheduled: the quiet period is counted from the end of that wait and wait(cancel=True) has nothing to cancel meanwhile',
                  witness=render(G, ws), construct=construct_key('BUFFER.daemon', 'suspension before arming'))
    for tg in r.timed_get:
        ne = [e for e in G.succ[tg.id] if e.label != 'exc']
        w = find_path(G, [], r.callfunc, avoid=[r.round_head], start_edges=ne)
        ctx.check('C08-D4', 'a successful timed get returns to the loop head (re-drain, re-arm), not to the function', G.loc(tg), w is None,
                  'a burst is one call', 'an arrival during the quiet period triggers the function', witness=render(G, w),
                  construct=construct_key('BUFFER.daemon', 'arrival triggers run'))
    # D5: the single daemon survives a failing call (otherwise no later burst is ever delivered)
    ctx.rule('C08-D5', 'a failure of the wrapped call (Exception or CancelledError of something it awaited) never ends the daemon (= C03-S3)', 2)
    ctx.adopt(c03, {'C03-S3'}, 'C08-D5', 'the one background task dies: nothing submitted later is ever delivered')
    for d in drains:
        ne = [e for e in G.succ[d.id] if e.label != 'exc']

        def empty_false(e: Edge) -> bool:
            return e.src.kind == 'branch' and isinstance(e.src.meta['test'], ast.Name) and e.label == 'false'
        w = must_pass(G, [], r.timed_get, r.gathers, start_edges=ne, edge_ok=lambda e: _nonexc(e) and not empty_false(e))
        ctx.check('C08-D4', 'everything drained is gathered before the timed read is awaited', G.loc(d), w is None and bool(r.gathers),
                  'immediately available arguments are loaded before the quiet period can expire',
                  'the timer can be awaited with drained producers still unloaded', witness=render(G, w),
                  construct=construct_key('BUFFER.daemon', 'await timer before gather'))
    r.publish(ctx)
