"""Small helpers: C16 (iterator bridges), C17 (cross-loop awaiting), C18 (split /
exhaust), C19 (parse_to_dict), C20 (gather_excs / raise_first_exc) - DESIGN 4.E."""
from __future__ import annotations

import ast
from typing import Dict, List, Optional, Set, Tuple

from ..cfg import CFG, Edge, Node, build, callee_info
from ..core import Ctx, construct_key, norm
from ..load import AnalysisError, Resolver, Scope, dotted, own_nodes, parent
from ..paths import find_path, held_locks, lexical_withs, must_pass, reach, render
from ..sym import call_name, enum_paths
from ..dataflow import resolve, alternatives
from ..model import carries_exception

A = 'aiuti/asyncio.py'
IT = 'aiuti/itertools.py'
PA = 'aiuti/parsing.py'


def _nonexc(e: Edge) -> bool:
    return e.label != 'exc'


# ---------------------------------------------------------------------------
# C16
# ---------------------------------------------------------------------------

def _sentinel(p) -> Optional[str]:
    u = p.unit(A)

    def obj_names(unit):
        # `X = object()`, or a member of a private Enum class of the module (`_DONE = _Signal.DONE`): either way one object
        # nobody outside the module can hand in
        enums = {c.name for c in unit.tree.body if isinstance(c, ast.ClassDef) and c.name.startswith('_')
                 and any((dotted(b) or '').split('.')[-1] in ('Enum', 'IntEnum', 'Flag') for b in c.bases)}
        out = []
        for n in unit.tree.body:
            if not (isinstance(n, ast.Assign) and len(n.targets) == 1 and isinstance(n.targets[0], ast.Name)):
                continue
            v = n.value
            if isinstance(v, ast.Call) and isinstance(v.func, ast.Name) and v.func.id == 'object' and not v.args:
                out.append(n.targets[0].id)
            elif isinstance(v, ast.Attribute) and isinstance(v.value, ast.Name) and v.value.id in enums and v.attr.isupper():
                out.append(n.targets[0].id)
        return out
    here = obj_names(u)
    if here:
        return here[0]
    # ... defined in another module of the package and imported under a name of this module
    for local, full in u.aliases.items():
        for u2 in p.units.values():
            if u2 is not u and full.startswith(u2.modname + '.') and full[len(u2.modname) + 1:] in obj_names(u2):
                return local
    return None


def _put_sites(gp: CFG, scope: Scope):
    """Calls that hand a value to a queue, however the callable is spelled - `q.put_nowait(x)`, `q.put(x)`,
    `loop.call_soon_threadsafe(q.put_nowait, x)`, a local bound to functools.partial(...) of one of these, a nested
    one-line wrapper (inlined by the graph builder), a hoisted bound method (inlined by the loader):
    (node, 'direct' | 'threadsafe', queue variable, value expression)."""
    from ..match import closure_value
    out = []
    for n in gp.nodes:
        if n.kind != 'call':
            continue
        f, args = n.ast.func, list(n.ast.args)
        if isinstance(f, ast.Name):
            sc_ = scope
            v = None
            while sc_ is not None and v is None:
                if sc_.kind == 'function' and f.id in sc_.locals:
                    v = closure_value(sc_, f.id)
                    break
                sc_ = sc_.parent
            if isinstance(v, ast.Call) and gp.res.path(v.func) == 'functools.partial' and v.args and not v.keywords:
                f, args = v.args[0], list(v.args[1:]) + args
            elif isinstance(v, ast.Attribute):
                f = v
        if not isinstance(f, ast.Attribute):
            continue
        from ..dataflow import unalias
        args = [unalias(gp, n, a_) for a_ in args]
        if f.attr in ('put_nowait', 'put') and isinstance(f.value, ast.Name) and len(args) == 1:
            out.append((n, 'direct', f.value.id, args[0]))
        elif f.attr == 'call_soon_threadsafe' and len(args) == 2:
            tgt = args[0]
            if isinstance(tgt, ast.Name):
                sc_ = scope
                while sc_ is not None:
                    if sc_.kind == 'function' and tgt.id in sc_.locals:
                        tv = closure_value(sc_, tgt.id)
                        if isinstance(tv, ast.Attribute):
                            tgt = tv
                        break
                    sc_ = sc_.parent
            if isinstance(tgt, ast.Attribute) and tgt.attr in ('put_nowait',) and isinstance(tgt.value, ast.Name):
                out.append((n, 'threadsafe', tgt.value.id, args[1]))
    return out


def c16(ctx: Ctx) -> None:
    p = ctx.program
    from .common import rule_unbound
    rule_unbound(ctx, 'C16-U1', [p.func(A, 'to_async_iter'), p.func(A, 'to_sync_iter')], 'the iterator bridges')
    ctx.trusted += ['asyncio.Queue / queue.Queue are FIFO', 'ThreadPoolExecutor.__exit__ joins its workers',
                    'call_soon_threadsafe preserves order']
    ctx.rule('C16-TA1', 'every exit of a producer (normal, exception) passes put(<sentinel>); no element is put after it', 2)
    ctx.rule('C16-TA2', 'the consumer stops on an identity test against the sentinel and yields every other dequeued value unconditionally', 2)
    ctx.rule('C16-TA3', 'the producer\'s outcome is collected after the elements (await future / future.result() in a finally)', 2)
    ctx.rule('C16-TA4', 'synchronous iteration of an iterator happens only in the function handed to run_in_executor', 1)
    ctx.rule('C16-TA5', 'thread -> loop hand-off goes through call_soon_threadsafe(q.put_nowait); the sync bridge uses queue.Queue', 2)
    ctx.rule('C16-TA6', 'the executor is a `with ThreadPoolExecutor(1)` enclosing the submit and the whole consumer loop', 2)
    ctx.rule('C16-TA7', 'producers forward the loop variable with one put per iteration', 2)
    ctx.rule('C16-TA8', 'an exception of the source escapes the producer (so that the consumer re-raises it); nothing in the producer swallows it', 2)
    ctx.rule('C16-TA9', 'the consumer loop is left only through the sentinel test; dequeues block without a timeout', 2)
    ctx.rule('C16-TA10', 'a caller-supplied event loop is not closed or stopped by the bridge', 1)
    ctx.rule('C16-TA12', 'a hand-off queue fed with put_nowait is unbounded', 1)
    ctx.rule('C16-TA11', 'the sync bridge\'s worker runs the producer coroutine with run_until_complete on the given loop or a new one (never None)', 1)
    sent = _sentinel(p)
    if sent is None:
        # no private object: is there an end marker at all?  (decided on the original source: a literal marker is folded away by
        # the loader)  A module-level name that the bridges both hand to a put and compare dequeued values with, bound to
        # something an element can be - None, a literal, Ellipsis - ends the stream at the first such element
        u0 = p.unit(A)
        raw = ast.parse(u0.src)
        mod_vals = {st.targets[0].id: st.value for st in raw.body if isinstance(st, ast.Assign) and len(st.targets) == 1 and isinstance(st.targets[0], ast.Name)}
        for fn_ in [x for x in raw.body if isinstance(x, (ast.FunctionDef, ast.AsyncFunctionDef)) and x.name in ('to_async_iter', 'to_sync_iter')]:
            cmp_names = {y.id for x in ast.walk(fn_) if isinstance(x, ast.Compare) for y in [x.left] + x.comparators if isinstance(y, ast.Name)}
            arg_names = {y.id for x in ast.walk(fn_) if isinstance(x, ast.Call) for y in x.args if isinstance(y, ast.Name)}
            for nm in sorted(cmp_names & arg_names & set(mod_vals)):
                v = mod_vals[nm]
                ctx.violation('C16-TA2', f'{fn_.name}: the end marker {nm} = {norm(v)} is not a private object', f'{A}:{v.lineno}',
                              'the end-of-stream marker is a value an element of the source can be (or equal): the first such element ends the '
                              'iteration early and the rest is dropped', construct=construct_key(fn_.name, 'end marker not private'))
                sent = nm
        if sent is None:
            raise AnalysisError('module-level sentinel (X = object()) not found')
        return      # the remaining rules are about a protocol with a private marker
    for fname in ('to_async_iter', 'to_sync_iter'):
        f = p.func(A, fname)
        g = build(f, p)
        is_async = fname == 'to_async_iter'
        # consumer loop: a while whose test compares a dequeued value with the sentinel
        cons = [n for n in g.nodes if n.kind == 'branch' and isinstance(n.meta['test'], ast.Compare)
                and any(isinstance(x, ast.Name) and x.id == sent for x in ast.walk(n.meta['test']))]
        if not cons:
            ctx.violation('C16-TA2', f'{fname}: no comparison with the sentinel {sent}', f'{A}:{f.lineno}',
                          'the consumer cannot tell end-of-stream from an element', construct=construct_key(fname, 'no sentinel test'))
            continue
        cb = cons[0]
        t = cb.meta['test']
        op = t.ops[0]
        ident = len(t.ops) == 1 and isinstance(op, (ast.IsNot, ast.Is)) and isinstance(t.comparators[0], ast.Name) \
            and t.comparators[0].id == sent
        cont_label = 'true' if isinstance(op, (ast.IsNot, ast.NotEq)) else 'false'
        left = t.left
        var = left.target.id if isinstance(left, ast.NamedExpr) else (left.id if isinstance(left, ast.Name) else None)
        deq = [n for n in g.nodes if n.kind == 'store_name' and n.meta['name'] == var] if var else []
        qvar = None
        for d in deq:
            v = d.meta.get('value')
            c = v.value if isinstance(v, ast.Await) else v
            if isinstance(c, ast.Call) and isinstance(c.func, ast.Attribute) and c.func.attr == 'get' and isinstance(c.func.value, ast.Name):
                qvar = c.func.value.id
        ce = [e for e in g.succ[cb.id] if e.label == cont_label]
        ys = [n for n in g.nodes if n.kind == 'yield' and isinstance(n.ast.value, ast.Name) and n.ast.value.id == var]
        # on the continue edge the next node (ignoring nothing) must be the yield of the dequeued variable;
        # no branch may sit between the test and the yield
        branches = [n for n in g.nodes if n.kind == 'branch' and n is not cb]
        w = must_pass(g, [], deq + [g.exit], ys, start_edges=ce, edge_ok=_nonexc)
        w2 = find_path(g, [], branches, avoid=ys, start_edges=ce, edge_ok=_nonexc)
        ok = ident and var is not None and qvar is not None and bool(ys) and w is None and w2 is None
        ctx.check('C16-TA2', f'{fname}: while {norm(t)}: yield {var}', g.loc(cb), ok,
                  'identity test against the sentinel object; every other value is yielded',
                  'the end-of-stream test is not an identity comparison with the sentinel, or dequeued values are filtered: '
                  'None / falsy / equal-looking elements are dropped or end the stream early',
                  witness=render(g, w or w2), construct=construct_key(fname, 'consumer test', t))
        # producers
        prods = [c for c in f.children if c.kind == 'function' and any(
            isinstance(x, ast.Name) and x.id == sent for x in ast.walk(c.node))]
        # ... or a private module-level function that the bridge hands to its worker (with its arguments)
        u_ = p.unit(A)
        names_used = {x.id for x in ast.walk(f.node) if isinstance(x, ast.Name)}
        ext_prods = [c for c in u_.module_scope.children if c.kind == 'function' and c.name.startswith('_') and c.name in names_used
                     and any(isinstance(x, ast.Name) and x.id == sent for x in ast.walk(c.node))]
        ge_full = build(f, p, expand_deferred=True) if ext_prods else None
        prods = prods + ext_prods
        if not prods:
            ctx.violation('C16-TA1', f'{fname}: no producer puts the sentinel', f'{A}:{f.lineno}',
                          'the consumer never stops', construct=construct_key(fname, 'no sentinel producer'))
        for pr in prods:
            if pr in ext_prods:
                # analysed where it is expanded in the bridge's graph: its parameters are bound to the bridge's values there
                gp = ge_full
                region = {n.id for n in gp.nodes if n.meta.get('deferred') and n.meta.get('inlined_from') == pr.qualname}
                ent = [n for n in gp.nodes if n.kind == 'inline_enter' and n.meta.get('name') == pr.qualname]
                p_entry = ent
                p_exits = [n for n in gp.nodes if n.id not in region and any(e.src.id in region for e in gp.pred[n.id])]
                p_normal_exits = [n for n in p_exits if n.kind == 'inline_exit']
                sites = [t_ for t_ in _put_sites(gp, f) if t_[0].id in region]
                loops = [n for n in gp.nodes if n.kind == 'for_iter' and n.id in region]
            else:
                gp = build(pr, p)
                region = {n.id for n in gp.nodes}
                p_entry = [gp.entry]
                p_exits = [gp.exit, gp.raise_exit]
                p_normal_exits = [gp.exit]
                sites = _put_sites(gp, pr)
                loops = [n for n in gp.nodes if n.kind == 'for_iter' and not n.meta.get('inlined')]
            sput = [n for n, form, q_, arg in sites if isinstance(arg, ast.Name) and arg.id == sent]
            lv = None
            if loops and isinstance(loops[0].ast.target, ast.Name):
                lv = loops[0].ast.target.id
            eput = [n for n, form, q_, arg in sites if n not in sput and isinstance(arg, ast.Name) and arg.id == lv]
            other_puts = [n for n, form, q_, arg in sites if n not in sput and n not in eput]
            # the sentinel put itself may fail (closed loop): its own exception edge is not a path "without" it
            w = must_pass(gp, p_entry, p_exits, sput)
            w2 = find_path(gp, sput, eput) if sput and eput else None
            ctx.check('C16-TA1', f'{pr.qualname}: {[norm(s.ast) for s in sput][:1]} on every exit, after the elements', f'{A}:{pr.lineno}',
                      w is None and w2 is None and bool(sput),
                      'a failing source still ends the stream, after its elements',
                      'a failing (or finishing) source can leave the consumer waiting for ever, or elements follow the sentinel',
                      witness=render(gp, w or w2), construct=construct_key(pr.qualname, 'sentinel not on all exits'))
            # TA7
            body = [n for n in gp.nodes if loops and loops[0].ast in n.loops]
            inner_loops = [n for n in body if n.kind in ('for_iter', 'loop_head')]
            ok7 = len(loops) == 1 and len(eput) == 1 and eput[0] in body and not inner_loops and not other_puts
            ctx.check('C16-TA7', f'{pr.qualname}: for {lv} in ...: {norm(eput[0].ast) if eput else None}', f'{A}:{pr.lineno}', ok7,
                      'each element forwarded once, in order', 'elements are dropped, duplicated or transformed by the producer',
                      construct=construct_key(pr.qualname, 'forwarding'))
            # TA8: failures of the source iteration leave the producer as exceptions
            for lp_ in loops:
                ee = [e for e in gp.succ[lp_.id] if e.label == 'exc']
                # also calls inside the loop header (next() of a wrapped iterator) are the for_iter node itself
                w8 = find_path(gp, [], p_normal_exits, start_edges=ee) if ee else None
                ctx.check('C16-TA8', f'{pr.qualname}: an exception raised by iterating {norm(lp_.ast.iter)} escapes', gp.loc(lp_), bool(ee) and w8 is None,
                          'the worker\'s future carries the source\'s exception to the consumer',
                          'a handler in the producer swallows (some of) the source\'s exceptions: the consumer sees a clean, shorter stream',
                          witness=render(gp, w8), construct=construct_key(pr.qualname, 'source error swallowed'))
            # TA5: how do the values travel?
            if eput:
                forms = {(form, q_) for n, form, q_, arg in sites if n in eput or n in sput}
                qn = next(iter(forms))[1] if len(forms) == 1 else None
                qdefs = [n for n in g.nodes if n.kind == 'store_name' and n.meta['name'] == qn] if qn else []
                ctor = 'asyncio.Queue' if is_async else 'queue.Queue'
                want_form = 'threadsafe' if is_async else 'direct'
                okq = len(forms) == 1 and next(iter(forms))[0] == want_form and qn == qvar and bool(qdefs) and all(
                    isinstance(d.meta.get('value'), ast.Call) and g.res.path(d.meta['value'].func) == ctor for d in qdefs)
                if is_async:
                    ctx.check('C16-TA5', f'{pr.qualname}: hand-off {sorted(forms)}', gp.loc(eput[0]), okq,
                              'loop.call_soon_threadsafe(q.put_nowait, x) on the consumer\'s asyncio.Queue',
                              'the helper thread touches the asyncio.Queue directly (no wake-up of the loop, not thread-safe) or a different queue',
                              construct=construct_key(pr.qualname, 'hand-off'))
                else:
                    ctx.check('C16-TA5', f'{pr.qualname}: hand-off {sorted(forms)}', gp.loc(eput[0]), okq,
                              'thread-safe queue.Queue between the loop thread and the plain consumer',
                              'the hand-off queue is not a thread-safe FIFO shared with the consumer',
                              construct=construct_key(pr.qualname, 'hand-off'))
        # TA12: a hand-off that cannot wait (put_nowait) needs a queue that is never full
        qctors = [d.meta['value'] for d in g.nodes if d.kind == 'store_name' and d.meta['name'] == qvar
                  and isinstance(d.meta.get('value'), ast.Call) and g.res.path(d.meta['value'].func) in ('asyncio.Queue', 'queue.Queue', 'queue.SimpleQueue')]
        for qc in qctors:
            cap = qc.args[0] if qc.args else next((k.value for k in qc.keywords if k.arg == 'maxsize'), None)
            capv = resolve(g, next(d for d in g.nodes if d.kind == 'store_name' and d.meta.get('value') is qc), cap) if cap is not None else None
            if isinstance(capv, ast.UnaryOp) and isinstance(capv.op, ast.USub) and isinstance(capv.operand, ast.Constant):
                unbounded = True
            else:
                unbounded = cap is None or (isinstance(capv, ast.Constant) and isinstance(capv.value, (int, float)) and capv.value <= 0)
            nowait = any(isinstance(x, ast.Attribute) and x.attr == 'put_nowait' for pr_ in [f] + [q_ for q_ in prods if q_ in ext_prods]
                         for x in ast.walk(pr_.node))
            ctx.check('C16-TA12', f'{f.qualname}: hand-off queue {norm(qc)}', f'{A}:{qc.lineno}', unbounded or not nowait,
                      'unbounded: a put that cannot wait never finds it full' if unbounded else 'bounded, but every put waits for room',
                      'the queue is bounded and the producer hands elements over with put_nowait: when the consumer falls behind, '
                      'QueueFull is raised where nobody sees it (a loop callback) - elements and the end marker are lost, the consumer hangs',
                      construct=construct_key(f.qualname, 'bounded hand-off queue'))
        # TA3
        fut = [n for n in g.nodes if n.kind == 'store_name' and isinstance(n.meta.get('value'), ast.Call)
               and isinstance(n.meta['value'].func, ast.Attribute) and n.meta['value'].func.attr in ('run_in_executor', 'submit')]
        fv = fut[0].meta['name'] if fut else None
        if is_async:
            coll = [n for n in g.nodes if n.kind == 'await' and isinstance(n.ast.value, ast.Name) and n.ast.value.id == fv]
        else:
            coll = [n for n in g.nodes if n.kind == 'call' and isinstance(n.ast.func, ast.Attribute) and n.ast.func.attr == 'result'
                    and isinstance(n.ast.func.value, ast.Name) and n.ast.func.value.id == fv]
        stop_edges = [e for e in g.succ[cb.id] if e.label != cont_label]
        w = must_pass(g, [], [g.exit], coll, start_edges=stop_edges, edge_ok=_nonexc)
        ctx.check('C16-TA3', f'{fname}: after the sentinel -> {[norm(c.ast) for c in coll][:1]}', g.loc(cb), w is None and bool(coll),
                  'the source\'s exception is re-raised to the consumer after its elements',
                  'an exception of the source is swallowed: the stream just ends', witness=render(g, w),
                  construct=construct_key(fname, 'producer outcome not collected'))
        # TA9: the only way out of the consumer loop is the sentinel
        cloop = cb.loops[-1] if cb.loops else None
        if cloop is None:
            for x in ast.walk(f.node):
                if isinstance(x, ast.While) and any(y is t for y in ast.walk(x.test)):
                    cloop = x
        if cloop is not None:
            inside_l = [n for n in g.nodes if cloop in n.loops or (n.kind == 'branch' and any(y is n.meta['test'] for y in ast.walk(cloop.test)))]
            ids_l = {n.id for n in inside_l}
            head_l = next((n for n in g.nodes if n.kind == 'loop_head' and n.ast is cloop), None)
            stop_ids = {id(e) for e in g.succ[cb.id] if e.label != cont_label}
            # what can be reached from the loop head without taking the "sentinel seen" edge
            seen_r = reach(g, [head_l] if head_l is not None else inside_l[:1], edge_ok=lambda e: e.label != 'exc' and id(e) not in stop_ids)
            leaks = [e for n in inside_l if n.id in seen_r or n is head_l for e in g.succ[n.id] if e.label != 'exc' and e.dst.id not in ids_l
                     and (head_l is None or e.dst is not head_l) and id(e) not in stop_ids and e.dst.kind != 'yield']
            ctx.check('C16-TA9', f'{fname}: exits of the consumer loop other than the sentinel: {[norm(e.src.ast)[:40] if e.src.ast is not None else e.src.kind for e in leaks]}',
                      g.loc(cb), not leaks, 'the stream ends exactly when the producer said so',
                      'the consumer can leave the loop (break / return on a timeout, a done() poll, ...) while elements are still queued: they are lost',
                      construct=construct_key(fname, 'consumer leaves early'))
        for d in deq:
            v = d.meta.get('value')
            c = v.value if isinstance(v, ast.Await) else v
            if isinstance(c, ast.Call):
                timed = bool(c.keywords) or len(c.args) > 0 or (isinstance(c.func, ast.Attribute) and c.func.attr != 'get')
                ctx.check('C16-TA9', f'{fname}: dequeue {norm(c)} blocks until a value arrives', g.loc(d), not timed,
                          'plain blocking get()', 'a timed / non-blocking dequeue needs an extra exit from the loop: a race with the producer loses elements',
                          construct=construct_key(fname, 'timed dequeue'))
        # TA10
        if not is_async and 'loop' in f.params:
            from ..dataflow import leaves
            scopes_ = [f] + [c for c in f.children if c.kind == 'function']
            for sc_ in scopes_:
                gs = g if sc_ is f else build(sc_, p)
                for n in gs.nodes:
                    if n.kind == 'call' and isinstance(n.ast.func, ast.Attribute) and n.ast.func.attr in ('close', 'stop', 'shutdown_asyncgens'):
                        lf = leaves(gs, n, n.ast.func.value)
                        owned = bool(lf) and all(isinstance(x, ast.Call) and gs.res.path(x.func) == 'asyncio.new_event_loop' for x in lf)
                        is_loop = any((isinstance(x, ast.Name) and ('loop' in x.id)) or (isinstance(x, ast.Call) and 'loop' in (gs.res.path(x.func) or ''))
                                      for x in lf)
                        if is_loop:
                            ctx.check('C16-TA10', f'{sc_.qualname}: {norm(n.ast)}', gs.loc(n), owned, 'only a loop the bridge created itself',
                                      'the loop passed by the caller is closed/stopped: the next bridge (or anything else) on that loop fails or hangs',
                                      construct=construct_key(sc_.qualname, 'closes caller loop'))
            ctx.holds('C16-TA10', f'{fname}: scanned {len(scopes_)} scope(s) for close()/stop() on a caller-supplied loop', f'{A}:{f.lineno}')
        # TA11: the worker really runs the producer - on a loop that exists
        if not is_async:
            ge_ = build(f, p, expand_deferred=True)
            runs_ = [n for n in ge_.nodes if n.kind == 'call' and n.meta.get('deferred') and isinstance(n.ast.func, ast.Attribute)
                     and n.ast.func.attr == 'run_until_complete']
            okr = False
            why_ = 'the submitted function does not run the producer coroutine to completion'
            from ..dataflow import leaves as _leaves, unalias as _ua
            from ..paths import envs_at as _envs_at, nonnull_at
            for rn_ in runs_:
                a0 = rn_.ast.args[0] if rn_.ast.args else None
                runs_prod = isinstance(a0, ast.Call) and isinstance(a0.func, ast.Name) and a0.func.id in {c.name for c in prods} and not a0.args
                lv_ = _ua(ge_, rn_, rn_.ast.func.value)
                lfs = _leaves(ge_, rn_, rn_.ast.func.value)
                src_ok = bool(lfs) and all((isinstance(x, ast.Call) and ge_.res.path(x.func) == 'asyncio.new_event_loop')
                                           or (isinstance(x, ast.Name) and x.id in f.params) for x in lfs)
                nn = isinstance(lv_, ast.Name) and nonnull_at(ge_, rn_, lv_.id)
                if runs_prod and src_ok and nn:
                    okr = True
                elif runs_prod and src_ok:
                    why_ = f'the loop {norm(lv_)} may be None when the worker runs (the default is not replaced by a new loop on every path)'
            ctx.check('C16-TA11', f'{fname}: worker -> {[norm(n.ast) for n in runs_]}', f'{A}:{f.lineno}', okr and len(runs_) == 1,
                      'the producer coroutine is driven by a real event loop in the worker thread',
                      why_ + ': nothing is ever queued, not even the sentinel - the consumer blocks for ever',
                      construct=construct_key(fname, 'worker does not run the producer'))
        # TA6: once the single-worker pool exists, every way out of the bridge joins it
        creations = [n for n in g.nodes if n.kind == 'call' and (g.res.path(n.ast.func) or '').endswith('ThreadPoolExecutor')]
        okp = bool(creations) and bool(fut)
        desc = None
        wj = None
        for cr in creations:
            a0 = cr.ast.args[0] if cr.ast.args else next((k.value for k in cr.ast.keywords if k.arg == 'max_workers'), None)
            one = isinstance(a0, ast.Constant) and a0.value == 1
            # what joins it: leaving a `with` (also one entered through ExitStack.enter_context) on this pool, or shutdown(wait != False)
            pool_names = {n.meta['name'] for n in g.nodes if n.kind == 'store_name' and n.meta.get('value') is not None
                          and any(x is cr.ast for x in ast.walk(n.meta['value']))}
            for n in g.nodes:
                if n.kind == 'with_enter' and n.ast is cr.ast and isinstance(n.meta['item'].optional_vars, ast.Name):
                    pool_names.add(n.meta['item'].optional_vars.id)
            joins = [n for n in g.nodes if n.kind == 'with_exit' and (n.meta['item'].context_expr is cr.ast or (
                isinstance(n.meta['item'].context_expr, ast.Name) and n.meta['item'].context_expr.id in pool_names))]
            for n in g.nodes:
                if n.kind == 'call' and isinstance(n.ast.func, ast.Attribute) and n.ast.func.attr == '__exit__' \
                        and isinstance(n.ast.func.value, ast.Name) and n.ast.func.value.id in pool_names:
                    joins.append(n)       # ExitStack leaving a context it entered with enter_context(pool)
                if n.kind == 'call' and isinstance(n.ast.func, ast.Attribute) and n.ast.func.attr == 'shutdown' \
                        and isinstance(n.ast.func.value, ast.Name) and n.ast.func.value.id in pool_names:
                    nowait = any(k.arg == 'wait' and isinstance(k.value, ast.Constant) and k.value.value is False for k in n.ast.keywords) \
                        or (n.ast.args and isinstance(n.ast.args[0], ast.Constant) and n.ast.args[0].value is False)
                    if not nowait:
                        joins.append(n)
            starts_ = [e for e in g.succ[cr.id] if e.label != 'exc']
            wj = must_pass(g, [], [g.exit, g.raise_exit], joins, start_edges=starts_)
            # the work is submitted to this pool, inside the joined region
            sub_ok = all(find_path(g, [cr], [x], edge_ok=_nonexc) is not None for x in fut + [cb])
            okp = okp and one and wj is None and bool(joins) and sub_ok
            desc = f'{norm(cr.ast)} joined by {sorted({norm(j.ast)[:40] for j in joins})}'
        # ... and not before the elements were consumed: joining the worker first (a `with` that ends before the consumer loop)
        # waits, on the consumer's thread - the event loop's, in the async bridge - until the producer is through
        heads_ = [n for n in g.nodes if n.kind == 'loop_head' and not n.meta.get('deferred') and not n.meta.get('inlined')]
        early = None
        for j_ in [n for n in g.nodes if (n.kind == 'with_exit' and n.meta.get('how') == 'normal' and any(n.meta['item'].context_expr is cr_.ast for cr_ in creations))]:
            early = early or find_path(g, [j_], heads_, edge_ok=_nonexc)
        if creations and heads_:
            ctx.check('C16-TA6', f'{fname}: the pool is not joined before the consumer loop', f'{A}:{f.lineno}', early is None,
                      'the worker is joined once the elements are through', 'the with-block of the pool ends before the consumer loop: leaving it waits for the producer '
                      'to finish while nothing consumes - the event loop is blocked for the whole iteration (async bridge), laziness is gone',
                      witness=render(g, early), construct=construct_key(fname, 'pool joined before the consumer loop'))
        ctx.check('C16-TA6', f'{fname}: {desc}: every exit after creating the pool joins its worker', f'{A}:{f.lineno}', okp,
                  'leaving the generator joins the single worker', 'the helper thread can outlive the iteration (executor not scoped around it)',
                  witness=render(g, wj), construct=construct_key(fname, 'executor scope'))
        # TA4
        if is_async:
            sync_loops = [n for n in g.nodes if n.kind == 'for_iter' and not n.meta.get('is_async')]
            isb = [n for n in g.nodes if n.kind == 'branch' and norm(n.meta['test']).startswith('isinstance(') and 'Iterator' in norm(n.meta['test'])]
            for sl in sync_loops:
                w = find_path(g, [g.entry], [sl], edge_ok=lambda e: not (e.src in isb and e.label == 'false'))
                ctx.check('C16-TA4', f'inline `for` over {norm(sl.ast.iter)} only for non-iterators', g.loc(sl), w is None and bool(isb),
                          'a (possibly blocking) iterator is never advanced on the event loop',
                          'a synchronous iterator is advanced on the event loop thread: the loop blocks while the iterator blocks',
                          witness=render(g, w), construct=construct_key(fname, 'inline iteration'))
            ex = [n for n in g.nodes if n.kind == 'call' and isinstance(n.ast.func, ast.Attribute) and n.ast.func.attr == 'run_in_executor']
            for sl in sync_loops:
                # once the elements were yielded inline, the generator ends: it must not go on to the threaded path as well
                fe_ = [e for e in g.succ[sl.id] if e.label == 'false']
                w = find_path(g, [], ex + fut, start_edges=fe_, edge_ok=_nonexc) if (ex or fut) else None
                ctx.check('C16-TA4', f'after the inline loop over {norm(sl.ast.iter)} the generator returns', g.loc(sl), w is None,
                          'each element is yielded once', 'after yielding every element inline the iterable is iterated again through the worker thread: every element is delivered twice',
                          witness=render(g, w), construct=construct_key(fname, 'inline path falls through'))
            okx = any(len(n.ast.args) >= 2 and isinstance(n.ast.args[1], ast.Name) and n.ast.args[1].id in {c.name for c in prods} for n in ex)
            ctx.check('C16-TA4', f'producer handed to run_in_executor: {[norm(n.ast) for n in ex]}', f'{A}:{f.lineno}', okx,
                      'iteration happens on the helper thread', 'the producer is not run in the executor',
                      construct=construct_key(fname, 'executor hand-off'))


# ---------------------------------------------------------------------------
# C17
# ---------------------------------------------------------------------------

def c17(ctx: Ctx) -> None:
    p = ctx.program
    from .common import rule_unbound
    rule_unbound(ctx, 'C17-U1', [p.func(A, n_) for n_ in ('ensure_aw', 'loop_in_thread', '_get_loop_lock', 'run_aw_threadsafe')], 'the cross-loop helpers')
    ctx.trusted += ['run_coroutine_threadsafe / wrap_future transport result and exception unchanged',
                    'loop.run_until_complete returns/raises what the awaitable does']
    ctx.rule('C17-R1', 'three-way dispatch of ensure_aw (truth table over same / running / closed)', 4)
    ctx.rule('C17-R2', 'run_until_complete / run_forever reached from these helpers execute with the per-loop lock of the same loop held', 2)
    ctx.rule('C17-R3', 'per-loop lock table: stores happen under the creation lock after a locked re-probe; the key derives from the loop', 2)
    ctx.rule('C17-R4', 'the awaitable is evaluated on the target loop and its outcome returned unchanged (return await, no handler)', 3)
    ctx.rule('C17-R5', 'loop_in_thread returns only after observing loop.is_running()', 1)
    ctx.rule('C17-R6', 'the stopper calls loop.call_soon_threadsafe(loop.stop) and then joins the worker', 1)
    from ..dataflow import unalias, leaves
    from ..sym import sym_env, subst, simplify
    ea = p.func(A, 'ensure_aw')
    # the function handed to the executor is expanded in place: a nested closure, a module-level helper given its
    # arguments, a helper that applies an operator.methodcaller - all give the same graph
    g = build(ea, p, expand_deferred=True)
    # (for the dispatch table a module-level helper that classifies the target loop - `_pick_route(main_loop, loop)` - is part of
    # the dispatch; the other rules keep the helpers as call sites)
    g1 = build(ea, p, expand_deferred=True, inline_module_helpers=True)
    awp, loopp = ea.params[0], ea.params[1]
    runner = next((c for c in ea.children if c.kind == 'function'), None)

    def ua(n: Node, e: ast.AST) -> str:
        return norm(unalias(g, n, e))
    def ua1(n: Node, e: ast.AST) -> str:
        return norm(unalias(g1, n, e))
    # R1
    def atom(n: Node) -> Optional[str]:
        if n.kind != 'branch' or n.meta.get('deferred'):
            return None
        t = resolve(g1, n, n.meta['test'], keep=(loopp, awp))
        if isinstance(t, ast.Compare) and len(t.ops) == 1 and isinstance(t.ops[0], (ast.Is, ast.IsNot)):
            sides = [t.left, t.comparators[0]]
            names = [norm(x) for x in sides]
            if loopp in names and len(set(names)) == 2:
                other = sides[1 - names.index(loopp)]
                if isinstance(other, ast.Call) and g1.res.path(other.func) == 'asyncio.get_running_loop':
                    return 'same' if isinstance(t.ops[0], ast.Is) else '!same'
        if isinstance(t, ast.Call) and isinstance(t.func, ast.Attribute) and isinstance(t.func.value, ast.Name) and t.func.value.id == loopp:
            return {'is_running': 'running', 'is_closed': 'closed'}.get(t.func.attr)
        return None
    ends = [n for n in g1.nodes if n.kind in ('return', 'raise') and not n.meta.get('deferred')]
    paths = enum_paths(g1, ends, sources=[g1.entry], edge_ok=_nonexc)
    actions_seen = set()
    seen_inst = set()
    for pth in paths:
        facts: Dict[str, bool] = {}
        for e in pth:
            a = atom(e.src)
            if a and e.label in ('true', 'false'):
                v = e.label == 'true'
                if a == '!same':
                    a, v = 'same', not v
                facts[a] = v
        end = pth[-1].dst
        action = 'other'
        if end.kind == 'raise':
            c = end.ast.exc
            action = 'raise RuntimeError' if isinstance(c, ast.Call) and norm(c.func) == 'RuntimeError' else 'raise other'
            if action == 'raise other' and not facts and isinstance(c, ast.Call) and norm(c.func) in ('TypeError', 'ValueError') \
                    and not any(e.src.kind == 'await' for e in pth):
                continue        # an argument check ahead of the dispatch: nothing has been decided or evaluated yet
        else:
            # what evaluates the awaitable on this path
            aws_ = [e.src for e in pth if e.src.kind == 'await' and not e.src.meta.get('deferred')]
            runs = [e.src for e in pth if e.src.kind == 'call' and e.src.meta.get('deferred') and isinstance(e.src.ast.func, ast.Attribute)
                    and e.src.ast.func.attr == 'run_until_complete']
            if len(aws_) == 1:
                aw_n = aws_[0]
                inner = resolve(g1, aw_n, aw_n.ast.value, keep=(awp, loopp))
                if isinstance(inner, ast.Name) and inner.id == awp:
                    action = 'inline'
                elif isinstance(inner, ast.Call):
                    cn = norm(inner.func)
                    if cn == 'run_aw_threadsafe' and [norm(a_) for a_ in inner.args] == [awp, loopp]:
                        action = 'threadsafe'
                    elif isinstance(inner.func, ast.Attribute) and inner.func.attr == 'run_in_executor' and len(runs) == 1 \
                            and ua1(runs[0], runs[0].ast.func.value) == loopp and [ua1(runs[0], a_) for a_ in runs[0].ast.args] == [awp]:
                        action = 'run'
                # the value returned is the value awaited
                env = sym_env(g1, pth)
                rv = simplify(subst(end.ast.value, env)) if end.ast.value is not None else None
                if not (isinstance(rv, ast.Await) and (getattr(rv, 'lineno', None), getattr(rv, 'col_offset', None)) ==
                        (aw_n.ast.lineno, aw_n.ast.col_offset)):
                    action = 'other'
        actions_seen.add(action)
        want = {'inline': {'same': True},
                'threadsafe': {'same': False, 'running': True},
                'raise RuntimeError': {'same': False, 'closed': True},
                'run': {'same': False, 'running': False, 'closed': False}}.get(action)
        ok = want is not None and all(facts.get(k) == v for k, v in want.items())
        k_ = (action, tuple(sorted(facts.items())), ok)
        if k_ in seen_inst:
            continue
        seen_inst.add(k_)
        ctx.check('C17-R1', f'{action} under {facts}', g1.loc(end), ok, 'matches the dispatch table',
                  f'expected guard {want}: the awaitable would be evaluated on the wrong loop / a running loop would be run again / a closed loop used',
                  witness=render(g1, pth), construct=construct_key('ensure_aw', 'dispatch', action, sorted(facts.items())))
    missing = {'inline', 'threadsafe', 'raise RuntimeError', 'run'} - actions_seen
    if missing:
        ctx.violation('C17-R1', f'missing dispatch branches: {sorted(missing)}', f'{A}:{ea.lineno}',
                      'a state of the target loop is not handled', construct=construct_key('ensure_aw', 'missing', sorted(missing)))
    # R2: on the expanded graphs of both hosts
    n_run = 0
    for host in (ea, p.func(A, 'loop_in_thread')):
        gc = build(host, p, expand_deferred=True)
        lock_locals = {x.meta['name']: x.meta['value'] for x in gc.nodes if x.kind == 'store_name'
                       and isinstance(x.meta.get('value'), ast.Call) and norm(x.meta['value'].func) == '_get_loop_lock'}
        lock_defs = {x.meta['name']: x for x in gc.nodes if x.kind == 'store_name'
                     and isinstance(x.meta.get('value'), ast.Call) and norm(x.meta['value'].func) == '_get_loop_lock'}
        held = held_locks(gc, list(lock_locals)) if lock_locals else {}
        for n in gc.nodes:
            if n.kind == 'call' and isinstance(n.ast.func, ast.Attribute) and n.ast.func.attr in ('run_until_complete', 'run_forever'):
                n_run += 1
                recv = norm(unalias(gc, n, n.ast.func.value))
                ctxs = []
                for i in n.withs:
                    we = next((x for x in gc.nodes if x.kind == 'with_enter' and x.meta.get('item') is i), None)
                    ce_ = resolve(gc, we, i.context_expr) if we is not None else i.context_expr
                    ctxs.append((we, ce_))
                okl = any(isinstance(c_, ast.Call) and norm(c_.func) == '_get_loop_lock'
                          and [norm(unalias(gc, we or n, a_)) for a_ in c_.args] == [recv] for we, c_ in ctxs)
                if not okl and lock_locals:
                    # lock object in a local: `lock = _get_loop_lock(loop); lock.acquire(); try: ... finally: lock.release()`
                    okl = any(nm in held[n.id] and [norm(unalias(gc, lock_defs[nm], a_)) for a_ in lock_locals[nm].args] == [recv]
                              for nm in lock_locals)
                if okl and lock_locals and not any(isinstance(c_, ast.Call) and norm(c_.func) == '_get_loop_lock' for _, c_ in ctxs):
                    # acquire()/release() form (also a @contextmanager helper expanded in place): the lock must be
                    # given back on every way out, or the next caller targeting this loop never gets it
                    for nm in lock_locals:
                        acqs = [x for x in gc.nodes if x.kind == 'call' and isinstance(x.ast.func, ast.Attribute) and x.ast.func.attr == 'acquire'
                                and norm(unalias(gc, x, x.ast.func.value)) == nm]
                        rels = [x for x in gc.nodes if x.kind == 'call' and isinstance(x.ast.func, ast.Attribute) and x.ast.func.attr == 'release'
                                and norm(unalias(gc, x, x.ast.func.value)) == nm]
                        starts = [e for a_ in acqs for e in gc.succ[a_.id] if e.label != 'exc']
                        wl = must_pass(gc, [], [gc.exit, gc.raise_exit], rels, start_edges=starts) if starts else None
                        ctx.check('C17-R2', f'{host.qualname}: per-loop lock {nm} is released on every exit', gc.loc(acqs[0]) if acqs else gc.loc(n),
                                  wl is None and bool(rels), 'released in a finally / on all paths',
                                  'an exception of the awaitable (or of running the loop) leaves the per-loop lock held: every later call '
                                  'targeting this loop blocks for ever', witness=render(gc, wl),
                                  construct=construct_key(host.qualname, 'loop lock leaked'))
                where_ = n.meta.get('inlined_from') or host.qualname
                ctx.check('C17-R2', f'{where_}: {norm(n.ast)}', gc.loc(n), okl,
                          f'inside `with _get_loop_lock({recv})`', 'a loop can be run by two threads at once (no per-loop lock around running it)',
                          construct=construct_key(host.qualname, 'run without lock', n.ast.func.attr))
    # ... and the per-loop lock is held for nothing else: every region that takes it (anywhere in the module) runs that loop inside
    # and does not suspend - a generator that yields, or a coroutine that awaits, while holding it keeps every ensure_aw /
    # loop_in_thread call for that loop waiting for as long as its consumer likes
    uA2 = p.unit(A)
    for fsc in uA2.functions():
        for w_ in [x for x in own_nodes(fsc.node) if isinstance(x, (ast.With, ast.AsyncWith))]:
            for it_ in w_.items:
                ce_ = it_.context_expr
                if isinstance(ce_, ast.Call) and isinstance(ce_.func, ast.Name) and ce_.func.id == '_get_loop_lock' and ce_.args:
                    lp_ = norm(ce_.args[0])
                    inside = [x for st_ in w_.body for x in ast.walk(st_)]
                    nested_ids = {id(y) for x in inside if isinstance(x, (ast.FunctionDef, ast.AsyncFunctionDef, ast.Lambda)) for y in ast.walk(x) if y is not x}
                    own_in = [x for x in inside if id(x) not in nested_ids]
                    runs_in = [x for x in own_in if isinstance(x, ast.Call) and isinstance(x.func, ast.Attribute) and x.func.attr in ('run_until_complete', 'run_forever')
                               and norm(x.func.value) == lp_]
                    susp = [x for x in own_in if isinstance(x, (ast.Yield, ast.YieldFrom, ast.Await))]
                    if any((dotted(d_) or '').split('.')[-1] in ('contextmanager', 'asynccontextmanager') for d_ in fsc.decorators):
                        susp = []       # the yield of a context manager is the with-body of its user, checked where it is used
                    ctx.check('C17-R2', f'{fsc.qualname}: `with _get_loop_lock({lp_})` does not suspend', f'{A}:{w_.lineno}',
                              not susp, 'held around the run of the loop only',
                              'the per-loop lock is held across a suspension point (or around something that is not a run of that loop): until the holder '
                              'is resumed and leaves the region, every call that wants to run or start this loop blocks in a pool thread while nobody runs it',
                              construct=construct_key(fsc.qualname, 'per-loop lock held across suspension'))
    ts = p.find(A, 'to_sync_iter')
    if ts is not None and any(isinstance(x, ast.Attribute) and x.attr == 'run_until_complete' for x in ast.walk(ts.node)):
        ctx.note('to_sync_iter runs its loop without the per-loop lock; it is outside C17\'s helpers and normally owns a private loop')
    # R3
    gl = p.func(A, '_get_loop_lock')
    gg = build(gl, p, inline_module_helpers=True)
    stores = [n for n in gg.nodes if n.kind == 'store_sub' and isinstance(n.ast.value, ast.Name)]
    # the lock table is the mapping the returned lock comes out of / goes into; other subscript stores of this function
    # (a statistics dict on the side) are not entries of it
    rets_ = [n for n in gg.nodes if n.kind == 'return' and n.ast.value is not None]
    ret_names = {x.id for n in rets_ for x in ast.walk(n.ast.value) if isinstance(x, ast.Name)} \
        | {x.id for n in rets_ for x in ast.walk(resolve(gg, n, n.ast.value)) if isinstance(x, ast.Name)}

    def _holds_returned(st: Node) -> bool:
        if st.ast.value.id in ret_names:
            return True
        stm = st.meta.get('stmt')
        names = {x.id for x in ast.walk(stm) if isinstance(x, ast.Name)} if isinstance(stm, ast.AST) else set()
        return bool((names - {st.ast.value.id}) & ret_names - set(gl.params))
    lock_stores = [n for n in stores if _holds_returned(n)]
    if lock_stores:
        side_ = sorted({n.ast.value.id for n in stores} - {n.ast.value.id for n in lock_stores})
        stores = [n for n in stores if n.ast.value.id in {m.ast.value.id for m in lock_stores}]
        if side_:
            ctx.note(f'C17-R3: subscript stores into {side_} are not entries of the lock table (the returned lock never passes through them)')
    if not stores:
        ctx.violation('C17-R3', 'no lock table store', f'{A}:{gl.lineno}', construct=construct_key('_get_loop_lock', 'no store'))
    u_ = gl.unit        # the module that holds the lock table (asyncio.py, or the private module it was moved to)
    module_locks = [n.targets[0].id for n in u_.tree.body if isinstance(n, ast.Assign) and isinstance(n.targets[0], ast.Name)
                    and isinstance(n.value, ast.Call) and Resolver(u_.module_scope).path(n.value.func) in ('threading.Lock', 'threading.RLock')]
    held_all = held_locks(gg, module_locks)
    for s in stores:
        table = s.ast.value.id
        hl = [l for l in module_locks if l in held_all[s.id]]
        lockname = hl[0] if hl else None
        held = held_all if lockname else {}
        # the locked re-probe in any of its forms (subscript + KeyError, .get + None test, membership test): the
        # store may be reached only through the *miss* edge of a look-up made under the lock
        from ..match import table_lookups
        lk_nodes, miss_edges, _hit, _keys = table_lookups(gg, lambda e_: isinstance(e_, ast.Name) and e_.id == table)
        probes = [n for n in lk_nodes if lockname in held.get(n.id, ())]
        locked_miss = {id(e) for e in miss_edges if lockname in held.get(e.src.id, ())}
        enters = [n for n in gg.nodes if (n.kind == 'with_enter' and gg.res.path(n.ast) == lockname) or (
            n.kind == 'call' and isinstance(n.ast.func, ast.Attribute) and n.ast.func.attr == 'acquire'
            and gg.res.path(n.ast.func.value) == lockname)]
        starts = [e for n in enters for e in gg.succ[n.id] if e.label != 'exc']
        w = find_path(gg, [], [s], start_edges=starts,
                      edge_ok=lambda e: lockname in held.get(e.dst.id, ()) and id(e) not in locked_miss) if lockname else []
        is_lock = lockname in module_locks
        ctx.check('C17-R3', f'{norm(s.meta.get("stmt") or s.ast)} under {lockname} after a locked re-probe', gg.loc(s),
                  lockname is not None and is_lock and w is None and bool(probes),
                  'double-checked creation: one lock per loop', 'two threads can create two different locks for one loop',
                  witness=render(gg, w or None), construct=construct_key('_get_loop_lock', 'creation race'))
    # who may remove an entry: nothing but the finalizer registered at creation (the loop object is gone then)
    tables_ = {s.ast.value.id for s in stores}
    n_rm = 0
    def _is_table(fsc_, nm_: str) -> bool:
        """does the name denote the lock table in this function (the table's own module, or a module importing it)?"""
        bs_ = fsc_.binding_scope(nm_)
        if bs_ is u_.module_scope:
            return nm_ in tables_
        if bs_ is not None and bs_.kind == 'module':
            full_ = fsc_.unit.aliases.get(nm_, '')
            return any(full_ == f'{u_.modname}.{t_}' for t_ in tables_)
        return False
    for fsc in [f_ for uu in p.units.values() for f_ in uu.functions()]:
        for x in own_nodes(fsc.node):
            rm = None
            if isinstance(x, ast.Call) and isinstance(x.func, ast.Attribute) and isinstance(x.func.value, ast.Name) \
                    and x.func.attr in ('pop', 'popitem', 'clear') and _is_table(fsc, x.func.value.id):
                rm = x
            elif isinstance(x, ast.Delete) and any(isinstance(t_, ast.Subscript) and isinstance(t_.value, ast.Name)
                                                  and _is_table(fsc, t_.value.id) for t_ in x.targets):
                rm = x
            if rm is not None:
                n_rm += 1
                ctx.violation('C17-R3', f'{fsc.qualname}: {norm(rm)}', f'{A}:{rm.lineno}',
                              'a per-loop lock is removed from the table while its loop may still be in use: threads queued on the old lock '
                              'and a caller that creates a new one run the same loop at once',
                              construct=construct_key(fsc.qualname, 'lock table entry removed', rm))
    if not n_rm:
        ctx.holds('C17-R3', 'entries of the lock table are removed by the loop finalizer only', f'{A}:{gl.lineno}')
    subs = {norm(resolve(gg, n, n.ast.slice)) for n in gg.nodes if n.kind in ('load_sub', 'store_sub')
            and isinstance(n.ast.value, ast.Name) and n.ast.value.id in tables_}
    ctx.check('C17-R3', f'table key {sorted(subs)} = id(<loop argument>)', f'{A}:{gl.lineno}',
              subs == {f'id({gl.params[0]})'}, 'one entry per loop object', 'the lock is not keyed by the loop',
              construct=construct_key('_get_loop_lock', 'key'))
    # R4
    runs_ = [n for n in g.nodes if n.kind == 'call' and n.meta.get('deferred') and isinstance(n.ast.func, ast.Attribute)
             and n.ast.func.attr == 'run_until_complete']
    for rn_ in runs_:
        ok = ua(rn_, rn_.ast.func.value) == loopp and [ua(rn_, a_) for a_ in rn_.ast.args] == [awp]
        # the worker returns what run_until_complete returned
        host_q = rn_.meta.get('inlined_from')
        rets_r = [n for n in g.nodes if n.kind == 'inline_return' and n.meta.get('deferred') and n.meta.get('inlined_from') == host_q]
        orig = rn_.meta.get('synthetic_for') or rn_.ast

        def is_the_call(n: Node) -> bool:
            if getattr(n.ast, 'value', None) is orig or getattr(n.ast, 'value', None) is rn_.ast:
                return True
            v = resolve(g, n, n.ast.value) if getattr(n.ast, 'value', None) is not None else None
            return v is not None and (v is orig or v is rn_.ast or norm(v) == norm(orig) or norm(v) == norm(resolve(g, rn_, orig)))
        ret_ok = bool(rets_r) and all(is_the_call(n) for n in rets_r)
        ctx.check('C17-R4', f'{host_q}: return {norm(rn_.ast)}', g.loc(rn_), ok and ret_ok,
                  'the awaitable is run by the target loop, its outcome returned', 'the awaitable is not evaluated by the target loop',
                  construct=construct_key('ensure_aw.worker', 'target loop'))
    rat = p.func(A, 'run_aw_threadsafe')
    g2 = build(rat, p)
    rets = [n for n in g2.nodes if n.kind == 'return']
    ok = False

    def _transparent_wrapper(name: str) -> bool:
        w = p.find(A, name)
        if w is None or not w.is_async or len(w.params) != 1:
            return False
        gw = build(w, p)
        rs = [n for n in gw.nodes if n.kind == 'return']
        return bool(rs) and all(norm(resolve(gw, n, n.ast.value)) == f'await {w.params[0]}' for n in rs) \
            and not [n for n in gw.nodes if n.kind == 'except']
    awp_ = rat.params[0]

    def good_coro(e) -> bool:
        if e is None:
            return False
        if norm(e) == awp_:
            return True
        if isinstance(e, ast.Call) and isinstance(e.func, ast.Name) and [norm(a_) for a_ in e.args] == [awp_]:
            return _transparent_wrapper(e.func.id)
        if isinstance(e, ast.IfExp):
            return good_coro(e.body) and good_coro(e.orelse)
        return False
    # every value any return can yield is `await wrap_future(run_coroutine_threadsafe(<the awaitable, possibly dressed as a
    # coroutine by a transparent wrapper>, <the target loop>))`
    ok = bool(rets)
    for rn in rets:
        vals = leaves(g2, rn, rn.ast.value) if rn.ast.value is not None else []
        ok = ok and bool(vals)
        for v in vals:
            v = resolve(g2, rn, v)
            good = False
            if isinstance(v, ast.Await):
                v = v.value
                if isinstance(v, ast.Call) and g2.res.path(v.func) == 'asyncio.wrap_future' and len(v.args) == 1 and isinstance(v.args[0], ast.Call) \
                        and g2.res.path(v.args[0].func) == 'asyncio.run_coroutine_threadsafe' and len(v.args[0].args) == 2:
                    c0, l0 = v.args[0].args
                    site = next((n for n in g2.nodes if n.kind == 'call' and g2.res.path(n.ast.func) == 'asyncio.run_coroutine_threadsafe'
                                 and (n.ast.lineno, n.ast.col_offset) == (getattr(v.args[0], 'lineno', -1), getattr(v.args[0], 'col_offset', -1))), rn)
                    cl = leaves(g2, site, c0) if isinstance(c0, ast.Name) and c0.id != awp_ else [c0]
                    good = norm(l0) == rat.params[1] and bool(cl) and all(good_coro(x) for x in cl)
            ok = ok and good
    handlers = [n for n in g2.nodes if n.kind == 'except']
    ctx.check('C17-R4', f'run_aw_threadsafe: {norm(rets[0].ast) if rets else None}', f'{A}:{rat.lineno}', ok and not handlers,
              'submitted to the target loop, bridged back, outcome returned unchanged',
              'the awaitable is submitted to the wrong loop / wrapped so that its result or exception changes',
              construct=construct_key('run_aw_threadsafe', 'bridge'))
    hs = [n for n in g.nodes if n.kind == 'except' and not n.meta.get('deferred')]
    # handlers in the worker (the function run by the executor): allowed only when every path out of them is a bare re-raise
    from .common import handlers_catching
    runs_ = [n for n in g.nodes if n.kind == 'call' and n.meta.get('deferred') and isinstance(n.ast.func, ast.Attribute)
             and n.ast.func.attr == 'run_until_complete']
    around_ = set().union(*[handlers_catching(g, n) for n in runs_]) if runs_ else None
    for h_ in [n for n in g.nodes if n.kind == 'except' and n.meta.get('deferred')]:
        if around_ is not None and h_.id not in around_:
            continue            # a handler elsewhere in the worker (around a guarded hook, say) never sees the awaitable's exception
        bare = [n for n in g.nodes if n.kind == 'raise' and getattr(n.ast, 'exc', None) is None]
        w_ = must_pass(g, [h_], [g.exit, g.raise_exit] + [n for n in g.nodes if n.kind in ('return', 'inline_return')], bare)
        ctx.check('C17-R4', f'worker handler except {norm(h_.ast.type) if h_.ast.type else "(bare)"} re-raises unchanged', g.loc(h_), w_ is None and bool(bare),
                  'what the awaitable raised reaches the caller as it is', 'a handler around running the awaitable replaces or swallows its exception: '
                  'the caller no longer gets exactly the awaitable\'s outcome', witness=render(g, w_),
                  construct=construct_key('ensure_aw', 'worker handler changes the outcome'))
    # (that every return yields the awaited value itself is part of R1's path classification)
    nonawait_returns = []
    ctx.check('C17-R4', f'ensure_aw: no handler between the awaitable and the caller ({len(hs)} handlers)', f'{A}:{ea.lineno}',
              not hs and not nonawait_returns, 'result and exception pass through unchanged', 'a handler/alternative return changes the outcome',
              construct=construct_key('ensure_aw', 'transparency'))
    # R5
    lit = p.func(A, 'loop_in_thread')
    g3 = build(lit, p, inline_module_helpers=True)
    lp = lit.params[0]
    from ..dataflow import unalias as _ua5
    rb = [n for n in g3.nodes if n.kind == 'branch' and isinstance(n.meta['test'], ast.Call) and isinstance(n.meta['test'].func, ast.Attribute)
          and n.meta['test'].func.attr == 'is_running' and not n.meta['test'].args
          and norm(_ua5(g3, n, n.meta['test'].func.value)) == lp]
    rets = [n for n in g3.nodes if n.kind == 'return']
    for rn in rets:
        w = find_path(g3, [g3.entry], [rn], edge_ok=lambda e: not (e.src in rb and e.label == 'true'))
        sub = [n for n in g3.nodes if n.kind == 'call' and isinstance(n.ast.func, ast.Attribute) and n.ast.func.attr == 'submit']
        ctx.check('C17-R5', f'return {norm(rn.ast.value)} only after {lp}.is_running() was observed true', g3.loc(rn), w is None and bool(rb) and bool(sub),
                  'the caller gets the stopper only once the loop runs', 'loop_in_thread can return before the loop is running',
                  witness=render(g3, w), construct=construct_key('loop_in_thread', 'returns early'))
    # the executor that carries the work: the library's ThreadPoolExecutor hands *every* outcome of the submitted callable to the
    # future (its work item catches BaseException).  A package class in its place is checked for the one decidable hazard: a
    # worker that completes the future under `except Exception` only - a CancelledError / custom BaseException out of
    # run_until_complete then kills the worker, the future stays pending and the caller of ensure_aw never completes
    uA = p.unit(A)
    for st_ in uA.tree.body:
        if isinstance(st_, ast.Assign) and len(st_.targets) == 1 and isinstance(st_.targets[0], ast.Name) and isinstance(st_.value, ast.Call) \
                and isinstance(st_.value.func, ast.Name):
            pc_ = next((c for c in uA.classes() if c.name == st_.value.func.id), None)
            used_ = any(isinstance(x, ast.Attribute) and x.attr in ('submit', 'map') and isinstance(x.value, ast.Name) and x.value.id == st_.targets[0].id
                        for fn_ in (ea, lit) for x in ast.walk(fn_.node))
            if pc_ is None or not used_:
                continue
            for h_ in [x for x in ast.walk(pc_.node) if isinstance(x, ast.ExceptHandler)]:
                sets_ = any(isinstance(x, ast.Attribute) and x.attr == 'set_exception' for x in ast.walk(h_))
                hn_ = norm(h_.type) if h_.type is not None else 'BaseException'
                if sets_:
                    ctx.check('C17-R4', f'{pc_.name}: the worker hands failures to the future under `except {hn_}`', f'{A}:{h_.lineno}',
                              hn_ in ('BaseException',), 'every outcome of the submitted call reaches the future',
                              f'the home-made executor completes its future only for `{hn_}`: an outcome that is a BaseException (a cancelled task\'s '
                              'CancelledError, SystemExit) kills the worker thread and leaves the future pending - the caller of ensure_aw waits for ever',
                              construct=construct_key(pc_.qualname, 'executor drops BaseException'))
    # R7: the worker runs the loop once: when run_forever() has returned (the stopper asked for it) nothing runs the loop again -
    # what was pending on it stays frozen, which is what callers that saw `not loop.is_running()` rely on
    ctx.rule('C17-R7', 'once the background run of the loop has returned, loop_in_thread does not run that loop again', 1)
    n_r7 = 0
    for wk in [c for c in lit.children if c.kind == 'function']:
        gw_ = build(wk, p, inline_module_helpers=True)
        runs_ = [n for n in gw_.nodes if n.kind == 'call' and isinstance(n.ast.func, ast.Attribute) and n.ast.func.attr in ('run_forever', 'run_until_complete')]
        for rn_ in runs_:
            n_r7 += 1
            again = find_path(gw_, [], runs_, start_edges=list(gw_.succ[rn_.id]))
            ctx.check('C17-R7', f'{wk.qualname}: after {norm(rn_.ast)[:50]} no further run of the loop', gw_.loc(rn_), again is None,
                      'one run per activation', 'the loop is run again after the run that the stopper ended (a "finalisation" run, say): tasks left '
                      'pending on the stopped loop resume although other threads have already seen the loop as not running',
                      witness=render(gw_, again), construct=construct_key(wk.qualname, 'loop run again'))
    if not n_r7:
        ctx.holds('C17-R7', 'no nested worker of loop_in_thread runs the loop (expanded elsewhere)', f'{A}:{lit.lineno}')
    # R6
    stopper = next((c for c in lit.children if c.kind == 'function' and any(
        isinstance(x, ast.Attribute) and x.attr == 'stop' for x in ast.walk(c.node))), None)
    if stopper is None:
        ctx.violation('C17-R6', 'no stopper', f'{A}:{lit.lineno}', construct=construct_key('loop_in_thread', 'no stopper'))
    else:
        g4 = build(stopper, p)
        ts_ = [n for n in g4.nodes if n.kind == 'call' and isinstance(n.ast.func, ast.Attribute) and n.ast.func.attr == 'call_soon_threadsafe'
               and norm(n.ast.func.value) == lp and [norm(a_) for a_ in n.ast.args] == [f'{lp}.stop']]
        direct = [n for n in g4.nodes if n.kind == 'call' and norm(n.ast.func) == f'{lp}.stop']
        joins = [n for n in g4.nodes if n.kind == 'call' and isinstance(n.ast.func, ast.Attribute) and n.ast.func.attr == 'result']
        fdef = [n for n in g3.nodes if n.kind == 'store_name' and isinstance(n.meta.get('value'), ast.Call) and isinstance(n.meta['value'].func, ast.Attribute)
                and n.meta['value'].func.attr == 'submit']
        okj = bool(joins) and bool(fdef) and norm(joins[0].ast.func.value) == fdef[0].meta['name']
        # (a join with a timeout is a join that may not have happened: the stopper would return with the loop still running)
        okj = okj and not any(j_.ast.args or j_.ast.keywords for j_ in joins)
        w = must_pass(g4, [g4.entry], [g4.exit], joins, edge_ok=_nonexc)
        w2 = must_pass(g4, [g4.entry], joins, ts_, edge_ok=_nonexc) if joins else None
        ctx.check('C17-R6', f'{stopper.qualname}: {[norm(n.ast) for n in ts_ + joins]}', f'{A}:{stopper.lineno}',
                  bool(ts_) and not direct and okj and w is None and w2 is None,
                  'stop requested thread-safely, then the worker is joined', 'loop.stop() is called from the foreign thread, or the stopper returns before the loop has stopped',
                  witness=render(g4, w or w2), construct=construct_key(stopper.qualname, 'stop protocol'))
    ctx.extra['run_sites'] = n_run
    # ... and the loop is actually run there: the worker handed to the pool by loop_in_thread reaches run_forever() on its
    # parameter on some path (without it the spin `while not loop.is_running()` never ends, or ends for another runner)
    gl_ = build(lit, p, expand_deferred=True)
    rf_ = [n for n in gl_.nodes if n.kind == 'call' and n.meta.get('deferred') and isinstance(n.ast.func, ast.Attribute) and n.ast.func.attr == 'run_forever'
           and norm(unalias(gl_, n, n.ast.func.value)) == lp]
    ctx.check('C17-R5', f'loop_in_thread: the worker runs the loop ({len(rf_)} run_forever site(s))', f'{A}:{lit.lineno}', bool(rf_),
              'the given loop is run in the worker thread', 'the function handed to the pool never runs the loop: loop_in_thread() waits for a loop nobody starts',
              construct=construct_key('loop_in_thread', 'worker does not run the loop'))


# ---------------------------------------------------------------------------
# C18
# ---------------------------------------------------------------------------

def gres_path(unit, scope: Scope, e: ast.AST) -> Optional[str]:
    return Resolver(scope).path(e)


class _It:
    """An iterator value in the affine-use analysis."""
    _n = 0

    def __init__(self, kind: str, *args):
        _It._n += 1
        self.id = _It._n
        self.kind = kind
        self.args = args
        self.consumers: List[str] = []

    def __repr__(self):
        return f'{self.kind}#{self.id}({", ".join(map(repr, self.args))})'


MEMOIZERS = {'functools.lru_cache', 'functools.cache', 'functools.cached_property'}


_MISSING = object()


def _affine_paths(f: Scope, program):
    """Evaluate `split` along each normal path of its control-flow graph (private helpers inlined, records
    desugared): every statement on the path is evaluated once, in order, over abstract iterator values.
    Returns a list of (facts, returned tuple of values, all values, problems)."""
    results = []
    params = f.params
    g = build(f, program, inline_module_helpers=True)
    res = g.res

    def consume(v, by):
        if isinstance(v, _It):
            v.consumers.append(by)

    def make_ev(env, vals, problems):
        cache: Dict[int, object] = {}

        def ev(e):
            if id(e) in cache:
                return cache[id(e)]
            v = ev0(e)
            cache[id(e)] = v
            return v

        def ev0(e):
            if isinstance(e, ast.Name):
                return env.get(e.id, ('name', res.path(e) or e.id))
            if isinstance(e, ast.Tuple):
                return tuple(ev(x) for x in e.elts)
            if isinstance(e, ast.Subscript) and isinstance(e.slice, ast.Constant) and isinstance(e.slice.value, int):
                b_ = ev(e.value)
                if isinstance(b_, tuple) and -len(b_) <= e.slice.value < len(b_):
                    return b_[e.slice.value]
                problems.append(f'unrecognised subscript {norm(e)}')
                return ('unknown', norm(e))
            if isinstance(e, ast.Attribute):
                return ('name', res.path(e) or norm(e))
            if isinstance(e, ast.Constant):
                return ('const', e.value)
            if isinstance(e, ast.Call) and id(e) in getattr(g, 'inline_values', {}):
                # a single-return helper (inlined in the graph): its value is its return expression over the arguments
                rexpr, binding = g.inline_values[id(e)]
                bound_ = {k: ev(v) for k, v in binding.items()}
                saved_ = {k: env.get(k, _MISSING) for k in bound_}
                env.update(bound_)
                try:
                    return ev0(rexpr)
                finally:
                    for x_ in ast.walk(rexpr):
                        cache.pop(id(x_), None)      # the helper's expression is evaluated afresh at every call site
                    for k, v in saved_.items():
                        if v is _MISSING:
                            env.pop(k, None)
                        else:
                            env[k] = v
            if isinstance(e, ast.Call):
                fn = res.path(e.func) or norm(e.func)
                args = [ev(a) for a in e.args]
                if isinstance(e.func, ast.Call):
                    inner = res.path(e.func.func) or norm(e.func.func)
                    if inner in MEMOIZERS or (isinstance(e.func.func, ast.Call) and (res.path(e.func.func.func) or '') in MEMOIZERS):
                        # lru_cache(...)(f) / cache(f): a memoised predicate is not evaluated once per element
                        return ('memoized', args[0] if args else None)
                if fn in MEMOIZERS and len(args) == 1:
                    return ('memoized', args[0])
                if isinstance(e.func, ast.Name) and e.func.id in env and not (fn or '').startswith('builtins.'):
                    fn = 'apply'
                if fn == 'itertools.tee' and len(args) >= 1:
                    consume(args[0], f'tee@{e.lineno}')
                    k = 2
                    if len(e.args) > 1 and isinstance(e.args[1], ast.Constant) and isinstance(e.args[1].value, int):
                        k = e.args[1].value
                    outs = tuple(_It('tee', args[0], i) for i in range(k))
                    for o in outs:
                        o.group = outs[0].id
                        vals.append(o)
                    return outs
                if fn == 'builtins.map' and len(args) == 2:
                    consume(args[1], f'map@{e.lineno}')
                    o = _It('map', args[0], args[1])
                    vals.append(o)
                    return o
                if fn in ('builtins.map', 'builtins.filter', 'itertools.filterfalse', 'itertools.starmap', 'itertools.takewhile',
                          'itertools.dropwhile') and len(args) >= 2:
                    for a_ in args[1:]:
                        consume(a_, f'{fn}@{e.lineno}')
                    o = _It('apply:' + fn, *args)
                    vals.append(o)
                    return o
                if fn in ('itertools.repeat', 'itertools.count', 'itertools.cycle'):
                    return _It('const:' + fn, *args)
                if fn in ('itertools.chain', 'itertools.islice', 'itertools.zip_longest', 'builtins.zip'):
                    for a_ in args:
                        consume(a_, f'{fn}@{e.lineno}')
                    o = _It('lazy:' + fn, *args)
                    vals.append(o)
                    return o
                if fn == 'itertools.compress' and len(args) == 2:
                    consume(args[0], f'compress.data@{e.lineno}')
                    consume(args[1], f'compress.sel@{e.lineno}')
                    o = _It('compress', args[0], args[1])
                    vals.append(o)
                    return o
                if fn in ('builtins.list', 'builtins.tuple', 'builtins.sorted', 'collections.deque', 'builtins.set', 'builtins.sum',
                          'builtins.len', 'builtins.iter', 'builtins.next', 'builtins.enumerate', 'builtins.any', 'builtins.all',
                          'builtins.max', 'builtins.min', 'builtins.dict', 'builtins.frozenset', 'builtins.reversed'):
                    for a_ in args:
                        consume(a_, f'{fn}@{e.lineno}')
                    o = _It('eager:' + fn, *args)
                    vals.append(o)
                    return o
                if fn in ('builtins.callable', 'builtins.isinstance', 'builtins.hasattr', 'builtins.issubclass'):
                    return ('test', fn, args)
                if fn in ('builtins.type', 'builtins.id') and len(args) == 1 and not e.keywords:
                    return ('inspect', fn, args)        # looks at the object, takes nothing from it
                if fn == 'functools.partial' and args:
                    return ('partial', tuple(args))     # a new callable: not the caller's predicate any more, consumes nothing
                problems.append(f'unrecognised call {norm(e)}')
                return ('unknown', norm(e))
            if isinstance(e, (ast.Compare, ast.BoolOp, ast.UnaryOp)):
                return ('expr', norm(e))
            problems.append(f'unrecognised expression {norm(e)}')
            return ('expr', norm(e))
        return ev

    ends = [n for n in g.nodes if n.kind in ('return', 'implicit_return')]
    for pth in enum_paths(g, ends, sources=[g.entry], edge_ok=_nonexc):
        _It._n = 0
        env = {}
        for prm in params:
            env[prm] = _It('param', prm)
        vals: List[_It] = list(env.values())
        problems: List[str] = []
        facts: Dict[str, bool] = {}
        ev = make_ev(env, vals, problems)
        ret = None
        nodes = [pth[0].src] + [e.dst for e in pth]
        labels = {id(e.src): e.label for e in pth}
        for n in nodes:
            if n.kind == 'store_name':
                v = n.meta.get('value')
                if n.meta.get('inlined_param') and isinstance(v, ast.Name) and v.id == n.meta['name']:
                    continue
                if v is None:
                    st_ = n.meta.get('stmt')
                    if isinstance(st_, ast.AugAssign):
                        problems.append(f'unrecognised statement {norm(st_)}')
                    env.pop(n.meta['name'], None)
                    continue
                env[n.meta['name']] = ev(v)
            elif n.kind == 'branch':
                lab = labels.get(id(n))
                if lab in ('true', 'false'):
                    facts[norm(n.meta['test'])] = lab == 'true'
            elif n.kind == 'return':
                ret = ev(n.ast.value) if n.ast.value is not None else None
            elif n.kind == 'call' and isinstance(parent(n.ast), ast.Expr):
                ev(n.ast)
            elif n.kind in ('for_iter', 'loop_head', 'yield', 'await', 'with_enter'):
                problems.append(f'unsupported construct {n.kind} at line {n.line}')
        results.append((facts, ret, vals, problems))
    return results


def c18(ctx: Ctx) -> None:
    p = ctx.program
    from .common import rule_unbound
    rule_unbound(ctx, 'C18-U1', [p.func(IT, 'split'), p.func(IT, 'exhaust')], 'split / exhaust')
    ctx.trusted += ['itertools.tee / compress / map semantics']
    ctx.rule('C18-R1', 'every iterator value is consumed at most once on every path (affine use)', 2)
    ctx.rule('C18-R2', 'a callable condition is applied by exactly one map over one tee branch of the source', 1)
    ctx.rule('C18-R3', 'the results are compress(a, c) and compress(b, map(not_, c\')) on sibling tee copies; first = truthy', 2)
    ctx.rule('C18-R4', 'no eager consumption inside split', 2)
    ctx.rule('C18-R5', 'exhaust consumes its argument completely and returns nothing', 1)
    ctx.rule('C18-R6', 'split and its helpers never close, throw into or send to an iterator', 1)
    ctx.rule('C18-R7', 'no bare next() can leak StopIteration out of a generator used by split', 1)
    f = p.func(IT, 'split')
    where = f'{IT}:{f.lineno}'
    src, cond = f.params[0], f.params[1]
    # the two streams are the caller's: `iterable` / `condition` are re-bound only to a tee copy of themselves or - the condition -
    # to the map of the predicate over one; a wrapper put around either beforehand (a copyable view, a length clip, a "checked"
    # predicate that is tried once on the first element) changes what is read, how often, or when
    gs_ = build(f, p)
    for prm_, rid_ in ((src, 'C18-R3'), (cond, 'C18-R2')):
        for st_ in [n for n in gs_.nodes if n.kind == 'store_name' and n.meta['name'] == prm_ and not n.meta.get('inlined_param')]:
            stm_ = st_.meta.get('stmt')
            v_ = stm_.value if isinstance(stm_, (ast.Assign, ast.AnnAssign)) else st_.meta.get('value')
            okv_ = False
            if isinstance(v_, ast.Call):
                fnm_ = gs_.res.path(v_.func) or norm(v_.func)
                if fnm_ == 'itertools.tee' and v_.args and isinstance(v_.args[0], ast.Name) and v_.args[0].id == prm_:
                    okv_ = True
                if fnm_ in ('builtins.map', 'map') and prm_ == cond and len(v_.args) == 2 and isinstance(v_.args[0], ast.Name) and v_.args[0].id == cond:
                    okv_ = True
            ctx.check(rid_, f'split: `{prm_}` re-bound to {norm(v_)[:60] if v_ is not None else None}', gs_.loc(st_), okv_,
                      'a tee copy of itself / the predicate mapped over a private copy',
                      f'`{prm_}` is replaced by something built around it before the streams are forked: the results no longer read the caller\'s '
                      f'{"source" if prm_ == src else "condition"} as given (elements can be shared between copies, cut off, or the predicate run an extra time)',
                      construct=construct_key('split', 'parameter wrapped', prm_, v_))
    results = _affine_paths(f, p)
    for facts, ret, vals, problems in results:
        inst = f'path {facts}'
        if problems:
            ctx.undecided('C18-R1', inst, where, '; '.join(problems))
            continue
        multi = [v for v in vals if len(v.consumers) > 1]
        ctx.check('C18-R1', f'{inst}: {len(vals)} iterator values', where, not multi,
                  'each consumed at most once', f'consumed more than once: {[(repr(v), v.consumers) for v in multi]} - elements are skipped or the predicate re-evaluated',
                  construct=construct_key('split', 'double consumption', sorted(facts.items()), [v.kind for v in multi]))
        eager = [v for v in vals if v.kind.startswith('eager:')]
        ctx.check('C18-R4', f'{inst}: eager consumers {[v.kind for v in eager]}', where, not eager, 'lazy', 'the input is consumed eagerly inside split',
                  construct=construct_key('split', 'eager', [v.kind for v in eager]))
        # R2 on the callable path
        callable_path = any(k.startswith('callable(') and v for k, v in facts.items())
        applies = [v for v in vals if (v.kind == 'map' or v.kind.startswith('apply:')) and isinstance(v.args[0], _It)
                   and v.args[0].kind == 'param' and v.args[0].args[0] == cond]
        memo = [v for v in vals if (v.kind == 'map' or v.kind.startswith('apply:')) and isinstance(v.args[0], tuple) and v.args[0][:1] == ('memoized',)]
        if memo:
            ctx.violation('C18-R2', f'{inst}: the condition is applied through a memoising wrapper', where,
                          'a cached predicate is not evaluated once per element: repeated values reuse the first verdict (stateful '
                          'predicates partition wrongly, the call count is off)', construct=construct_key('split', 'memoised predicate'))
            continue
        if callable_path:
            ok = len(applies) == 1 and applies[0].kind == 'map' and isinstance(applies[0].args[1], _It) and applies[0].args[1].kind == 'tee' \
                and isinstance(applies[0].args[1].args[0], _It) and applies[0].args[1].args[0].kind == 'param' and applies[0].args[1].args[0].args[0] == src
            ctx.check('C18-R2', f'{inst}: condition applied by {[repr(a) for a in applies]}', where, ok,
                      'exactly once per element, on a private copy of the source', 'the caller\'s predicate is evaluated zero or several times per element (or on the '
                      'shared source, or something else is applied in its place)',
                      construct=construct_key('split', 'predicate application', len(applies)))
        # R3
        ok3 = False
        why = 'result is not a pair of compress(...)'
        if isinstance(ret, tuple) and len(ret) == 2 and all(isinstance(x, _It) and x.kind == 'compress' for x in ret):
            (a, c), (b, c2) = ret[0].args, ret[1].args
            neg = isinstance(c2, _It) and c2.kind == 'map' and c2.args[0] == ('name', 'operator.not_')
            cneg = c2.args[1] if neg else None
            first_neg = isinstance(c, _It) and c.kind == 'map' and c.args[0] == ('name', 'operator.not_')
            sib_data = isinstance(a, _It) and isinstance(b, _It) and a.kind == b.kind == 'tee' and getattr(a, 'group', 0) == getattr(b, 'group', 1) and a is not b
            sib_cond = isinstance(c, _It) and isinstance(cneg, _It) and c.kind == cneg.kind == 'tee' and getattr(c, 'group', 0) == getattr(cneg, 'group', 1) and c is not cneg
            # the data tee derives from the source, the condition tee from the condition stream
            def root(v):
                while isinstance(v, _It) and v.kind in ('tee', 'map'):
                    v = v.args[0] if v.kind == 'tee' else v.args[1]
                return v
            data_from_src = isinstance(root(a), _It) and root(a).kind == 'param' and root(a).args[0] == src
            cond_root = c.args[0] if isinstance(c, _It) and c.kind == 'tee' else None
            if callable_path:
                cond_ok = isinstance(cond_root, _It) and cond_root in applies
            else:
                cond_ok = isinstance(cond_root, _It) and cond_root.kind == 'param' and cond_root.args[0] == cond
            ok3 = neg and not first_neg and sib_data and sib_cond and data_from_src and cond_ok
            why = f'neg={neg} first_neg={first_neg} sibling data={sib_data} sibling cond={sib_cond} data from source={data_from_src} cond ok={cond_ok}'
        ctx.check('C18-R3', f'{inst}: returns {ret!r}'[:200], where, ok3, 'complementary selectors on sibling copies, truthy side first',
                  f'the two results are not a partition of one stream ({why})', construct=construct_key('split', 'selectors', sorted(facts.items())))
    # R6 / R7 over split and the module helpers it (transitively) names
    uI = p.unit(IT)
    mod_funcs = {c.name: c for c in uI.module_scope.children if c.kind == 'function'}
    reach_: List = [f]
    seen_ = {f.qualname}
    i_ = 0
    while i_ < len(reach_):
        for x in ast.walk(reach_[i_].node):
            if isinstance(x, ast.Name) and x.id in mod_funcs and mod_funcs[x.id].qualname not in seen_:
                seen_.add(mod_funcs[x.id].qualname)
                reach_.append(mod_funcs[x.id])
        i_ += 1
    FORBID = {'close', 'throw', 'send', 'aclose', 'athrow', 'asend'}
    n6 = 0
    for sc in reach_:
        for x in ast.walk(sc.node):
            hit = None
            if isinstance(x, ast.Attribute) and x.attr in FORBID:
                hit = x
            elif isinstance(x, ast.Call) and isinstance(x.func, ast.Name) and x.func.id == 'getattr' and len(x.args) >= 2 \
                    and isinstance(x.args[1], ast.Constant) and x.args[1].value in FORBID:
                hit = x
            if hit is not None:
                n6 += 1
                ctx.violation('C18-R6', f'{sc.qualname}: {norm(hit)}', f'{IT}:{hit.lineno}',
                              'split (or a helper of it) closes / throws into an iterator: the two results share one source, finishing or '
                              'dropping one of them ends the other early', construct=construct_key(sc.qualname, 'closes an iterator', hit))
    if not n6:
        ctx.holds('C18-R6', f'{[sc.qualname for sc in reach_]}: iterators are only iterated', where, examined=len(reach_))
    n7 = 0
    for sc in reach_:
        if not sc.is_generator:
            continue
        gsc = build(sc, p)
        for n in gsc.nodes:
            if n.kind == 'call' and gsc.res.path(n.ast.func) in ('builtins.next', 'next') and len(n.ast.args) == 1 and not n.ast.keywords:
                ee = [e for e in gsc.succ[n.id] if e.label == 'exc' and (not e.classes or 'StopIteration' in e.classes)]
                w7 = find_path(gsc, [], [gsc.raise_exit], start_edges=ee) if ee else None
                n7 += 1
                ctx.check('C18-R7', f'{sc.qualname}: {norm(n.ast)}', gsc.loc(n), w7 is None,
                          'the StopIteration of an exhausted stream is handled inside the generator',
                          'next() without a default inside a generator: when that stream ends first, StopIteration becomes '
                          'RuntimeError (PEP 479) instead of a clean end of both results', witness=render(gsc, w7),
                          construct=construct_key(sc.qualname, 'bare next in a generator'))
    if not n7:
        ctx.holds('C18-R7', 'no generator among split and its helpers calls next() without a default', where, examined=len(reach_))
    # R8: home-made stream plumbing under split (a local `compress`, `tee` ...) is outside the trusted library semantics; two
    # hazards in it are decidable: exhaustion told from an element by a default that an element can be, and a bounded buffer
    ctx.rule('C18-R8', 'helpers of split tell exhaustion from an element only by a private marker, and buffer without a bound', 1)
    n8 = 0
    for sc in reach_:
        if sc is f:
            continue
        for x in ast.walk(sc.node):
            if isinstance(x, ast.Call) and isinstance(x.func, ast.Name) and x.func.id == 'next' and len(x.args) == 2:
                dflt = x.args[1]
                private = isinstance(dflt, ast.Name) and any(
                    isinstance(st, ast.Assign) and isinstance(st.targets[0], ast.Name) and st.targets[0].id == dflt.id and isinstance(st.value, ast.Call)
                    and isinstance(st.value.func, ast.Name) and st.value.func.id == 'object' for st in list(uI.tree.body) + list(ast.walk(sc.node)) if isinstance(st, ast.Assign))
                if not private:
                    n8 += 1
                    ctx.violation('C18-R8', f'{sc.qualname}: {norm(x)}', f'{IT}:{x.lineno}',
                                  f'the end of a stream is recognised by the default {norm(dflt)}, which an element can be: the first such element ends '
                                  'both results early and everything after it is dropped', construct=construct_key(sc.qualname, 'non-private exhaustion marker'))
            if isinstance(x, ast.Call) and (gres_path(uI, sc, x.func) == 'collections.deque') and any(
                    k.arg == 'maxlen' and not (isinstance(k.value, ast.Constant) and k.value.value in (None, 0)) for k in x.keywords):
                n8 += 1
                ctx.violation('C18-R8', f'{sc.qualname}: {norm(x)}', f'{IT}:{x.lineno}',
                              'elements are buffered in a bounded deque: when one result runs ahead by more than the bound, the elements the other '
                              'result has not read yet are evicted', construct=construct_key(sc.qualname, 'bounded buffer'))
    # ... and a third: a lock.  The two results are pulled from arbitrary places - from inside one another when splits are nested,
    # from different threads one after the other - and a lock taken around a pull (or held across a yield) turns those into a
    # deadlock; the module has no lock today and the property needs none
    imported_locks = {al.asname or al.name for st in ast.walk(uI.tree) if isinstance(st, ast.ImportFrom) and st.module == 'threading'
                      for al in st.names if al.name in ('Lock', 'RLock', 'Condition', 'Semaphore', 'BoundedSemaphore')}
    lock_uses = [x for x in ast.walk(uI.tree) if isinstance(x, ast.Call) and (
        (isinstance(x.func, ast.Name) and x.func.id in imported_locks) or
        (isinstance(x.func, ast.Attribute) and x.func.attr in ('Lock', 'RLock', 'Condition', 'Semaphore') and isinstance(x.func.value, ast.Name)
         and x.func.value.id in ('threading', '_threading')))]
    for x in lock_uses[:1]:
        n8 += 1
        ctx.violation('C18-R8', f'{norm(x)} in {IT}', f'{IT}:{x.lineno}',
                      'pulls from the results of split are serialised by a lock: a split whose source is a result of another split re-enters it '
                      '(a plain Lock never returns), a lock held across a yield belongs to the thread that pulled first - the other result blocks for ever there',
                      construct=construct_key('split', 'lock around the pulls'))
    if not n8:
        ctx.holds('C18-R8', f'{[sc.qualname for sc in reach_ if sc is not f] or "no package helper under split"}', where, examined=max(1, len(reach_)))
    # R5
    ex = p.func(IT, 'exhaust')
    ge = build(ex, p)
    prm = ex.params[0]
    def _is_prm(n_, a_) -> bool:
        # the argument itself, or `iter(argument)` (through a local): the same stream
        v_ = resolve(ge, n_, a_)
        if isinstance(v_, ast.Call) and isinstance(v_.func, ast.Name) and v_.func.id == 'iter' and len(v_.args) == 1 and not v_.keywords:
            v_ = v_.args[0]
        return norm(v_) == prm
    dq = [n for n in ge.nodes if n.kind == 'call' and ge.res.path(n.ast.func) == 'collections.deque' and n.ast.args and _is_prm(n, n.ast.args[0])
          and any(k.arg == 'maxlen' and isinstance(k.value, ast.Constant) and k.value.value == 0 for k in n.ast.keywords)]
    # `deque(maxlen=0).extend(iterable)`
    dq += [n for n in ge.nodes if n.kind == 'call' and isinstance(n.ast.func, ast.Attribute) and n.ast.func.attr == 'extend'
           and n.ast.args and norm(resolve(ge, n, n.ast.args[0])) == prm
           and isinstance(resolve(ge, n, n.ast.func.value), ast.Call) and ge.res.path(resolve(ge, n, n.ast.func.value).func) == 'collections.deque'
           and any(k.arg == 'maxlen' and isinstance(k.value, ast.Constant) and k.value.value == 0 for k in resolve(ge, n, n.ast.func.value).keywords)]
    loops = [n for n in ge.nodes if n.kind == 'for_iter' and norm(n.ast.iter) == prm and not [x for x in ge.nodes if x.kind in ('break', 'return') and n.ast in x.loops]]
    rets = [n for n in ge.nodes if n.kind == 'return' and n.ast.value is not None and not (isinstance(n.ast.value, ast.Constant) and n.ast.value.value is None)]
    w = must_pass(ge, [ge.entry], [ge.exit], dq + loops, edge_ok=_nonexc)
    ctx.check('C18-R5', f'exhaust: {[norm(n.ast) for n in dq] or [norm(n.ast.iter) for n in loops]}', f'{IT}:{ex.lineno}',
              w is None and bool(dq or loops) and not rets, 'drains the whole argument, returns None',
              'exhaust does not consume its whole argument or returns a value', witness=render(ge, w), construct=construct_key('exhaust', 'drain'))
    # ... and an exception out of the iteration is the caller's to see: a handler around the drain that lets exhaust() return
    # normally reports "finished" for an argument that was consumed only in part
    drains_ = dq + loops
    if drains_:
        def always_raises(stmts) -> bool:
            if not stmts:
                return False
            last = stmts[-1]
            if isinstance(last, ast.Raise):
                return True
            if isinstance(last, ast.If):
                return always_raises(last.body) and always_raises(last.orelse)
            return False
        hs_ = []
        w5 = None
        for d in drains_:
            x = d.ast
            while x is not None and x is not ex.node:
                par_ = parent(x)
                if isinstance(par_, ast.Try) and x in par_.body:
                    for h in par_.handlers:
                        hs_.append(h)
                        if not always_raises(h.body):
                            w5 = w5 or [f'{IT}:{h.lineno} except {norm(h.type) if h.type is not None else ""}: ... can complete normally']
                x = par_
        ctx.check('C18-R5', f'exhaust: {len(hs_)} handler(s) around the drain', f'{IT}:{ex.lineno}', w5 is None,
                  'what the iteration raises reaches the caller', 'an exception raised while iterating (by the iterator, a mapped function, a '
                  'predicate) is swallowed: exhaust() returns None as if the argument had been consumed to its end',
                  witness=w5 or [], construct=construct_key('exhaust', 'iteration failure swallowed'))


# ---------------------------------------------------------------------------
# C19
# ---------------------------------------------------------------------------

DANGEROUS = {'builtins.eval', 'builtins.exec', 'builtins.compile', 'builtins.__import__', 'importlib.import_module',
             'pickle.loads', 'pickle.load', 'ast.parse', 'builtins.getattr', 'builtins.globals', 'builtins.locals',
             'builtins.vars', 'os.system', 'subprocess.run', 'subprocess.Popen', 'subprocess.call',
             'subprocess.check_output', 'marshal.loads', 'yaml.load', 'builtins.open', 'builtins.input'}

C19_CONTROL = '''
import ast, pickle, importlib
def parse_to_dict(items, *, sep='=', parse=eval):
    x = eval(items); exec(items); compile(items, '', 'eval'); __import__(items)
    importlib.import_module(items); pickle.loads(items); ast.parse(items); getattr(ast, items)(1)
'''


def dangerous_hits(tree: ast.AST, aliases: Dict[str, str]) -> List[Tuple[int, str]]:
    import builtins as _b
    hits = []
    for n in ast.walk(tree):
        if isinstance(n, (ast.Call,)):
            d = dotted(n.func)
            if d:
                head, _, rest = d.partition('.')
                full = (aliases.get(head, head) + ('.' + rest if rest else ''))
                if not rest and head not in aliases and hasattr(_b, head):
                    full = 'builtins.' + head
                if full in DANGEROUS:
                    hits.append((n.lineno, full))
        # a dangerous callable used as a value (default argument, alias)
        if isinstance(n, ast.Name) and isinstance(n.ctx, ast.Load) and n.id in ('eval', 'exec', 'compile', '__import__') \
                and not (isinstance(parent(n), ast.Call) and parent(n).func is n):
            hits.append((n.lineno, 'value:builtins.' + n.id))
    return hits


def _dotted(e) -> Optional[str]:
    if isinstance(e, ast.Name):
        return e.id
    if isinstance(e, ast.Attribute):
        b = _dotted(e.value)
        return None if b is None else b + '.' + e.attr
    return None


def c19(ctx: Ctx) -> None:
    p = ctx.program
    from .common import rule_unbound
    rule_unbound(ctx, 'C19-U1', [p.func(PA, 'parse_to_dict')], 'parse_to_dict')
    u = p.unit(PA)
    f = p.func(PA, 'parse_to_dict')
    ctx.trusted += ['ast.literal_eval constructs literals only', 'str.split semantics']
    ctx.rule('C19-R1', 'string items are split once, from the left, at the separator parameter', 1)
    ctx.rule('C19-R2', 'a missing separator (unpacking ValueError) is translated to ValueError', 1)
    ctx.rule('C19-R3', 'the default parser is ast.literal_eval; no eval/exec/compile/import/pickle/getattr call in the module', 2)
    ctx.rule('C19-R4', 'the parser is applied to strings only and any failure keeps the original value', 2)
    ctx.rule('C19-R5', 'keys are parsed iff parse_keys; values always', 2)
    ctx.rule('C19-R6', 'one pipeline for all input shapes: .items() for mappings, every item through the pair parser, dict() of exactly those pairs', 2)
    kw = {a.arg: d for a, d in zip(f.node.args.kwonlyargs, f.node.args.kw_defaults)}
    sep_p, parse_p, pk_p = 'sep', 'parse', 'parse_keys'
    where = f'{PA}:{f.lineno}'
    # the guard around the parser keeps the raw string on *any* failure: nothing may turn what is not a failure into one -
    # a warnings filter set to 'error' makes every literal Python merely warns about (an odd backslash escape) fail, and stay raw
    esc_ = [x for x in ast.walk(f.unit.tree) if isinstance(x, ast.Call) and (_dotted(x.func) or '').split('.')[-1] in ('simplefilter', 'filterwarnings')
            and x.args and isinstance(x.args[0], ast.Constant) and x.args[0].value == 'error']
    ctx.check('C19-R4', f'no warning is escalated to an error around the parser ({len(esc_)} filter call(s))', f'{PA}:{esc_[0].lineno}' if esc_ else where, not esc_,
              'the parser fails only where it fails', 'a warnings filter turns warnings of the parser into exceptions, which the guard swallows: a string that denotes a '
              'literal (Python only warns about its escape) is kept as raw text',
              construct=construct_key('parse_to_dict', 'warnings escalated'))
    kids = {c.name: c for c in f.children if c.kind == 'function'}
    # pair parser: the nested function that takes a string item apart (split / partition / find + slicing)
    SPLITTERS = ('split', 'rsplit', 'partition', 'rpartition', 'find', 'rfind', 'index', 'rindex')
    tryp = next((c for c in f.children if c.kind == 'function' and any(
        isinstance(x, ast.Call) and isinstance(x.func, ast.Name) and x.func.id == parse_p for x in ast.walk(c.node))), None)
    tryp_param = None          # when the guarded parser is a module-level helper: the parameter through which it receives the parser
    parser_loop_vars: Set[str] = set()
    if tryp is None:
        # several parsers tried in turn: `for parser in parsers: ... parser(x)` with `parsers` built from the parameter
        derived = {parse_p}
        grew = True
        while grew:
            grew = False
            for x in ast.walk(f.node):
                if isinstance(x, ast.Assign) and len(x.targets) == 1 and isinstance(x.targets[0], ast.Name) and x.targets[0].id not in derived \
                        and any(isinstance(y, ast.Name) and y.id in derived for y in ast.walk(x.value)):
                    derived.add(x.targets[0].id)
                    grew = True
        for c in f.children:
            if c.kind != 'function':
                continue
            for x in ast.walk(c.node):
                if isinstance(x, ast.For) and isinstance(x.target, ast.Name) and any(isinstance(y, ast.Name) and y.id in derived for y in ast.walk(x.iter)) \
                        and any(isinstance(y, ast.Call) and isinstance(y.func, ast.Name) and y.func.id == x.target.id for y in ast.walk(x)):
                    tryp = c
                    parser_loop_vars.add(x.target.id)
    if tryp is None:
        used = {x.id for x in ast.walk(f.node) if isinstance(x, ast.Name)}
        for c in u.module_scope.children:
            if c.kind == 'function' and c.name in used and c is not f and any(
                    isinstance(x, ast.Call) and isinstance(x.func, ast.Name) and x.func.id == 'isinstance' for x in ast.walk(c.node)):
                called_params = [x.func.id for x in ast.walk(c.node) if isinstance(x, ast.Call) and isinstance(x.func, ast.Name) and x.func.id in c.params]
                if called_params:
                    tryp, tryp_param = c, called_params[0]
        if tryp is not None:
            # every use inside parse_to_dict hands on the caller's parser
            pidx = list(tryp.params).index(tryp_param)
            for x in ast.walk(f.node):
                if isinstance(x, ast.Call) and isinstance(x.func, ast.Name) and x.func.id == tryp.name:
                    got = x.args[pidx] if len(x.args) > pidx else next((k.value for k in x.keywords if k.arg == tryp_param), None)
                    ctx.check('C19-R4', f'{norm(x)} hands the parser on', f'{PA}:{x.lineno}', isinstance(got, ast.Name) and got.id == parse_p,
                              'the guarded parser uses the parser the caller chose',
                              f'this use of {tryp.name} does not pass `{parse_p}`: the helper falls back to its own default, so a custom parser is ignored '
                              'here (keys are parsed with literal_eval although the caller\'s parser would leave them alone)',
                              construct=construct_key('parse_to_dict', 'parser not handed on', x))
    # the pair parser is the nested function every item goes through: the callable mapped over the items in the result
    pair = None
    fkids = [c for c in f.children if c.kind == 'function']
    for x in own_nodes(f.node):
        if isinstance(x, ast.Return) and x.value is not None:
            for y in ast.walk(x.value):
                if isinstance(y, ast.Call) and isinstance(y.func, ast.Name) and y.func.id == 'map' and y.args and isinstance(y.args[0], ast.Name):
                    pair = next((c for c in fkids if c.name == y.args[0].id and c is not tryp), pair)
                elif isinstance(y, ast.Call) and isinstance(y.func, ast.Name) and any(c.name == y.func.id and c is not tryp for c in fkids) \
                        and isinstance(parent(y), (ast.GeneratorExp, ast.ListComp, ast.DictComp, ast.SetComp)):
                    pair = next((c for c in fkids if c.name == y.func.id), pair)
    # helpers of the pair parser (a nested splitter) are analysed inline; the guarded parser and the tuple parsers are roles
    # of their own
    callers_of_tryp = tuple(c.qualname for c in fkids if tryp is not None and c is not tryp and any(
        isinstance(x, ast.Call) and isinstance(x.func, ast.Name) and x.func.id == tryp.name for x in ast.walk(c.node)))
    role_sibs = tuple(q for q in ((tryp.qualname,) if tryp is not None else ()) + callers_of_tryp)
    if pair is None:
        pair = next((c for c in f.children if c.kind == 'function' and c is not tryp and any(
            isinstance(x, ast.Attribute) and x.attr in SPLITTERS for x in ast.walk(c.node))), None)
    if pair is None:
        # the split may sit in a private module-level helper of the pair parser
        sibs = tuple(c.qualname for c in f.children if c.kind == 'function')
        for c in f.children:
            if c.kind == 'function' and c is not tryp:
                gc_ = build(c, p, inline_module_helpers=True, no_inline=sibs)
                if any(n.kind == 'call' and isinstance(n.ast.func, ast.Attribute) and n.ast.func.attr in SPLITTERS for n in gc_.nodes):
                    pair = c
    if pair is None or tryp is None:
        raise AnalysisError('parse_to_dict helpers (pair splitter / guarded parser) not found')
    gp = build(pair, p, inline_module_helpers=True, no_inline=tuple(q for q in role_sibs if q != pair.qualname))
    P = pair.params[0]
    # R1
    splits = [n for n in gp.nodes if n.kind == 'call' and isinstance(n.ast.func, ast.Attribute) and n.ast.func.attr in SPLITTERS
              and norm(resolve(gp, n, n.ast.func.value, keep=(P,))) == P]
    finders = [n for n in splits if n.ast.func.attr in ('find', 'rfind', 'index', 'rindex')]
    for s_ in splits:
        c = s_.ast
        m = c.func.attr
        a = c.args
        kwm = {k.arg: k.value for k in c.keywords}
        if m == 'split':
            mx = a[1] if len(a) > 1 else kwm.get('maxsplit')
            ok = len(a) >= 1 and norm(a[0]) == sep_p and isinstance(mx, ast.Constant) and mx.value == 1
        elif m == 'partition':
            ok = len(a) == 1 and norm(a[0]) == sep_p
        elif m in ('find', 'index'):
            ok = len(a) == 1 and norm(a[0]) == sep_p
        else:
            ok = False
        ctx.check('C19-R1', f'{norm(c)}', gp.loc(s_), ok, 'first occurrence only',
                  'items are split at the last separator, at every separator, or at a fixed string: values containing the separator are mangled',
                  construct=construct_key(pair.qualname, 'split', c))
    if not splits:
        ctx.violation('C19-R1', 'no split', where, construct=construct_key(pair.qualname, 'no split'))
    # which parts travel on: the (key, value) handed to the tuple parser on the string path
    str_calls = [n for n in gp.nodes if n.kind == 'call' and isinstance(n.ast.func, ast.Name) and len(n.ast.args) == 2
                 and not any(isinstance(a_, ast.Starred) for a_ in n.ast.args) and n.ast.func.id not in ('isinstance', 'ValueError')]
    for fd in finders:
        for tc in str_calls:
            if find_path(gp, [fd], [tc], edge_ok=_nonexc) is None:
                continue
            k_e = resolve(gp, tc, tc.ast.args[0], keep=(P, sep_p))
            v_e = resolve(gp, tc, tc.ast.args[1], keep=(P, sep_p))
            I = norm(fd.ast)
            k_ok = norm(k_e) in (f'{P}[:{I}]', f'{P}[0:{I}]')
            v_good = norm(v_e) in (f'{P}[{I} + len({sep_p}):]', f'{P}[len({sep_p}) + {I}:]')
            v_known_bad = isinstance(v_e, ast.Subscript) and isinstance(v_e.slice, ast.Slice) and v_e.slice.upper is None and (
                norm(v_e.slice.lower) == I or (isinstance(v_e.slice.lower, ast.BinOp) and isinstance(v_e.slice.lower.right, ast.Constant)))
            if k_ok and v_good:
                ctx.holds('C19-R1', f'{norm(tc.ast)}: key = text before the first separator, value = text after it', gp.loc(tc))
            elif not k_ok or v_known_bad:
                ctx.violation('C19-R1', f'{norm(tc.ast)} with key {norm(k_e)}, value {norm(v_e)}', gp.loc(tc),
                              'the slices do not cut at the separator: the value must start len(sep) characters after the position found '
                              '(a fixed offset is wrong for multi-character separators), the key must end at it',
                              construct=construct_key(pair.qualname, 'slices', k_e, v_e))
            else:
                ctx.undecided('C19-R1', f'{norm(tc.ast)}', gp.loc(tc), f'slicing {norm(k_e)} / {norm(v_e)} not understood')
    # R2
    unpacks = [n for n in gp.nodes if n.kind == 'unpack' and n.meta.get('arity') == 2 and isinstance(n.meta.get('value'), ast.Call)]
    def _is_value_error(r_: Node) -> bool:
        ex = r_.ast.exc
        if ex is None:
            return False
        rx = resolve(gp, r_, ex)      # (a nested helper that builds the exception is looked through)
        return isinstance(rx, ast.Call) and norm(rx.func) == 'ValueError'
    raises_ve = [r_ for r_ in gp.nodes if r_.kind == 'raise' and _is_value_error(r_)]
    for un in unpacks:
        ee = [e for e in gp.succ[un.id] if e.label == 'exc' and e.classes and 'ValueError' in e.classes]
        hs = [e.dst for e in ee if e.dst.kind == 'except']
        ok = bool(hs)
        w = None
        for h in hs:
            w = must_pass(gp, [h], [gp.exit, gp.raise_exit], raises_ve)
            ok = ok and w is None and bool(raises_ve)
        esc = [e for e in ee if e.dst is gp.raise_exit]
        ctx.check('C19-R2', f'{norm(un.meta["stmt"])}: unpacking failure -> ValueError', gp.loc(un), ok or bool(esc) and not hs,
                  'a string without the separator raises ValueError', 'a string without the separator is accepted or raises something else',
                  witness=render(gp, w), construct=construct_key(pair.qualname, 'missing separator'))

    # a `split(sep, 1)` whose result is never taken apart into exactly two names (nor measured) does not notice a string
    # without the separator: the one-element list travels on (spread into the tuple parser it raises TypeError, indexed
    # it raises IndexError - neither is the ValueError the caller is promised)
    for s_ in splits:
        if s_.ast.func.attr != 'split':
            continue
        taken = any(un.meta.get('value') is s_.ast for un in unpacks)
        if not taken:
            # the result may travel through a local first: an unpack (or a len() test) of that local also counts
            holder = next((n for n in gp.nodes if n.kind == 'store_name' and n.meta.get('value') is s_.ast), None)
            hn = holder.meta['name'] if holder is not None else None
            if hn is not None:
                taken = any(n.kind == 'unpack' and n.meta.get('arity') == 2 and isinstance(n.meta.get('value'), ast.Name) and n.meta['value'].id == hn
                            for n in gp.nodes) or any(
                    n.kind in ('branch', 'assume') and any(isinstance(x, ast.Call) and isinstance(x.func, ast.Name) and x.func.id == 'len'
                                                           and x.args and isinstance(x.args[0], ast.Name) and x.args[0].id == hn
                                                           for x in ast.walk(n.meta['test'])) for n in gp.nodes)
        if not taken:
            ctx.violation('C19-R2', f'{norm(s_.ast)}: the parts are never taken apart into exactly two', gp.loc(s_),
                          'a string without the separator is not noticed where it is cut: the one-element result travels on and fails later with '
                          'a TypeError / IndexError (or not at all) instead of the ValueError that names the item',
                          construct=construct_key(pair.qualname, 'split result not unpacked'))

    def _fold_cmp(t: ast.AST, var: str, val) -> Optional[bool]:
        """truth of a test over one variable for a concrete value (ints / strings), None if not foldable"""
        try:
            if isinstance(t, ast.Name) and t.id == var:
                return bool(val)
            if isinstance(t, ast.Compare) and len(t.ops) == 1:
                def side(e):
                    if isinstance(e, ast.Name) and e.id == var:
                        return val
                    if isinstance(e, ast.Constant):
                        return e.value
                    if isinstance(e, ast.UnaryOp) and isinstance(e.op, ast.USub) and isinstance(e.operand, ast.Constant):
                        return -e.operand.value
                    raise ValueError
                l, r_ = side(t.left), side(t.comparators[0])
                op = t.ops[0]
                return {ast.Lt: l < r_, ast.LtE: l <= r_, ast.Gt: l > r_, ast.GtE: l >= r_, ast.Eq: l == r_, ast.NotEq: l != r_}.get(type(op))
        except Exception:
            return None
        return None
    for fd in finders:
        if fd.ast.func.attr in ('index', 'rindex'):
            ee = [e for e in gp.succ[fd.id] if e.label == 'exc']
            hs = [e.dst for e in ee if e.dst.kind == 'except']
            w = None
            ok = True
            for h in hs:
                w = must_pass(gp, [h], [gp.exit, gp.raise_exit], raises_ve)
                ok = ok and w is None and bool(raises_ve)
            ctx.check('C19-R2', f'{norm(fd.ast)}: a missing separator raises ValueError (index() itself, or translated)', gp.loc(fd), ok,
                      'a string without the separator raises ValueError', 'the ValueError of index() is swallowed or turned into something else',
                      witness=render(gp, w), construct=construct_key(pair.qualname, 'missing separator'))
            continue
        # find(): -1 must lead to `raise ValueError` before the parts are used
        ivars = {n.meta['name'] for n in gp.nodes if n.kind == 'store_name' and n.meta.get('value') is fd.ast}
        tests = []
        for b_ in gp.nodes:
            if b_.kind != 'branch':
                continue
            t = resolve(gp, b_, b_.meta['test'], keep=tuple(ivars))
            for iv in ivars:
                vals_ = [_fold_cmp(t, iv, x) for x in (-1, 0, 7, 10 ** 6)]
                if None not in vals_ and vals_[0] != vals_[1] and vals_[1] == vals_[2] == vals_[3]:
                    tests.append((b_, 'true' if vals_[0] else 'false'))
        okf = bool(tests)
        w = None
        for b_, lab in tests:
            w = w or must_pass(gp, [], [gp.exit, gp.raise_exit] + str_calls, raises_ve, start_edges=[e for e in gp.succ[b_.id] if e.label == lab])
        uses_unguarded = None
        if tests:
            guard_edges = {(b_.id, lab) for b_, lab in tests}
            other = {(b_.id, 'false' if lab == 'true' else 'true') for b_, lab in tests}
            uses_unguarded = find_path(gp, [fd], str_calls, edge_ok=lambda e: _nonexc(e) and (e.src.id, e.label) not in other)
        ctx.check('C19-R2', f'{norm(fd.ast)} == -1 -> ValueError before the parts are used', gp.loc(fd), okf and w is None and uses_unguarded is None and bool(raises_ve),
                  'a string without the separator raises ValueError', 'a string without the separator is accepted (find() returned -1: the slices '
                  'silently take the wrong text) or raises something else', witness=render(gp, w or uses_unguarded),
                  construct=construct_key(pair.qualname, 'missing separator'))
    parts3 = [n for n in gp.nodes if n.kind == 'unpack' and n.meta.get('arity') == 3 and isinstance(n.meta.get('value'), ast.Call)
              and isinstance(n.meta['value'].func, ast.Attribute) and n.meta['value'].func.attr == 'partition']
    for un in parts3:
        tg = un.ast.elts
        mid = tg[1].id if isinstance(tg[1], ast.Name) else None
        tests = []
        for b_ in gp.nodes:
            if b_.kind == 'branch' and mid:
                t = resolve(gp, b_, b_.meta['test'], keep=(mid, sep_p))
                tn = norm(t)
                if tn == mid:
                    tests.append((b_, 'false'))
                elif tn in (f"{mid} == ''", f'{mid} != {sep_p}'):
                    tests.append((b_, 'true'))
                elif tn in (f"{mid} != ''", f'{mid} == {sep_p}'):
                    tests.append((b_, 'false'))
        w = None
        for b_, lab in tests:
            w = w or must_pass(gp, [], [gp.exit, gp.raise_exit] + str_calls, raises_ve, start_edges=[e for e in gp.succ[b_.id] if e.label == lab])
        if not tests:
            ctx.violation('C19-R2', f'{norm(un.meta["stmt"])}: the separator found by partition() is never tested', gp.loc(un),
                          'a string without the separator is accepted (partition() returns the whole text as key and an empty value)',
                          construct=construct_key(pair.qualname, 'missing separator'))
        else:
            ctx.check('C19-R2', f'{norm(un.meta["stmt"])}: empty separator part -> ValueError', gp.loc(un), w is None and bool(raises_ve),
                      'a string without the separator raises ValueError', 'a string without the separator is accepted or raises something else',
                      witness=render(gp, w), construct=construct_key(pair.qualname, 'missing separator'))
        # key = first part, value = last part
        for tc in str_calls:
            if find_path(gp, [un], [tc], edge_ok=_nonexc) is None:
                continue
            okp = [norm(resolve(gp, tc, a_, keep=tuple(x.id for x in tg if isinstance(x, ast.Name)))) for a_ in tc.ast.args] == \
                [norm(tg[0]), norm(tg[2])]
            ctx.check('C19-R1', f'{norm(tc.ast)}: key = text before the separator, value = text after it', gp.loc(tc), okp,
                      'parts in order', 'key and value are swapped or the separator is passed on',
                      construct=construct_key(pair.qualname, 'parts order'))
    # R3
    ctl = dangerous_hits(ast.parse(C19_CONTROL), {'ast': 'ast', 'pickle': 'pickle', 'importlib': 'importlib'})
    from ..load import set_parents
    ctl_tree = ast.parse(C19_CONTROL)
    set_parents(ctl_tree)
    ctl = dangerous_hits(ctl_tree, {'ast': 'ast', 'pickle': 'pickle', 'importlib': 'importlib'})
    if len(ctl) < 9:
        raise AnalysisError(f'C19 positive control matched only {len(ctl)} of 9')
    ctx.extra['positive_control_hits'] = len(ctl)
    d = kw.get(parse_p)
    dn = Resolver(u.module_scope).path(d) if d is not None else None
    ctx.check('C19-R3', f'default parser = {dn}', where, dn == 'ast.literal_eval', 'literal construction only',
              'the default parser evaluates code (name lookup / calls / attribute access)', construct=construct_key('parse_to_dict', 'default parser', dn))
    units = list(p.units.values()) if ctx.thorough else [u]
    for unit in units:
        hits = dangerous_hits(unit.tree, unit.aliases)
        if unit is not u:
            # other modules legitimately use getattr/__import__ for optional imports; only eval-family there
            hits = [h for h in hits if h[1].split('.')[-1] in ('eval', 'exec', 'compile')]
        calls = sum(1 for n in ast.walk(unit.tree) if isinstance(n, ast.Call))
        ctx.check('C19-R3', f'{unit.rel}: {calls} call sites scanned, dangerous: {[h[1] for h in hits]}', f'{unit.rel}:{hits[0][0] if hits else 1}',
                  not hits, 'nothing that evaluates text as code', 'code-evaluating call in the parsing module',
                  construct=construct_key(unit.rel, 'dangerous calls', sorted({h[1] for h in hits})), examined=calls)
    # the only callee applied to input text is the parse parameter
    gt = build(tryp, p, inline_nested=False)
    pcalls = [n for n in gt.nodes if n.kind == 'call' and isinstance(n.ast.func, ast.Name) and (
        n.ast.func.id == (tryp_param or parse_p) or n.ast.func.id in parser_loop_vars)]
    xp = tryp.params[0]
    # R4
    if not pcalls:
        # (the call exists in the text - that is how the guarded parser was found - but no path reaches it: a test that is
        # constantly false, a return placed in front of it)
        ctx.violation('C19-R4', f'{tryp.name}: the parser call is unreachable', f'{PA}:{tryp.lineno}',
                      'no path through the guarded parser reaches the call of the parser: strings are never parsed, every value stays raw text',
                      construct=construct_key('parse_to_dict', 'parser call unreachable'))
    for pc in pcalls:
        isb = [n for n in gt.nodes if n.kind == 'branch' and norm(n.meta['test']) == f'isinstance({xp}, str)']
        w = find_path(gt, [gt.entry], [pc], edge_ok=lambda e: not (e.src in isb and e.label == 'true'))
        argok = [norm(a_) for a_ in pc.ast.args] == [xp]
        ctx.check('C19-R4', f'{norm(pc.ast)} only if isinstance({xp}, str)', gt.loc(pc), w is None and bool(isb) and argok,
                  'non-strings pass through untouched', 'the parser is applied to non-string values', witness=render(gt, w),
                  construct=construct_key(tryp.qualname, 'parse non-str'))
        ee = [e for e in gt.succ[pc.id] if e.label == 'exc' and carries_exception(e.classes)]
        esc = [e for e in ee if e.dst is gt.raise_exit]
        rets_x = [n for n in gt.nodes if n.kind == 'return' and norm(n.ast.value) == xp]
        # (what escapes from another call on the way - a reporting hook interrupted by KeyboardInterrupt / SystemExit - and
        # carries no Exception is that call's own outcome, not the parser's failure)
        def _not_foreign_interrupt(e, pc=pc):
            return not (e.label == 'exc' and e.src is not pc and e.src.kind == 'call' and e.src not in pcalls
                        and e.classes and not carries_exception(e.classes))
        w = must_pass(gt, [], [gt.exit, gt.raise_exit], rets_x, start_edges=ee, edge_ok=_not_foreign_interrupt)
        ctx.check('C19-R4', f'any failure of {norm(pc.ast)} keeps the original', gt.loc(pc), bool(ee) and w is None and not esc and bool(rets_x),
                  'handler covers Exception and returns the input', 'a parser failure escapes (or the value is lost)', witness=render(gt, w),
                  construct=construct_key(tryp.qualname, 'parse failure'))
    rets = [n for n in gt.nodes if n.kind == 'return']
    # ... and what the parser answered is the result, whatever it is (None, False, 0 and '' are values like any other): from the
    # success edge of a parser call every path returns that call's value
    for pc in pcalls:
        holder = None
        par_ = parent(pc.ast)
        if isinstance(par_, ast.Assign) and len(par_.targets) == 1 and isinstance(par_.targets[0], ast.Name):
            holder = par_.targets[0].id
        good_rets = [n for n in rets if n.ast.value is pc.ast or (holder is not None and isinstance(n.ast.value, ast.Name) and n.ast.value.id == holder)]
        se_ = [e for e in gt.succ[pc.id] if e.label != 'exc']
        wv = must_pass(gt, [], [gt.exit] + [n for n in rets if n not in good_rets], good_rets, start_edges=se_, edge_ok=_nonexc) if se_ else None
        ctx.check('C19-R4', f'{tryp.name}: the value of {norm(pc.ast)} is returned as it is', gt.loc(pc), wv is None and bool(good_rets),
                  'every value the parser produces is the result', 'a value the parser produced can be discarded (a literal that evaluates to None / a falsy '
                  'value stays a string, or the original is returned instead)', witness=render(gt, wv),
                  construct=construct_key(tryp.qualname, 'parser value discarded'))
    # ... and every string is handed to the parser: nothing but `isinstance(x, str)` decides whether parsing is tried
    isb_ = [n for n in gt.nodes if n.kind == 'branch' and norm(n.meta['test']) == f'isinstance({xp}, str)']
    for b_ in isb_:
        te_ = [e for e in gt.succ[b_.id] if e.label == 'true']
        w_ = must_pass(gt, [], [gt.exit, gt.raise_exit], pcalls, start_edges=te_) if te_ else None
        ctx.check('C19-R4', f'{tryp.name}: every string reaches {parse_p}({xp})', gt.loc(b_), w_ is None and bool(pcalls) and bool(te_),
                  'a string value is always offered to the parser', 'some strings skip the parser: a value that is a literal (None, True, a number ...) '
                  'stays a string', witness=render(gt, w_), construct=construct_key(tryp.qualname, 'strings skipping the parser'))
    # the value handed to the parser and the value returned on failure are the *argument*, not something derived from it
    from ..dataflow import rdefs as _rdefs19
    for n_ in pcalls + [r_ for r_ in rets if r_.ast.value is not None and norm(r_.ast.value) == xp]:
        ds_ = _rdefs19(gt).reaching(n_, xp)
        rebound = [d_ for d_ in (ds_ or []) if d_ is not None]
        what_ = 'argument of the parser' if n_ in pcalls else 'value returned when parsing fails'
        ctx.check('C19-R4', f'{tryp.name}: {xp} at {norm(n_.ast)[:60]} is the caller\'s value ({what_})', gt.loc(n_), not rebound,
                  'the parameter is never re-bound', f'{xp} was re-assigned at {[gt.loc(d_) for d_ in rebound]}: an unparsable string comes back changed '
                  '(or the parser sees something other than the text)', construct=construct_key(tryp.qualname, 'parameter re-bound', what_))
    # ... likewise the item the pair parser takes apart: the text that is split is the item itself, not a normalised / stripped /
    # re-encoded copy (key and value text would change with it)
    pp0 = pair.params[0] if pair.params else None
    if pp0 is not None:
        gpp = build(pair, p, inline_module_helpers=True, no_inline=role_sibs)
        splits_pp = [n for n in gpp.nodes if n.kind == 'call' and isinstance(n.ast.func, ast.Attribute) and n.ast.func.attr in SPLITTERS]
        # (a store that receives the *result* of the split - `pair = _split_pair(pair)` - comes after it and is not meant)
        stores_pp = [n for n in gpp.nodes if n.kind == 'store_name' and n.meta['name'] == pp0 and not n.meta.get('inlined_param')
                     and find_path(gpp, [n], splits_pp, edge_ok=_nonexc) is not None]
        ctx.check('C19-R1', f'{pair.name}: the item `{pp0}` is not re-bound before it is taken apart ({len(stores_pp)} such store(s))', gpp.loc(stores_pp[0]) if stores_pp else f'{PA}:{pair.lineno}',
                  not stores_pp, 'split as given', f'`{pp0}` is replaced by something derived from it before it is taken apart: key and value text are no '
                  'longer the caller\'s text (and joined strings disagree with the same pair given as a tuple or mapping)',
                  construct=construct_key(pair.qualname, 'item re-bound'))
    # ... and the separator is used as given: nothing is refused because of what a *transformation* of it looks like
    # (`if not sep.strip(): raise` turns every whitespace separator into an error for all inputs)
    for x in ast.walk(f.node):
        if isinstance(x, ast.If) and any(isinstance(y, ast.Raise) for y in x.body + x.orelse) and any(
                isinstance(y, ast.Call) and isinstance(y.func, ast.Attribute) and isinstance(y.func.value, ast.Name) and y.func.value.id == sep_p
                and y.func.attr not in SPLITTERS for y in ast.walk(x.test)):
            ctx.violation('C19-R2', f'{norm(x.test)} -> raise', f'{PA}:{x.lineno}',
                          'a call is refused because of a property of a transformed separator: separators that are valid for str.split '
                          '(whitespace, say) become errors, for every input shape', construct=construct_key('parse_to_dict', 'separator refused', x.test))

    def _ret_ok(r_: Node) -> bool:
        v = r_.ast.value
        if v is None:
            return False
        if norm(v) == xp or (isinstance(v, ast.Call) and v in [pc.ast for pc in pcalls]):
            return True
        rv = resolve(gt, r_, v, keep=(xp,))
        return norm(rv) == xp or (isinstance(rv, ast.Call) and any(
            (getattr(rv, 'lineno', None), getattr(rv, 'col_offset', None)) == (pc.ast.lineno, pc.ast.col_offset) for pc in pcalls))
    okr = all(_ret_ok(r_) for r_ in rets)
    if not okr:
        ctx.violation('C19-R4', f'returns of {tryp.name}: {[norm(r_.ast.value) for r_ in rets]}', f'{PA}:{tryp.lineno}',
                      'the guarded parser returns something other than parse(x) or x', construct=construct_key(tryp.qualname, 'returns'))
    # R5: the two variants of the tuple parser under `if parse_keys`
    # (a tuple parser takes a key and a value; other nested helpers - a message builder, a splitter - are not variants of it)
    pt = [c for c in f.children if c.kind == 'function' and c is not pair and c is not tryp and len(c.params) == 2]
    from ..match import closure_value

    def is_identity(name: str) -> bool:
        sc_ = next((c for c in f.children if c.kind == 'function' and c.name == name), None)
        if sc_ is None or len(sc_.params) != 1:
            return False
        rs = [x for x in own_nodes(sc_.node) if isinstance(x, ast.Return)]
        body = [x for x in sc_.node.body if not (isinstance(x, ast.Expr) and isinstance(x.value, ast.Constant))]
        return len(body) == 1 and len(rs) == 1 and isinstance(rs[0].value, ast.Name) and rs[0].value.id == sc_.params[0]

    def pk_value(test: ast.AST, b: bool) -> Optional[bool]:
        if isinstance(test, ast.Name) and test.id == pk_p:
            return b
        if isinstance(test, ast.UnaryOp) and isinstance(test.op, ast.Not):
            v = pk_value(test.operand, b)
            return None if v is None else not v
        return None

    def classify_fn(fe: ast.AST, b: bool) -> str:
        """'parse' / 'identity' / '?' for a function-valued expression under parse_keys = b"""
        if isinstance(fe, ast.Name):
            if fe.id == tryp.name:
                return 'parse'
            if is_identity(fe.id):
                return 'identity'
            cv = closure_value(f, fe.id) if fe.id in f.locals else None
            if cv is None:
                for n in own_nodes(f.node):
                    if isinstance(n, (ast.Assign, ast.AnnAssign)):
                        tg = n.targets[0] if isinstance(n, ast.Assign) else n.target
                        if isinstance(tg, ast.Name) and tg.id == fe.id and n.value is not None:
                            cv = n.value
            return classify_fn(cv, b) if cv is not None else '?'
        if isinstance(fe, ast.IfExp):
            v = pk_value(fe.test, b)
            return classify_fn(fe.body if v else fe.orelse, b) if v is not None else '?'
        if isinstance(fe, ast.Subscript) and isinstance(fe.value, ast.Dict):
            # dispatch table {True: f, False: g}[bool(parse_keys)]
            sl = fe.slice
            if isinstance(sl, ast.Call) and isinstance(sl.func, ast.Name) and sl.func.id == 'bool' and len(sl.args) == 1:
                sl = sl.args[0]
            v = pk_value(sl, b)
            if v is not None:
                for k_, val_ in zip(fe.value.keys, fe.value.values):
                    if isinstance(k_, ast.Constant) and k_.value is v:
                        return classify_fn(val_, b)
            return '?'
        if isinstance(fe, ast.Lambda) and len(fe.args.args) == 1 and isinstance(fe.body, ast.Name) and fe.body.id == fe.args.args[0].arg:
            return 'identity'
        return '?'

    def classify_elem(e: ast.AST, a: str, b: bool) -> str:
        if isinstance(e, ast.Name) and e.id == a:
            return 'raw'
        if isinstance(e, ast.Call) and isinstance(e.func, ast.Name) and e.func.id == tryp.name and tryp_param is not None \
                and e.args and norm(e.args[0]) == a:
            return 'parsed'       # (whether the parser is handed on is checked per call site under R4)
        if isinstance(e, ast.Call) and len(e.args) == 1 and not e.keywords and norm(e.args[0]) == a:
            k = classify_fn(e.func, b)
            return {'parse': 'parsed', 'identity': 'raw'}.get(k, '?')
        return '?'

    def active_variants(b: bool) -> List[Scope]:
        """tuple-parser definitions in effect under parse_keys = b (the last one defined wins)"""
        out_: List[Scope] = []

        def walk(stmts):
            for st in stmts:
                if isinstance(st, ast.If):
                    v = pk_value(st.test, b)
                    if v is None:
                        walk(st.body)
                        walk(st.orelse)
                    else:
                        walk(st.body if v else st.orelse)
                elif isinstance(st, ast.FunctionDef):
                    sc_ = next((c for c in pt if c.node is st), None)
                    if sc_ is not None:
                        out_.append(sc_)
        walk(f.node.body)
        return out_
    calls_in_pair = {x.func.id for x in own_nodes(pair.node) if isinstance(x, ast.Call) and isinstance(x.func, ast.Name)}
    shapes = {}
    for b in (True, False):
        vs = [v for v in active_variants(b) if v.name in calls_in_pair]
        if not vs:
            shapes[b] = None
            continue
        sc_ = vs[-1]
        gv = build(sc_, p, inline_nested=False)
        r_ = [n for n in gv.nodes if n.kind == 'return']
        shp = None
        if len(r_) == 1:
            rv = resolve(gv, r_[0], r_[0].ast.value)
            if isinstance(rv, ast.Tuple) and len(rv.elts) == 2 and len(sc_.params) == 2:
                shp = (classify_elem(rv.elts[0], sc_.params[0], b), classify_elem(rv.elts[1], sc_.params[1], b))
        shapes[b] = (shp, sc_)
    st = shapes[True][0] if shapes[True] else None
    sf = shapes[False][0] if shapes[False] else None
    where5 = f'{PA}:{(shapes[True][1] if shapes[True] else f).lineno}'
    if shapes[True] is None or shapes[False] is None:
        ctx.undecided('C19-R5', 'parse_keys switch', where, 'no tuple parser called by the pair parser')
    else:
        ctx.check('C19-R5', f'parse_keys=True -> {st}', where5, st == ('parsed', 'parsed'), 'key and value parsed',
                  'with parse_keys the key or value is not parsed (or swapped)', construct=construct_key('parse_to_dict', 'parse_keys true', st))
        ctx.check('C19-R5', f'parse_keys=False -> {sf}', where5, sf == ('raw', 'parsed'), 'key untouched, value parsed',
                  'without parse_keys the key is altered or the value left unparsed', construct=construct_key('parse_to_dict', 'parse_keys false', sf))
        vt = shapes[True][1]
        vf = shapes[False][1]
        same_name = vt.name == vf.name
        calls_pt = [n for n in gp.nodes if n.kind == 'call' and isinstance(n.ast.func, ast.Name) and n.ast.func.id == vt.name]
        rets_p = [n for n in gp.nodes if n.kind == 'return']
        okp = same_name and len(calls_pt) == len(rets_p) >= 1 and all(
            isinstance(resolve(gp, r_, r_.ast.value), ast.Call) and norm(resolve(gp, r_, r_.ast.value).func) == vt.name for r_ in rets_p)
        ctx.check('C19-R6', f'{pair.name} returns {vt.name}(...) on every path', f'{PA}:{pair.lineno}', okp,
                  'string and tuple items go through the same tuple parser', 'an input shape bypasses the parser',
                  construct=construct_key(pair.qualname, 'pipeline'))
    # R6
    g = build(f, p)
    items_p = f.params[0]
    conv = [n for n in g.nodes if n.kind == 'store_name' and isinstance(n.meta.get('value'), ast.Call)
            and norm(n.meta['value']) == f'{items_p}.items()']
    okc = False
    for c in conv:
        call = [n for n in g.nodes if n.kind == 'call' and n.ast is c.meta['value']]
        ee = [e for n in call for e in g.succ[n.id] if e.label == 'exc']
        okc = bool(ee) and all(e.dst.kind == 'except' and set(e.dst.meta.get('classes', ())) == {'AttributeError'} for e in ee)
    rets = [n for n in g.nodes if n.kind == 'return']
    okd = False
    if len(rets) == 1:
        rv = rets[0].ast.value
        if isinstance(rv, ast.Call) and norm(rv.func) == 'dict' and len(rv.args) == 1 and isinstance(rv.args[0], ast.Call) \
                and norm(rv.args[0].func) == 'map' and len(rv.args[0].args) == 2 and norm(rv.args[0].args[0]) == pair.name \
                and isinstance(rv.args[0].args[1], ast.Name):
            src = rv.args[0].args[1].id
            alts = {norm(a_) if a_ is not None else items_p for a_ in alternatives(g, rets[0], src)} if conv else set()
            okd = alts == {f'{items_p}.items()', items_p} or (src == items_p and alts <= {f'{items_p}.items()', items_p} and f'{items_p}.items()' in alts)
    ctx.check('C19-R6', f'{[norm(c.meta["stmt"]) for c in conv]} ; return {norm(rets[0].ast.value) if rets else None}', where, okc and okd,
              'mappings become item pairs (only AttributeError tolerated), every item goes through the pair parser',
              'mappings, pair sequences and strings do not share one pipeline', construct=construct_key('parse_to_dict', 'pipeline'))
    # non-string pairs are forwarded positionally
    star = [n for n in gp.nodes if n.kind == 'call' and any(isinstance(a_, ast.Starred) and norm(a_.value) == pair.params[0] for a_ in n.ast.args)]
    isb = [n for n in gp.nodes if n.kind == 'branch' and norm(n.meta['test']) == f'isinstance({pair.params[0]}, str)']
    for sc in splits:
        w = find_path(gp, [gp.entry], [sc], edge_ok=lambda e: not (e.src in isb and e.label == 'true'))
        if w is not None or not isb:
            ctx.violation('C19-R6', 'split applied to non-strings', gp.loc(sc), construct=construct_key(pair.qualname, 'split non-str'), witness=render(gp, w))


# ---------------------------------------------------------------------------
# C20
# ---------------------------------------------------------------------------

def c20(ctx: Ctx) -> None:
    p = ctx.program
    from .common import rule_unbound
    rule_unbound(ctx, 'C20-U1', [p.func(A, 'gather_excs'), p.func(A, 'raise_first_exc')], 'gather_excs / raise_first_exc')
    ctx.trusted += ['asyncio.gather(return_exceptions=True) waits for all and keeps input order']
    ctx.rule('C20-R1', 'all awaitables are passed, star-unpacked and unfiltered, to asyncio.gather(..., return_exceptions=True)', 1)
    ctx.rule('C20-R2', 'the loop iterates the awaited gather result directly (input order)', 1)
    ctx.rule('C20-R3', 'the yield is control-dependent on isinstance(res, only) and yields that very value', 1)
    ctx.rule('C20-R4', 'raise_first_exc forwards (aws, only) to gather_excs, raises the first value, returns nothing else', 1)
    f = p.func(A, 'gather_excs')
    g = build(f, p)
    awsp, onlyp = f.params[0], f.params[1]
    gcalls = [n for n in g.nodes if n.kind == 'call' and call_name(g, n.ast) == 'asyncio.gather']
    where = f'{A}:{f.lineno}'
    if len(gcalls) != 1:
        ctx.violation('C20-R1', f'{len(gcalls)} gather calls', where, 'the awaitables are not run to completion together (as_completed / wait / sequential awaits)',
                      construct=construct_key('gather_excs', 'gather calls', len(gcalls)))
        return
    c = gcalls[0].ast
    from ..match import expand_keywords
    star = len(c.args) == 1 and isinstance(c.args[0], ast.Starred) and norm(resolve(g, gcalls[0], c.args[0].value, keep=(awsp,))) == awsp
    kws = expand_keywords(g, gcalls[0], c) or {}
    rexv = kws.get('return_exceptions')
    okr = isinstance(rexv, ast.Constant) and rexv.value is True
    ctx.check('C20-R1', f'{norm(c)}', g.loc(gcalls[0]), star and okr, 'every awaitable runs to completion; failures become values',
              'a failing awaitable propagates at once (others are abandoned) or some awaitables are not gathered',
              construct=construct_key('gather_excs', c))
    # ... gather_excs itself raises nothing: whatever an awaitable ended with - a cancellation of that awaitable included - is a
    # value of the gathered list, to be yielded or skipped by the filter alone
    own_raises = [n for n in g.nodes if n.kind == 'raise' and not n.meta.get('inlined')]
    ctx.check('C20-R3', f'gather_excs has no raise statement of its own ({len(own_raises)})', g.loc(own_raises[0]) if own_raises else where, not own_raises,
              'results are yielded or skipped, never raised', 'a result is raised from inside the generator instead of being yielded or skipped: the failures '
              'after it are lost and a failure the filter excludes (a cancelled child with only=ValueError) reaches the caller',
              construct=construct_key('gather_excs', 'raises a result'))
    # ... both entry points mean the same by "no filter": the default of the filter parameter is BaseException in each
    for fn_ in (f, p.func(A, 'raise_first_exc')):
        a_ = fn_.node.args
        pos_ = a_.posonlyargs + a_.args
        dmap = dict(zip([x.arg for x in pos_[len(pos_) - len(a_.defaults):]], a_.defaults))
        dmap.update({k.arg: d for k, d in zip(a_.kwonlyargs, a_.kw_defaults) if d is not None})
        fp_ = fn_.params[1] if len(fn_.params) > 1 else None
        d_ = dmap.get(fp_)
        if d_ is not None:
            ctx.check('C20-R3', f'{fn_.name}: default filter {norm(d_)}', f'{A}:{fn_.lineno}', norm(d_) == 'BaseException',
                      'no filter means every failure', 'the default filter is narrower than BaseException: a call without a filter silently skips '
                      'failures that are not of that class (a cancelled child, a user BaseException), and the two entry points disagree',
                      construct=construct_key(fn_.name, 'default filter', norm(d_)))
    # ... and they are the caller's awaitables and the caller's filter: neither parameter is re-bound (wrapping every awaitable in a
    # throttling / logging coroutine changes what runs and what its failures are), and the filter class is not refused for being
    # what the signature allows (any BaseException subclass)
    for prm_ in (awsp, onlyp):
        def _copy_of_itself(v_) -> bool:
            # `aws = list(aws)` / `tuple(aws)`: the same objects in the same order
            return isinstance(v_, ast.Call) and isinstance(v_.func, ast.Name) and v_.func.id in ('list', 'tuple') and len(v_.args) == 1 \
                and not v_.keywords and isinstance(v_.args[0], ast.Name) and v_.args[0].id == prm_
        rb_ = [n for n in g.nodes if n.kind == 'store_name' and n.meta['name'] == prm_ and not n.meta.get('inlined_param')
               and not _copy_of_itself(n.meta.get('value'))]
        ctx.check('C20-R1', f'gather_excs: `{prm_}` is used as given ({len(rb_)} re-binding(s))', g.loc(rb_[0]) if rb_ else where, not rb_,
                  'the caller\'s own objects are gathered / tested', f'`{prm_}` is replaced before it is used: what is gathered (or filtered by) is something '
                  'built from the caller\'s argument - wrappers add failures of their own and change identity-based de-duplication',
                  construct=construct_key('gather_excs', 'parameter re-bound', prm_))
    gi_ = build(f, p, inline_module_helpers=True)
    for b_ in [n for n in gi_.nodes if n.kind == 'branch']:
        t_ = resolve(gi_, b_, b_.meta['test'], keep=(onlyp,))
        neg_ = False
        while isinstance(t_, ast.UnaryOp) and isinstance(t_.op, ast.Not):
            t_, neg_ = t_.operand, not neg_
        if isinstance(t_, ast.Call) and isinstance(t_.func, ast.Name) and t_.func.id == 'issubclass' and len(t_.args) == 2 \
                and any(isinstance(x, ast.Name) and x.id == onlyp for x in ast.walk(t_.args[0])):
            cls_ok = (gi_.res.path(t_.args[1]) or norm(t_.args[1])) in ('builtins.BaseException', 'BaseException')
            refuse_lab = 'true' if neg_ else 'false'
            raises_ = [n for n in gi_.nodes if n.kind == 'raise']
            w_ = find_path(gi_, [], raises_, start_edges=[e for e in gi_.succ[b_.id] if e.label == refuse_lab], edge_ok=_nonexc) if raises_ else None
            ctx.check('C20-R1', f'gather_excs: filter check {norm(t_)}', gi_.loc(b_), cls_ok or w_ is None,
                      'only classes that are no exception classes at all are refused',
                      f'a filter class that is a BaseException but not a {norm(t_.args[1])} is refused before anything runs: nothing is gathered, nothing yielded',
                      witness=render(gi_, w_), construct=construct_key('gather_excs', 'filter class refused', t_.args[1]))
    loops = [n for n in g.nodes if n.kind == 'for_iter']
    okl = False
    if len(loops) == 1:
        it = resolve(g, loops[0], loops[0].ast.iter)
        okl = isinstance(it, ast.Await) and (norm(it.value) == norm(c) or (
            isinstance(it.value, ast.Call) and (getattr(it.value, 'lineno', None), getattr(it.value, 'col_offset', None)) == (c.lineno, c.col_offset)))
    ctx.check('C20-R2', f'for ... in {norm(loops[0].ast.iter) if loops else None}', g.loc(loops[0]) if loops else where, okl,
              'results visited in input order', 'the results are re-ordered / filtered before the loop (sorted, reversed, set, as_completed)',
              construct=construct_key('gather_excs', 'iteration'))
    ys = [n for n in g.nodes if n.kind == 'yield']
    lv = norm(loops[0].ast.target) if loops else None
    for y in ys:
        isb = [n for n in g.nodes if n.kind == 'branch' and norm(resolve(g, n, n.meta['test'])) == f'isinstance({lv}, {onlyp})']
        w = find_path(g, [g.entry], [y], edge_ok=lambda e: not (e.src in isb and e.label == 'true'))
        ctx.check('C20-R3', f'{norm(y.ast)} if isinstance({lv}, {onlyp})', g.loc(y), w is None and bool(isb) and norm(resolve(g, y, y.ast.value)) == lv,
                  'subclass-inclusive filter, the exception itself is yielded',
                  'the filter is not isinstance(res, only) (exact-type / equality tests miss subclasses) or something else is yielded',
                  witness=render(g, w), construct=construct_key('gather_excs', 'filter'))
    # ... and nothing but that test decides: once isinstance(res, only) holds, the value is yielded
    if loops and ys:
        isb = [n for n in g.nodes if n.kind == 'branch' and norm(resolve(g, n, n.meta['test'])) == f'isinstance({lv}, {onlyp})']
        for b_ in isb:
            te = [e for e in g.succ[b_.id] if e.label == 'true']
            w = must_pass(g, [], [loops[0], g.exit], ys, start_edges=te, edge_ok=_nonexc)
            ctx.check('C20-R3', f'every {lv} with isinstance({lv}, {onlyp}) is yielded', g.loc(b_), w is None,
                      'the filter is exactly isinstance(res, only)',
                      'a further condition drops some of the matching exceptions (e.g. ones that were set on a future and never raised, '
                      'or falsy exception objects)', witness=render(g, w), construct=construct_key('gather_excs', 'extra filter'))
    if len(ys) != 1:
        ctx.violation('C20-R3', f'{len(ys)} yields', where, construct=construct_key('gather_excs', 'yields', len(ys)))
    r = p.func(A, 'raise_first_exc')
    g2 = build(r, p)
    for n in g2.nodes:
        if n.kind == 'call' and (call_name(g2, n.ast) or '') in ('asyncio.gather', 'asyncio.wait', 'asyncio.as_completed', 'asyncio.wait_for'):
            ctx.violation('C20-R1', f'raise_first_exc: {norm(n.ast)}', g2.loc(n),
                          'the awaitables are awaited outside gather_excs: a failure propagates at once and the others are abandoned',
                          construct=construct_key('raise_first_exc', n.ast))
    fl = [n for n in g2.nodes if n.kind == 'for_iter' and n.meta.get('is_async')]
    ok = False
    if len(fl) == 1:
        it = resolve(g2, fl[0], fl[0].ast.iter)
        ok = isinstance(it, ast.Call) and norm(it.func) == 'gather_excs' and [norm(a_) for a_ in it.args] == [r.params[0], r.params[1]] and not it.keywords
        ok = ok or (isinstance(it, ast.Call) and norm(it.func) == 'gather_excs' and [norm(a_) for a_ in it.args] == [r.params[0]]
                    and [(k.arg, norm(k.value)) for k in it.keywords] == [('only', r.params[1])])
        tv = norm(fl[0].ast.target)
        raises = [n for n in g2.nodes if n.kind == 'raise' and n.ast.exc is not None]
        first = [e for e in g2.succ[fl[0].id] if e.label == 'true']
        w = must_pass(g2, [], [fl[0], g2.exit], raises, start_edges=first, edge_ok=_nonexc)
        ok = ok and len(raises) >= 1 and all(norm(resolve(g2, x, x.ast.exc)) == tv for x in raises) and w is None
    rets = [n for n in g2.nodes if n.kind == 'return' and n.ast.value is not None and not (isinstance(n.ast.value, ast.Constant) and n.ast.value.value is None)]
    # no other consumer of the awaitables: every path to the exit goes through the gather_excs loop, and
    # the parameter is used nowhere else
    if fl:
        w = must_pass(g2, [g2.entry], [g2.exit], fl, edge_ok=_nonexc)
        uses = [x for x in own_nodes(r.node) if isinstance(x, ast.Name) and x.id == r.params[0] and isinstance(x.ctx, ast.Load)]
        other_awaits = [n for n in g2.nodes if n.kind == 'await']
        ok = ok and w is None and len(uses) == 1 and not other_awaits
    ctx.check('C20-R4', f'raise_first_exc: async for {norm(fl[0].ast.target) if fl else None} in {norm(fl[0].ast.iter) if fl else None}: raise', f'{A}:{r.lineno}',
              ok and not rets, 'first exception in input order is raised, None otherwise', 'raise_first_exc does not raise the first yielded exception / drops the filter',
              construct=construct_key('raise_first_exc', 'shape'))
