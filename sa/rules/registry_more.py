"""Registration of the remaining rule groups."""


def register(REG):
    from . import filelock
    REG.update({
        'C02': (filelock.c02, 'acquire() success needs thread lock + OS lock, descriptor writers, fresh descriptor, exclusive flags and primitive, release order, result of acquire never dropped'),
        'C12': (filelock.c12, 'counter/depth balance on all paths (affine domain), outermost release, lock kind, no-op release, fd accounting under OSError, argument normalisation table, non-blocking/timed shapes'),
        'C13': (filelock.c13, 'no soft lock / unlink / pid file / exit handlers, open mode, kernel-only primitives'),
    })
    from . import batcher
    REG.update({
        'C04': (batcher.c04, 'key matching of results to futures, Exception->raise, fan-out and missing-key sweeps on all paths, answered-once, dispatcher survival'),
        'C09': (batcher.c09, 'cancellation barrier on shared futures, state-guarded and confined completion'),
        'C10': (batcher.c10, 'size guard dominance and bulk bound, non-empty batches, semaphore region, FIFO containers and single assembler, batch-timeout plumbing'),
        'C11': (batcher.c11, 'atomic lookup-or-create, miss-only enqueue, eviction on all exits with the configured delay, sharers never evict, default key'),
        'C15': (batcher.c15, 'partial == option set for the three option decorators, option def-use chains, per-loop weak registry'),
    })
    from . import buffer
    REG.update({
        'C03': (buffer.c03, 'retention until success, success-only flag, no dropped producer, contained producer failures, entry points funnel to a thread-safe hand-off, thread affinity of queue and flag'),
        'C07': (buffer.c07, 'join->flag order in wait(), clear-before-done atomicity, get/task_done pairing, cancel target, flush edges, daemon cancel transparency'),
        'C08': (buffer.c08, 'single serial call site, non-empty guard, timer as the sole trigger re-armed per arrival with the configured value, drain-before-arm'),
    })
    from . import helpers
    REG.update({
        'C16': (helpers.c16, 'sentinel on all producer exits, identity test in the consumer, producer outcome collected, off-loop iteration, thread-safe FIFO hand-off, executor scope'),
        'C17': (helpers.c17, 'dispatch truth table, run-under-lock, double-checked lock creation, target-loop provenance, wait-until-running, stop-then-join'),
        'C18': (helpers.c18, 'affine use of every iterator value, predicate applied once, complementary selectors on sibling tee copies, laziness, exhaust'),
        'C19': (helpers.c19, 'split-once, ValueError translation, literal-only default parser and no code evaluation, str-only guarded parsing, key switch, single pipeline'),
        'C20': (helpers.c20, 'gather(return_exceptions=True) over all awaitables, input order, isinstance filter, raise_first_exc pass-through'),
    })

