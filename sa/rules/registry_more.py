"""Registration of the remaining rule groups."""


def register(REG):
    from . import filelock
    REG.update({
        'C02': (filelock.c02, 'acquire() success needs thread lock + OS lock, descriptor writers, fresh descriptor, exclusive flags and primitive, release order, result of acquire never dropped'),
        'C12': (filelock.c12, 'counter/depth balance on all paths (affine domain), outermost release, lock kind, no-op release, fd accounting under OSError, argument normalisation table, non-blocking/timed shapes'),
        'C13': (filelock.c13, 'no soft lock / unlink / pid file / exit handlers, open mode, kernel-only primitives'),
    })
