"""Obligations shared by all property checks."""
from __future__ import annotations

from typing import Iterable, List

from ..cfg import build
from ..core import Ctx, construct_key, norm
from ..dataflow import maybe_unbound_loads, unbound_witness
from ..load import Scope
from ..paths import render


def descendants(scope: Scope) -> List[Scope]:
    out = [scope]
    for c in scope.children:
        if c.kind == 'function':
            out.extend(descendants(c))
    return out


def rule_unbound(ctx: Ctx, rule: str, scopes: Iterable[Scope], what: str) -> None:
    """No statement of the code that carries the property reads a local that may still be unbound on a feasible
    path (UnboundLocalError in the middle of the protocol: a clean-up is skipped, a task dies, a caller hangs).
    Decided by reaching definitions plus a path-sensitive witness search; the raise model does not draw these edges."""
    ctx.rule(rule, f'no read of a possibly-unbound local in {what}', 1)
    p = ctx.program
    n_reads = 0
    bad = 0
    seen = set()
    for sc in scopes:
        for f in descendants(sc):
            if f.qualname in seen or getattr(f.node, '_synthetic', False):
                continue
            seen.add(f.qualname)
            g = build(f, p)
            for x in g.nodes:
                for nm in maybe_unbound_loads(g, x):
                    n_reads += 1
                    w = unbound_witness(g, x, nm)
                    if w is not None:
                        bad += 1
                        ctx.violation(rule, f'{f.qualname}: {norm(x.ast)[:60]} reads `{nm}`', g.loc(x),
                                      f'`{nm}` is not assigned on a feasible path to this read: UnboundLocalError at run time',
                                      witness=render(g, w), construct=construct_key(f.qualname, 'unbound read', nm))
    if not bad:
        ctx.holds(rule, f'{len(seen)} function(s): every local is assigned on every feasible path to each of its reads '
                        f'({n_reads} candidate read(s) examined path-sensitively)', f'{next(iter(scopes)).unit.rel}:1', examined=max(1, n_reads))


def exception_escapes(g, edge, _seen=None) -> bool:
    """Does the exception travelling along *edge* itself leave the function?  It is followed outwards through cleanup
    blocks (finally / with exits, which hand it on at their `cleanup_end`) and through handlers that re-raise it (a bare
    `raise`, or `raise e` of the handler's own name); a handler that does not re-raise ends it - whatever is raised later
    is another exception."""
    import ast
    seen = _seen if _seen is not None else set()
    if id(edge) in seen:
        return False
    seen.add(id(edge))
    d = edge.dst
    if d is g.raise_exit:
        return True
    if d.kind == 'except':
        h = d.ast if isinstance(d.ast, ast.ExceptHandler) else None
        if h is None:
            return False
        inside = {id(x) for x in ast.walk(h)}
        for n in g.nodes:
            if n.kind == 'raise' and isinstance(n.ast, ast.Raise) and id(n.ast) in inside:
                again = n.ast.exc is None or (isinstance(n.ast.exc, ast.Name) and n.ast.exc.id == h.name)
                if again and any(exception_escapes(g, e, seen) for e in g.succ[n.id] if e.label == 'exc'):
                    return True
        return False
    # a cleanup clone entered on the exception path: it ends in a cleanup_end that dispatches the exception further
    stack, visited = [d], set()
    while stack:
        n = stack.pop()
        if n.id in visited:
            continue
        visited.add(n.id)
        if n.kind == 'cleanup_end' and n.meta.get('how') == 'exc':
            if any(exception_escapes(g, e, seen) for e in g.succ[n.id] if e.label == 'exc'):
                return True
            continue
        if n.kind == 'except' and n is not d:
            continue
        for e in g.succ[n.id]:
            if e.label != 'exc':
                stack.append(e.dst)
    return False
