"""Obligations shared by all property checks."""
from __future__ import annotations

from typing import Iterable, List

from ..cfg import build
from ..core import Ctx, construct_key, norm
from ..dataflow import maybe_unbound_loads, unbound_witness
from ..load import Scope
from ..paths import render


def descendants(scope: Scope) -> List[Scope]:
    out = [scope]
    for c in scope.children:
        if c.kind == 'function':
            out.extend(descendants(c))
    return out


def rule_unbound(ctx: Ctx, rule: str, scopes: Iterable[Scope], what: str) -> None:
    """No statement of the code that carries the property reads a local that may still be unbound on a feasible
    path (UnboundLocalError in the middle of the protocol: a clean-up is skipped, a task dies, a caller hangs).
    Decided by reaching definitions plus a path-sensitive witness search; the raise model does not draw these edges."""
    ctx.rule(rule, f'no read of a possibly-unbound local in {what}', 1)
    p = ctx.program
    n_reads = 0
    bad = 0
    seen = set()
    for sc in scopes:
        for f in descendants(sc):
            if f.qualname in seen or getattr(f.node, '_synthetic', False):
                continue
            seen.add(f.qualname)
            g = build(f, p)
            for x in g.nodes:
                for nm in maybe_unbound_loads(g, x):
                    n_reads += 1
                    w = unbound_witness(g, x, nm)
                    if w is not None:
                        bad += 1
                        ctx.violation(rule, f'{f.qualname}: {norm(x.ast)[:60]} reads `{nm}`', g.loc(x),
                                      f'`{nm}` is not assigned on a feasible path to this read: UnboundLocalError at run time',
                                      witness=render(g, w), construct=construct_key(f.qualname, 'unbound read', nm))
    # ... nor a global that nothing binds: `logging.exception(...)` after the import became `from logging import getLogger` is a
    # NameError on the one path that reaches it (decided on the *original* source with the compiler's symbol tables)
    import builtins
    import symtable
    for u in {sc.unit.rel: sc.unit for sc in scopes}.values():
        try:
            top = symtable.symtable(u.src, u.path, 'exec')
        except SyntaxError:
            continue
        import ast as _ast
        if any(isinstance(x, _ast.ImportFrom) and any(al.name == '*' for al in x.names) for x in _ast.walk(_ast.parse(u.src))):
            continue
        bound_top = {sy.get_name() for sy in top.get_symbols() if sy.is_assigned() or sy.is_imported() or sy.is_namespace()}

        def walk(st, depth=0):
            for ch in st.get_children():
                if ch.get_type() == 'function':
                    for sy in ch.get_symbols():
                        nm = sy.get_name()
                        if sy.is_referenced() and sy.is_global() and not sy.is_assigned() and nm not in bound_top and not hasattr(builtins, nm) \
                                and nm not in ('__class__', '__file__', '__name__', '__doc__', '__package__', '__spec__', '__builtins__'):
                            yield ch, nm
                yield from walk(ch, depth + 1)
        for ch, nm in walk(top):
            # restrict to the anchored functions (and what is nested in them): matched by the line of the def
            if not _inside(u, ch.get_lineno(), scopes):
                continue
            bad += 1
            ctx.violation(rule, f'{u.rel}: function `{ch.get_name()}` (line {ch.get_lineno()}) reads the global `{nm}`', f'{u.rel}:{ch.get_lineno()}',
                          f'nothing in the module binds `{nm}` (no assignment, import, def or class of that name) and it is not a builtin: '
                          'NameError on the path that reaches the read', construct=construct_key(u.rel, 'undefined global', ch.get_name(), nm))
    # ... and the anchored functions are reached as written: a decorator of the package put on one of them stands between every
    # caller and the analysed body.  It is accepted when it is transparent - its wrapper hands `*args, **kwargs` on unchanged and
    # returns what the function returned, on every path - and is a violation otherwise (whatever it adds is not covered)
    import ast as _ast2
    STD_DECOS = {'property', 'staticmethod', 'classmethod', 'abstractmethod', 'abc.abstractmethod', 'contextmanager', 'contextlib.contextmanager',
                 'asynccontextmanager', 'contextlib.asynccontextmanager', 'overload', 'typing.overload', 'wraps', 'functools.wraps', 'final', 'typing.final',
                 'override', 'typing.override'}
    for sc in scopes:
        for f in descendants(sc):
            for d in getattr(f.node, 'decorator_list', []):
                dn = d.func if isinstance(d, _ast2.Call) else d
                name = _dotted_name(dn)
                if name is None or name in STD_DECOS or name.split('.')[-1] in ('setter', 'getter', 'deleter'):
                    continue
                target = next((c for c in f.unit.module_scope.children if c.kind == 'function' and c.name == name), None)
                if target is None:
                    continue            # a library decorator: outside the package, trusted like the library
                why = _decorator_opaque(target)
                if why is not None:
                    bad += 1
                    ctx.violation(rule, f'{f.qualname} is decorated with @{name}', f'{f.unit.rel}:{getattr(d, "lineno", f.lineno)}',
                                  f'the decorator is not transparent ({why}): what callers reach is the decorator\'s wrapper, not the analysed function - '
                                  'arguments or options can be changed or dropped, results re-packed, on paths the rules never see',
                                  construct=construct_key(f.qualname, 'opaque decorator', name))
    # ... and each call starts from nothing: a mutable container built in a parameter default is built once, when the def runs,
    # and a function that writes to it carries state from one call into the next (every property here speaks about a call,
    # or about an object, never about "all calls so far")
    import ast as _ast3
    MUTATORS = {'append', 'appendleft', 'extend', 'extendleft', 'pop', 'popleft', 'popitem', 'add', 'update', 'clear', 'remove', 'discard',
                'insert', 'setdefault', 'sort', 'reverse', 'rotate'}
    BUILDERS = {'list', 'dict', 'set', 'deque', 'defaultdict', 'OrderedDict', 'Counter', 'bytearray'}
    cand = []
    for sc in scopes:
        for f in descendants(sc):
            cand.append(f)
            # module-level helpers the anchored code names (one level): `_side(pairs, keep, parked=(deque(), deque()))`
            for x in _ast3.walk(f.node):
                if isinstance(x, _ast3.Name) and isinstance(x.ctx, _ast3.Load):
                    h = next((c for c in f.unit.module_scope.children if c.kind == 'function' and c.name == x.id), None)
                    if h is not None:
                        cand.extend(descendants(h))
    seen_d = set()
    for f in cand:
        if f.qualname in seen_d or not hasattr(f.node, 'args'):
            continue
        seen_d.add(f.qualname)
        a = f.node.args
        pos = a.posonlyargs + a.args
        pairs = list(zip(pos[len(pos) - len(a.defaults):], a.defaults)) + [(k, d) for k, d in zip(a.kwonlyargs, a.kw_defaults) if d is not None]
        for prm, d in pairs:
            builds = any(isinstance(y, (_ast3.List, _ast3.Dict, _ast3.Set, _ast3.ListComp, _ast3.DictComp, _ast3.SetComp)) or (
                isinstance(y, _ast3.Call) and (_dotted_name(y.func) or '').split('.')[-1] in BUILDERS) for y in _ast3.walk(d))
            if not builds:
                continue
            # written through the parameter itself, an element of it (`parked[0].append`) or a name unpacked from it
            names = {prm.arg}
            for st in _ast3.walk(f.node):
                if isinstance(st, _ast3.Assign) and isinstance(st.value, _ast3.Name) and st.value.id == prm.arg:
                    for tg in st.targets:
                        names |= {z.id for z in _ast3.walk(tg) if isinstance(z, _ast3.Name)}
                if isinstance(st, _ast3.Assign) and isinstance(st.value, _ast3.Subscript) and isinstance(st.value.value, _ast3.Name) and st.value.value.id == prm.arg:
                    names |= {z.id for tg in st.targets for z in _ast3.walk(tg) if isinstance(z, _ast3.Name)}

            def base(e):
                while isinstance(e, _ast3.Subscript):
                    e = e.value
                return e.id if isinstance(e, _ast3.Name) else None
            hit = None
            for y in _ast3.walk(f.node):
                if isinstance(y, _ast3.Call) and isinstance(y.func, _ast3.Attribute) and y.func.attr in MUTATORS and base(y.func.value) in names:
                    hit = y
                elif isinstance(y, _ast3.Subscript) and isinstance(y.ctx, (_ast3.Store, _ast3.Del)) and base(y.value) in names:
                    hit = y
                if hit is not None:
                    break
            if hit is not None:
                bad += 1
                ctx.violation(rule, f'{f.qualname}: default of `{prm.arg}` is a container the function writes to ({norm(hit)[:60]})',
                              f'{f.unit.rel}:{getattr(hit, "lineno", f.lineno)}',
                              f'`{prm.arg}={norm(d)[:50]}` is evaluated once, at definition time: every call that relies on the default shares one container, so '
                              'what one call leaves in it is seen by the next (stale elements, results of another call)',
                              construct=construct_key(f.qualname, 'mutable default written', prm.arg))
    if not bad:
        ctx.holds(rule, f'{len(seen)} function(s): every local is assigned on every feasible path to each of its reads '
                        f'({n_reads} candidate read(s) examined path-sensitively)', f'{next(iter(scopes)).unit.rel}:1', examined=max(1, n_reads))


def _dotted_name(e) -> 'Optional[str]':
    import ast
    if isinstance(e, ast.Name):
        return e.id
    if isinstance(e, ast.Attribute):
        b = _dotted_name(e.value)
        return None if b is None else b + '.' + e.attr
    return None


def _decorator_opaque(deco: Scope) -> 'Optional[str]':
    """None when the package decorator *deco* is transparent: `def deco(f): @wraps(f) def w(*a, **k): ...; return f(*a, **k)` with every
    return of the wrapper being the (awaited) call of f with exactly the star arguments, no other call of f, and `return w`.
    Otherwise a short reason."""
    import ast
    from ..load import own_nodes
    params = [p for p in deco.params]
    inner = [c for c in deco.children if c.kind == 'function']
    # a decorator factory (`@_traced('label')`): the function it returns is the decorator
    if len(inner) == 1 and len([c for c in inner[0].children if c.kind == 'function']) == 1 and len(inner[0].params) == 1 and any(
            isinstance(x, ast.Return) and isinstance(x.value, ast.Name) and x.value.id == inner[0].name for x in own_nodes(deco.node)):
        return _decorator_opaque(inner[0])
    if len(params) != 1:
        return 'takes more than the function'
    fp = params[0]
    rets = [x for x in own_nodes(deco.node) if isinstance(x, ast.Return) and x.value is not None]
    if any(isinstance(r.value, ast.Name) and r.value.id == fp for r in rets) and not inner:
        return None         # returns the function itself (a registering / marking decorator)
    if not inner:
        return 'no wrapper function'
    wnames = {w.name for w in inner}
    for r in rets:
        names = {x.id for x in ast.walk(r.value) if isinstance(x, ast.Name)}
        if not (names & wnames) and not (isinstance(r.value, ast.Name) and r.value.id == fp):
            return 'returns something other than its wrapper'
    # one wrapper, or one per kind of function (`if iscoroutinefunction(func): <async wrapper> ... <sync wrapper>`): each must be
    # transparent on its own
    for w in inner:
        why = _wrapper_opaque(w, fp)
        if why is not None:
            return why
    return None


def _wrapper_opaque(w: Scope, fp: str) -> 'Optional[str]':
    import ast
    from ..load import own_nodes
    a = w.node.args
    if not (a.vararg and a.kwarg) or a.kwonlyargs or a.defaults:
        return 'the wrapper does not take (*args, **kwargs)'
    va, kw = a.vararg.arg, a.kwarg.arg
    lead = [x.arg for x in a.posonlyargs + a.args]          # `self` of a decorated method, handed on in place

    def is_fwd(v) -> bool:
        if isinstance(v, ast.Await):
            v = v.value
        return isinstance(v, ast.Call) and isinstance(v.func, ast.Name) and v.func.id == fp and len(v.args) == len(lead) + 1 \
            and [x.id if isinstance(x, ast.Name) else None for x in v.args[:len(lead)]] == lead and isinstance(v.args[-1], ast.Starred) \
            and isinstance(v.args[-1].value, ast.Name) and v.args[-1].value.id == va and len(v.keywords) == 1 and v.keywords[0].arg is None \
            and isinstance(v.keywords[0].value, ast.Name) and v.keywords[0].value.id == kw
    wrets = [x for x in own_nodes(w.node) if isinstance(x, ast.Return)]
    if not wrets or not all(x.value is not None and is_fwd(x.value) for x in wrets):
        return 'the wrapper does not return func(*args, **kwargs) as it is on every path'
    calls = [x for x in ast.walk(w.node) if isinstance(x, ast.Call) and isinstance(x.func, ast.Name) and x.func.id == fp]
    if len(calls) != len(wrets):
        return 'the function is called more than once per path'
    if any(isinstance(x, ast.Name) and x.id in [va, kw] + lead and isinstance(x.ctx, (ast.Store, ast.Del)) for x in ast.walk(w.node)):
        return 'the arguments are re-bound in the wrapper'
    if any(isinstance(x, ast.Attribute) and isinstance(x.value, ast.Name) and x.value.id == kw and x.attr in ('pop', 'update', 'setdefault', 'clear', 'popitem')
           for x in ast.walk(w.node)) or any(isinstance(x, (ast.Subscript,)) and isinstance(x.ctx, (ast.Store, ast.Del)) and isinstance(x.value, ast.Name) and x.value.id == kw
                                             for x in ast.walk(w.node)):
        return 'the keyword arguments are modified in the wrapper'
    if any(isinstance(x, ast.Raise) for x in own_nodes(w.node)):
        return 'the wrapper raises on its own'
    return None


def _inside(u, lineno: int, scopes) -> bool:
    """Is *lineno* (of the original source) within one of the anchored functions of unit *u*?  The loader keeps original line
    numbers on the nodes it does not synthesise."""
    for sc in scopes:
        if sc.unit is not u:
            continue
        lo = getattr(sc.node, 'lineno', None)
        hi = getattr(sc.node, 'end_lineno', None)
        if lo is not None and hi is not None and lo <= lineno <= hi:
            return True
    return False


def handlers_catching(g, node) -> set:
    """Ids of the `except` nodes that an exception raised at *node* can arrive at: directly, handed on by the cleanup of
    a `with` / `finally` it passes on the way out, or re-raised by an inner handler."""
    import ast
    out, seen = set(), set()
    stack = [e for e in g.succ[node.id] if e.label == 'exc']
    while stack:
        e = stack.pop()
        if id(e) in seen:
            continue
        seen.add(id(e))
        d = e.dst
        if d is g.raise_exit:
            continue
        if d.kind == 'except':
            out.add(d.id)
            h = d.ast if isinstance(d.ast, ast.ExceptHandler) else None
            if h is not None:
                inside = {id(x) for x in ast.walk(h)}
                for n in g.nodes:
                    if n.kind == 'raise' and isinstance(n.ast, ast.Raise) and id(n.ast) in inside:
                        stack.extend(e2 for e2 in g.succ[n.id] if e2.label == 'exc')
            continue
        todo, visited = [d], set()
        while todo:
            n = todo.pop()
            if n.id in visited:
                continue
            visited.add(n.id)
            if n.kind == 'cleanup_end' and n.meta.get('how') == 'exc':
                stack.extend(e2 for e2 in g.succ[n.id] if e2.label == 'exc')
                continue
            if n.kind == 'except':
                continue
            for e2 in g.succ[n.id]:
                if e2.label != 'exc':
                    todo.append(e2.dst)
    return out


def exception_escapes(g, edge, _seen=None) -> bool:
    """Does the exception travelling along *edge* itself leave the function?  It is followed outwards through cleanup
    blocks (finally / with exits, which hand it on at their `cleanup_end`) and through handlers that re-raise it (a bare
    `raise`, or `raise e` of the handler's own name); a handler that does not re-raise ends it - whatever is raised later
    is another exception."""
    import ast
    seen = _seen if _seen is not None else set()
    if id(edge) in seen:
        return False
    seen.add(id(edge))
    d = edge.dst
    if d is g.raise_exit:
        return True
    if d.kind == 'except':
        h = d.ast if isinstance(d.ast, ast.ExceptHandler) else None
        if h is None:
            return False
        inside = {id(x) for x in ast.walk(h)}
        for n in g.nodes:
            if n.kind == 'raise' and isinstance(n.ast, ast.Raise) and id(n.ast) in inside:
                again = n.ast.exc is None or (isinstance(n.ast.exc, ast.Name) and n.ast.exc.id == h.name)
                if again and any(exception_escapes(g, e, seen) for e in g.succ[n.id] if e.label == 'exc'):
                    return True
        return False
    # a cleanup clone entered on the exception path: it ends in a cleanup_end that dispatches the exception further
    stack, visited = [d], set()
    while stack:
        n = stack.pop()
        if n.id in visited:
            continue
        visited.add(n.id)
        if n.kind == 'cleanup_end' and n.meta.get('how') == 'exc':
            if any(exception_escapes(g, e, seen) for e in g.succ[n.id] if e.label == 'exc'):
                return True
            continue
        if n.kind == 'except' and n is not d:
            continue
        for e in g.succ[n.id]:
            if e.label != 'exc':
                stack.append(e.dst)
    return False


def rule_func_attr_is_param(ctx: Ctx, rule: str, init: Scope, attr: str, what: str) -> None:
    """The attribute through which the component calls the user's function holds the constructor's parameter itself - not an
    adaptor built from it (an `_ensure_async(func)` that guesses from `iscoroutinefunction` misjudges callables that are
    async by return value only; a caching / retrying / thread-offloading wrapper changes how often and where it runs)."""
    import ast
    from ..load import own_nodes
    stores = [n for n in own_nodes(init.node) if isinstance(n, (ast.Assign, ast.AnnAssign)) and getattr(n, 'value', None) is not None
              and any(isinstance(t, ast.Attribute) and isinstance(t.value, ast.Name) and t.value.id == 'self' and t.attr == attr
                      for t in (n.targets if isinstance(n, ast.Assign) else [n.target]))]
    params = set(init.params) - {'self'}
    for n in stores:
        ok = isinstance(n.value, ast.Name) and n.value.id in params
        ctx.check(rule, f'{init.qualname}: self.{attr} = {norm(n.value)[:60]}', f'{init.unit.rel}:{n.lineno}', ok, f'the {what} as given',
                  f'the {what} is wrapped or replaced before it is stored: what the component awaits is no longer the caller\'s function '
                  '(an adaptor that classifies it by iscoroutinefunction / runs it elsewhere / memoises it changes whether and how often it runs)',
                  construct=construct_key(init.qualname, 'function attribute wrapped', attr))
    if not stores:
        ctx.violation(rule, f'{init.qualname}: self.{attr} is never assigned in the constructor', f'{init.unit.rel}:{init.lineno}',
                      construct=construct_key(init.qualname, 'function attribute missing', attr))


def rule_option_descriptors(ctx: Ctx, rule: str, cls: Scope, program) -> None:
    """The options of a component are per-instance state.  A class-level descriptor under the name of an attribute the
    constructor assigns must keep the value on the *instance*: a `__set__` that stores on the descriptor itself (one object
    per class) makes the option of every instance whatever was assigned last, anywhere."""
    import ast
    from ..load import own_nodes
    n = 0
    for st in cls.node.body:
        if not (isinstance(st, ast.Assign) and len(st.targets) == 1 and isinstance(st.targets[0], ast.Name) and isinstance(st.value, ast.Call)
                and isinstance(st.value.func, ast.Name)):
            continue
        dcls = next((c for uu in program.units.values() for c in uu.classes() if c.name == st.value.func.id), None)
        if dcls is None:
            continue
        setter = next((m for m in dcls.children if m.kind == 'function' and m.name == '__set__'), None)
        if setter is None or len(setter.params) < 3:
            continue
        n += 1
        me, inst = setter.params[0], setter.params[1]
        on_self = [x for x in own_nodes(setter.node) if isinstance(x, ast.Attribute) and isinstance(x.ctx, ast.Store)
                   and isinstance(x.value, ast.Name) and x.value.id == me]
        on_inst = [x for x in ast.walk(setter.node) if (isinstance(x, ast.Attribute) and isinstance(x.ctx, ast.Store) and isinstance(x.value, ast.Name) and x.value.id == inst)
                   or (isinstance(x, ast.Call) and isinstance(x.func, ast.Name) and x.func.id == 'setattr' and x.args and isinstance(x.args[0], ast.Name) and x.args[0].id == inst)
                   or (isinstance(x, ast.Subscript) and isinstance(x.ctx, ast.Store) and isinstance(x.value, ast.Attribute) and x.value.attr == '__dict__'
                       and isinstance(x.value.value, ast.Name) and x.value.value.id == inst)]
        ctx.check(rule, f'{cls.name}.{st.targets[0].id} = {norm(st.value)}: {dcls.name}.__set__ stores on {"the instance" if on_inst and not on_self else "the descriptor" if on_self else "nothing"}',
                  f'{cls.unit.rel}:{st.lineno}', bool(on_inst) and not on_self, 'per-instance option',
                  'the descriptor keeps the assigned value on itself - there is one descriptor object per class, so the option of every instance (every '
                  'per-loop batcher of the decorator, every explicitly built one) is whatever was assigned last: the option a caller gave does not take effect',
                  construct=construct_key(cls.qualname, 'option descriptor shares its value', st.targets[0].id))
    if not n:
        ctx.holds(rule, f'{cls.name}: no class-level data descriptor stands in for an option attribute', f'{cls.unit.rel}:{cls.lineno}')


def mapping_with_policy(program, ctor) -> 'Optional[tuple]':
    """(class name, bases, overridden mapping operations) when *ctor* - the expression that builds an internal table - calls a
    class of the package that overrides a mapping operation or is no dict at all; None for a display, `dict()`, a library
    mapping, or a package subclass that adds nothing."""
    import ast
    from ..load import dotted
    if not (isinstance(ctor, ast.Call) and isinstance(ctor.func, ast.Name)):
        return None
    cls_ = next((c for uu in program.units.values() for c in uu.classes() if c.name == ctor.func.id), None)
    if cls_ is None:
        return None
    over = sorted(m.name for m in cls_.children if m.kind == 'function' and m.name in (
        '__setitem__', '__delitem__', 'pop', 'popitem', 'setdefault', 'update', 'clear', '__getitem__', 'get', '__contains__', '__missing__', '__iter__', '__len__'))
    bases = [dotted(b.value if isinstance(b, ast.Subscript) else b) or '' for b in cls_.node.bases]
    if over or not any(b.split('.')[-1] in ('dict', 'Dict', 'OrderedDict', 'WeakKeyDictionary', 'WeakKeyDict') for b in bases):
        return cls_.name, bases, over
    return None


_pessimistic = {}


def pessimistic_model(program, key, exempt):
    """A raise model in which every call, subscript and suspension may raise anything (apart from what *exempt(cfg, node)*
    excludes): for rules that ask whether a hand-made cleanup is exception-safe without trusting the raise table."""
    from ..cfg import RaiseModel, ANY
    k = (id(program), key)
    if k not in _pessimistic:
        class Pessimistic(RaiseModel):
            def raises(self, cfg, n):
                cl, susp = super().raises(cfg, n)
                if n.kind in ('call', 'load_sub', 'store_sub', 'del_sub', 'await', 'for_iter') and not exempt(cfg, n):
                    cl = set(cl) | {ANY}
                return cl, susp
        _pessimistic[k] = Pessimistic(program)
    return _pessimistic[k]
