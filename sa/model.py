"""Exception-class lattice and the frozen raise-set table (DESIGN 2.2).

Class names are canonicalised strings.  The lattice is read from the *standard
library's* class objects (builtins, asyncio, queue) - never from /repo.
"""
from __future__ import annotations

import asyncio
import builtins
import queue
from typing import Dict, FrozenSet, Iterable, Optional, Set

_CLASSES: Dict[str, type] = {
    n: c for n, c in vars(builtins).items()
    if isinstance(c, type) and issubclass(c, BaseException)
}
_CLASSES.update({
    'CancelledError': asyncio.CancelledError,
    'QueueEmpty': asyncio.QueueEmpty,
    'QueueFull': asyncio.QueueFull,
    'InvalidStateError': asyncio.InvalidStateError,
    'queue.Empty': queue.Empty,
})

#: canonical dotted name -> lattice name
_CANON_EXC = {
    'asyncio.CancelledError': 'CancelledError',
    'asyncio.exceptions.CancelledError': 'CancelledError',
    'concurrent.futures.CancelledError': 'CancelledError',
    # asyncio.TimeoutError *is* builtins.TimeoutError from 3.11 on; on 3.8-3.10
    # it is a direct subclass of Exception.  Either way it sits under Exception
    # and is unrelated to KeyError/RuntimeError/...; we use the 3.11+ identity.
    'asyncio.TimeoutError': 'TimeoutError',
    'asyncio.exceptions.TimeoutError': 'TimeoutError',
    'asyncio.QueueEmpty': 'QueueEmpty',
    'asyncio.QueueFull': 'QueueFull',
    'asyncio.InvalidStateError': 'InvalidStateError',
    'queue.Empty': 'queue.Empty',
    'IOError': 'OSError',
    'EnvironmentError': 'OSError',
}

_PREFERRED: Dict[type, str] = {}
for _n, _c in _CLASSES.items():
    if _c not in _PREFERRED or _n == _c.__name__:
        _PREFERRED[_c] = _n

ANY = 'BaseException'


def canon_exc(name: Optional[str]) -> Optional[str]:
    """Canonical lattice name of a (resolved) dotted name, or None."""
    if name is None:
        return None
    if name.startswith('builtins.'):
        name = name[len('builtins.'):]
    name = _CANON_EXC.get(name, name)
    if name in _CLASSES:
        return _PREFERRED[_CLASSES[name]]
    return None


#: synthetic class: BaseException minus Exception (what is left of "anything"
#: after an `except Exception` handler)
NONEXC = 'NonException'


def issub(a: str, b: str) -> bool:
    """a <= b in the lattice."""
    if a == NONEXC:
        return b in (NONEXC, 'BaseException')
    if b == NONEXC:
        return a != 'BaseException' and not issubclass(_CLASSES[a], Exception) 
    return issubclass(_CLASSES[a], _CLASSES[b])


def related(a: str, b: str) -> bool:
    return issub(a, b) or issub(b, a)


def carries_exception(classes) -> bool:
    """May an exception edge with these classes carry an `Exception` instance?"""
    return bool(classes) and any(related(c, 'Exception') for c in classes)


# ---------------------------------------------------------------------------
# Raise-set table.  Keys are canonical callee paths (after alias resolution),
# matched by suffix on the *method name* for receiver-typed calls.
# ---------------------------------------------------------------------------

#: calls by fully resolved name
CALL_RAISES: Dict[str, FrozenSet[str]] = {
    'asyncio.run_coroutine_threadsafe': frozenset({'RuntimeError'}),
    'os.open': frozenset({'OSError'}),
    'os.close': frozenset({'OSError'}),
    'fcntl.flock': frozenset({'OSError', 'KeyboardInterrupt'}),   # a blocking flock can be interrupted by a signal
    'time.sleep': frozenset({'KeyboardInterrupt'}),                 # ... and so can a sleep (main thread)
    'fcntl.lockf': frozenset({'OSError'}),
    'msvcrt.locking': frozenset({'OSError'}),
    'builtins.__import__': frozenset({'ImportError'}),
    'builtins.getattr': frozenset({'AttributeError'}),
    'builtins.setattr': frozenset({'AttributeError'}),
    'builtins.next': frozenset({'StopIteration'}),
    'asyncio.get_running_loop': frozenset({'RuntimeError'}),
}

#: method calls by attribute name (receiver of a known kind or unknown)
METHOD_RAISES: Dict[str, FrozenSet[str]] = {
    'get_nowait': frozenset({'QueueEmpty', 'queue.Empty'}),
    'call_soon_threadsafe': frozenset({'RuntimeError'}),
    'call_soon': frozenset({'RuntimeError'}),
    'call_later': frozenset({'RuntimeError'}),
    'create_task': frozenset({'RuntimeError'}),
    'run_in_executor': frozenset({'RuntimeError'}),
    'run_until_complete': frozenset({ANY}),   # re-raises what the coroutine raised
    'result': frozenset({ANY}),               # Future.result(): the stored exception
    'set_result': frozenset({'InvalidStateError'}),
    'set_exception': frozenset({'InvalidStateError'}),
    'items': frozenset({'AttributeError'}),   # `.items()` on an object of unknown type
    'pop': frozenset({'KeyError'}),
    'release': frozenset({'RuntimeError'}),   # Lock.release() when not held
    'submit': frozenset({'RuntimeError'}),
}

#: awaited library calls by attribute/function name -> classes besides cancel
AWAIT_RAISES: Dict[str, FrozenSet[str]] = {
    'asyncio.wait_for': frozenset({'TimeoutError', ANY}),  # + whatever the inner awaitable raises
    'asyncio.shield': frozenset({ANY}),
    'asyncio.gather': frozenset({ANY}),
    'asyncio.wrap_future': frozenset({ANY}),
    'asyncio.sleep': frozenset(),
}
AWAIT_METHOD_RAISES: Dict[str, FrozenSet[str]] = {
    'get': frozenset({'RuntimeError'}),   # Queue.get on a closing loop (getter future creation)
    'put': frozenset(),
    'join': frozenset(),
    'wait': frozenset(),
}

#: calls that never raise under any fault model used here
TOTAL_CALLS = {
    'builtins.len', 'builtins.isinstance', 'builtins.max', 'builtins.min',
    'builtins.id', 'builtins.callable', 'builtins.str', 'builtins.set',
    'builtins.frozenset', 'builtins.dict', 'builtins.list', 'builtins.tuple',
    'builtins.range', 'builtins.iter', 'builtins.map', 'builtins.object',
    'time.time', 'asyncio.Event', 'asyncio.Queue',
    'threading.Lock', 'threading.RLock', 'functools.partial',
}


def parse_handler_classes(handler_type, resolve) -> Optional[Set[str]]:
    """Classes named by an `except` clause.  None type (bare) -> {BaseException}.
    `resolve(expr)` gives the canonical dotted name of an expression.
    Returns None if some class cannot be resolved."""
    import ast
    if handler_type is None:
        return {ANY}
    elts = handler_type.elts if isinstance(handler_type, ast.Tuple) else [handler_type]
    out: Set[str] = set()
    for e in elts:
        c = canon_exc(resolve(e))
        if c is None:
            return None
        out.add(c)
    return out


# calls whose result is never None (used for None-ness tracking of locals along paths)
NON_NONE_CALLS = {
    'os.open', 'os.dup', 'os.getpid', 'os.fspath', 'time.time', 'time.monotonic', 'time.perf_counter',
    'id', 'len', 'str', 'int', 'float', 'bool', 'tuple', 'list', 'dict', 'set', 'frozenset', 'object', 'repr', 'iter', 'range',
    'asyncio.Event', 'asyncio.Lock', 'asyncio.Semaphore', 'asyncio.Queue', 'asyncio.get_running_loop',
    'asyncio.get_event_loop', 'asyncio.new_event_loop', 'asyncio.create_task', 'asyncio.ensure_future',
    'asyncio.shield', 'asyncio.wrap_future', 'asyncio.run_coroutine_threadsafe', 'asyncio.gather', 'asyncio.wait_for',
    'asyncio.Future', 'asyncio.Task',
    'threading.Lock', 'threading.RLock', 'threading.Event', 'threading.Thread', 'threading.Semaphore',
    'functools.partial', 'queue.Queue', 'collections.deque', 'itertools.tee', 'itertools.islice',
    'concurrent.futures.ThreadPoolExecutor', 'weakref.WeakKeyDictionary', 'weakref.WeakValueDictionary',
}
