"""Thorough tier (DESIGN 3.2): on top of the property's obligations
  (i)   bytecode cross-check of the CFG engine: units are *compiled, never
        executed*; for every function the set of suspension points found in the
        code object must equal the CFG's suspension nodes, and every try/with
        region must be backed by exception-table entries;
  (ii)  whole-package variants of scan rules are enabled through ctx.thorough
        inside the rule modules (C13, C19);
  (iii) the checker's own discrimination run for this property (seeded breaks
        must be reported, benign twins must stay silent) on scratch copies
        outside /repo and /verif.  It never changes the verdict on /repo; a
        rule that fails its own corpus is an ANALYSIS-ERROR.
  (iv)  replay of the independent corpora (seeded / benign) for the property;
  (v)   layout invariance: the same verdicts on a copy of the package re-printed
        from its syntax trees.
"""
from __future__ import annotations

import ast
import dis
import os
import subprocess
import sys
from typing import Dict, List, Set, Tuple

from .cfg import build
from .core import Ctx, UNDECIDED
from .load import AnalysisError, Scope


def _code_objects(co, out):
    out.append(co)
    for c in co.co_consts:
        if hasattr(c, 'co_code'):
            _code_objects(c, out)


def bytecode_suspensions(code) -> Set[Tuple[int, int]]:
    out = set()
    for i in dis.get_instructions(code):
        if i.opname == 'YIELD_VALUE' and i.positions is not None and i.positions.lineno is not None:
            out.add((i.positions.lineno, i.positions.col_offset))
    return out


def cfg_suspensions(g) -> Set[Tuple[int, int]]:
    out = set()
    for n in g.nodes:
        if n.kind == 'inline_enter' and n.meta.get('awaited') and not n.meta.get('inlined') and n.meta.get('await_ast') is not None:
            # `await helper(...)` with the helper inlined: the await expression itself is the suspension point
            a = n.meta['await_ast']
            out.add((a.lineno, a.col_offset))
            continue
        if not n.suspends or n.meta.get('inlined'):
            continue
        if n.kind in ('await', 'yield'):
            out.add((n.ast.lineno, n.ast.col_offset))
        elif n.kind == 'for_iter':
            out.add((n.ast.lineno, n.ast.col_offset))
        elif n.kind in ('with_enter', 'with_exit'):
            st = n.meta['stmt']
            out.add((st.lineno, st.col_offset))
    return out


def crosscheck(ctx: Ctx) -> None:
    if sys.version_info[:2] != (3, 12):
        ctx.note(f'bytecode cross-check skipped: calibrated for CPython 3.12, running {sys.version_info[:2]}')
        return
    p = ctx.program
    checked = mismatches = regions = 0
    details = []
    for u in p.units.values():
        top = compile(u.src, u.path, 'exec')   # compiled, never executed
        codes: list = []
        _code_objects(top, codes)
        by_key: Dict[Tuple[str, int], object] = {}
        for c in codes:
            by_key[(c.co_name, c.co_firstlineno)] = c
        for f in u.functions():
            node = f.node
            if getattr(node, '_synthetic', False):
                continue      # nested function synthesized by the loader's normalisations: no code object of its own
            first = node.decorator_list[0].lineno if node.decorator_list else node.lineno
            c = by_key.get((node.name, first)) or by_key.get((node.name, node.lineno))
            if c is None:
                raise AnalysisError(f'no code object for {u.rel}:{f.qualname}')
            g = build(f, p)
            b = bytecode_suspensions(c)
            a = cfg_suspensions(g)
            checked += 1
            if a != b:
                mismatches += 1
                details.append(f'{u.rel}:{f.qualname}: cfg-only {sorted(a - b)} bytecode-only {sorted(b - a)}')
            # try/with regions must be backed by exception-table entries
            n_regions = sum(1 for x in ast.walk(node) if isinstance(x, (ast.Try, ast.With, ast.AsyncWith))
                            and p.units[u.rel].scope_of(x) is f)
            try:
                entries = dis._parse_exception_table(c)  # type: ignore[attr-defined]
            except Exception:  # pragma: no cover
                entries = None
            if entries is not None:
                regions += n_regions
                if n_regions and not entries:
                    mismatches += 1
                    details.append(f'{u.rel}:{f.qualname}: {n_regions} try/with regions but an empty exception table')
    ctx.extra['bytecode_crosscheck'] = {'functions': checked, 'mismatches': mismatches,
                                        'try_with_regions': regions, 'details': details[:10]}
    if mismatches:
        raise AnalysisError('CFG engine disagrees with the compiled bytecode: ' + '; '.join(details[:3]))


def selftest(ctx: Ctx) -> None:
    if os.environ.get('AIUTI_NO_SELFTEST'):
        ctx.note('self-test skipped (AIUTI_NO_SELFTEST set)')
        return
    verif = os.path.dirname(os.path.dirname(os.path.abspath(__file__)))
    env = dict(os.environ, PYTHONPATH=verif, AIUTI_NO_SELFTEST='1')
    env.pop('AIUTI_EVIDENCE_DIR', None)
    pr = subprocess.run([sys.executable, '-m', 'sa.selftest.run', ctx.prop, '--jobs', '16'], cwd=verif, env=env,
                        capture_output=True, text=True, timeout=1800)
    lines = pr.stdout.strip().splitlines()
    summary = lines[-1] if lines else ''
    fails = [ln for ln in lines if ln.startswith('FAIL')]
    skips = [ln for ln in lines if ln.startswith('SKIP')]
    ctx.extra['selftest'] = {'summary': summary, 'failures': fails, 'skipped': skips[:20],
                             'variants': [ln for ln in lines if ln.startswith('ok')][:200]}
    if pr.returncode != 0:
        ob = ctx.undecided('SELFTEST', f'checker self-validation for {ctx.prop}', 'sa/selftest/corpus.py',
                           '; '.join(fails[:3]) or pr.stderr[-300:])


def corpora(ctx: Ctx) -> None:
    """(iv) the independent corpora committed under /verif: every confirmed breaking change of `seeded/` for which this
    property's check is on record as firing must still be reported (exit 1) by it, and it must stay silent (exit 0) on every
    behaviour-preserving change of `benign/`.  Patched copies live in a temporary directory outside /repo and /verif."""
    if os.environ.get('AIUTI_NO_SELFTEST'):
        return
    import concurrent.futures as cf
    import json
    import shutil
    import tempfile
    verif = os.path.dirname(os.path.dirname(os.path.abspath(__file__)))
    repo = os.environ.get('AIUTI_REPO', '/repo')
    # the corpora say something about the *checker*; they were recorded against one tree and are replayed only on that tree
    # (on any other tree a patch may not apply, or apply to something it was never judged on)
    import hashlib
    try:
        base_files = json.load(open(os.path.join(verif, 'corpora_base.json')))['files']
    except (OSError, ValueError, KeyError):
        base_files = None
    if base_files is not None:
        for rel, digest in base_files.items():
            pth = os.path.join(repo, rel)
            if not os.path.exists(pth) or hashlib.sha256(open(pth, 'rb').read()).hexdigest() != digest:
                ctx.note(f'corpora not replayed: {rel} differs from the tree the corpora were recorded against')
                ctx.extra['corpora'] = {'skipped': f'{rel} differs from the recorded tree'}
                return
    jobs = []
    sd = os.path.join(verif, 'seeded')
    for sid in sorted(os.listdir(sd)) if os.path.isdir(sd) else []:
        mp = os.path.join(sd, sid, 'meta.json')
        if not os.path.exists(mp):
            continue
        m = json.load(open(mp))
        if (m.get('checks_that_fire') or {}).get(ctx.prop, {}).get('exit') == 1 and (m.get('confirmation') or {}).get('confirmed'):
            jobs.append(('seeded', sid, os.path.join(sd, sid, 'patch.diff'), 1))
    bd = os.path.join(verif, 'benign')
    for bid in sorted(os.listdir(bd)) if os.path.isdir(bd) else []:
        pd = os.path.join(bd, bid, 'patch.diff')
        if os.path.exists(pd):
            jobs.append(('benign', bid, pd, 0))
    if not jobs:
        ctx.note('no corpora found under /verif/seeded, /verif/benign')
        return
    base = tempfile.mkdtemp(prefix='aiuti-corpora-')

    def one(job):
        kind, cid, patch, want = job
        d = tempfile.mkdtemp(prefix=cid + '-', dir=base)
        try:
            shutil.copytree(os.path.join(repo, 'aiuti'), os.path.join(d, 'aiuti'), ignore=shutil.ignore_patterns('__pycache__'))
            a = subprocess.run(['git', 'apply', '--unsafe-paths', f'--directory={d}', patch], cwd=d, capture_output=True, text=True)
            if a.returncode:
                a = subprocess.run(['patch', '-p1', '-s', '-i', patch], cwd=d, capture_output=True, text=True)
                if a.returncode:
                    return kind, cid, want, None, 'patch does not apply to the current tree'
            evd = os.path.join(d, '_ev')
            env = dict(os.environ, AIUTI_REPO=d, AIUTI_EVIDENCE_DIR=evd, PYTHONPATH=verif, AIUTI_NO_SELFTEST='1')
            r = subprocess.run([sys.executable, '-m', 'sa.check', ctx.prop], cwd=verif, env=env, capture_output=True, text=True, timeout=600)
            first = next((ln.strip() for ln in (r.stdout + r.stderr).splitlines() if 'violation rule=' in ln or ln.startswith('ANALYSIS-ERROR')), '')
            return kind, cid, want, r.returncode, first[:160]
        finally:
            shutil.rmtree(d, ignore_errors=True)
    results = []
    try:
        with cf.ThreadPoolExecutor(min(16, os.cpu_count() or 4)) as ex:
            results = list(ex.map(one, jobs))
    finally:
        shutil.rmtree(base, ignore_errors=True)
    stale = [(k, c) for k, c, w, rc, msg in results if rc is None]
    bad = [(k, c, w, rc, msg) for k, c, w, rc, msg in results if rc is not None and rc != w]
    ctx.extra['corpora'] = {'seeded_rechecked': sum(1 for r in results if r[0] == 'seeded' and r[3] is not None),
                            'benign_rechecked': sum(1 for r in results if r[0] == 'benign' and r[3] is not None),
                            'not_applicable_to_this_tree': [c for _, c in stale][:20],
                            'disagreements': [f'{k} {c}: expected exit {w}, got {rc}: {msg}' for k, c, w, rc, msg in bad][:20]}
    if bad:
        ctx.undecided('CORPORA', f'checker validation against the independent corpora for {ctx.prop}', 'seeded/ benign/',
                      '; '.join(f'{k} {c}: expected exit {w}, got {rc}' for k, c, w, rc, _ in bad[:5]))


def reformat_invariance(ctx: Ctx) -> None:
    """(v) the verdict does not hang on layout: every module of the package is re-printed from its syntax tree (`ast.unparse`:
    comments gone, lines re-broken, quotes and parentheses normalised), the property's quick check is run on that copy, and the
    multiset of (rule, verdict) pairs must equal the one obtained on /repo.  A difference means some rule or known-finding key
    depends on text positions - an analysis error of the checker, never a verdict about /repo."""
    if os.environ.get('AIUTI_NO_SELFTEST'):
        return
    import json
    import shutil
    import tempfile
    from collections import Counter
    verif = os.path.dirname(os.path.dirname(os.path.abspath(__file__)))
    repo = os.environ.get('AIUTI_REPO', '/repo')
    d = tempfile.mkdtemp(prefix='aiuti-reformat-')
    try:
        shutil.copytree(os.path.join(repo, 'aiuti'), os.path.join(d, 'aiuti'), ignore=shutil.ignore_patterns('__pycache__'))
        n_mod = 0
        for root, _dirs, files in os.walk(os.path.join(d, 'aiuti')):
            for fn in files:
                if fn.endswith('.py'):
                    pth = os.path.join(root, fn)
                    src = open(pth, encoding='utf-8').read()
                    try:
                        out = ast.unparse(ast.parse(src)) + '\n'
                        compile(out, pth, 'exec')
                    except (SyntaxError, ValueError):
                        continue
                    open(pth, 'w', encoding='utf-8').write(out)
                    n_mod += 1
        evd = os.path.join(d, '_ev')
        env = dict(os.environ, AIUTI_REPO=d, AIUTI_EVIDENCE_DIR=evd, PYTHONPATH=verif, AIUTI_NO_SELFTEST='1')
        # (same tier as this run: some scan rules look at more modules in the thorough tier; the nested run skips (iii)-(v))
        r = subprocess.run([sys.executable, '-m', 'sa.check', ctx.prop] + (['--thorough'] if ctx.thorough else []), cwd=verif, env=env,
                           capture_output=True, text=True, timeout=600)
        there = Counter()
        try:
            ev = json.load(open(os.path.join(evd, f'{ctx.prop}.json')))
            for rid, row in (ev.get('coverage', {}).get('rules') or {}).items():
                there[rid] = row.get('instances', 0)
        except (OSError, ValueError):
            pass
        here = Counter({rid: sum(1 for o in ctx.obs if o.rule == rid) for rid in ctx.rule_text})
        diff = {rid: (here.get(rid, 0), there.get(rid, 0)) for rid in set(here) | set(there) if here.get(rid, 0) != there.get(rid, 0)
                and not rid.startswith(('SELFTEST', 'CORPORA', 'XCHECK', 'REFORMAT'))}
        ctx.extra['reformat_invariance'] = {'modules_reprinted': n_mod, 'exit_on_reprinted_copy': r.returncode,
                                            'rules_with_a_different_instance_count': diff}
        if r.returncode not in (0,) or diff:
            first = next((ln.strip() for ln in (r.stdout + r.stderr).splitlines() if 'violation rule=' in ln or ln.startswith('ANALYSIS-ERROR')), '')
            ctx.undecided('REFORMAT', f'verdict on a re-printed copy of the package for {ctx.prop}', 'sa/thorough.py',
                          f'exit {r.returncode} on the re-printed copy, instance counts differ for {sorted(diff)[:5]}: {first[:160]}')
    finally:
        shutil.rmtree(d, ignore_errors=True)


def extend(ctx: Ctx) -> None:
    crosscheck(ctx)
    selftest(ctx)
    corpora(ctx)
    reformat_invariance(ctx)
