"""Thorough tier (DESIGN 3.2): on top of the property's obligations
  (i)   bytecode cross-check of the CFG engine: units are *compiled, never
        executed*; for every function the set of suspension points found in the
        code object must equal the CFG's suspension nodes, and every try/with
        region must be backed by exception-table entries;
  (ii)  whole-package variants of scan rules are enabled through ctx.thorough
        inside the rule modules (C13, C19);
  (iii) the checker's own discrimination run for this property (seeded breaks
        must be reported, benign twins must stay silent) on scratch copies
        outside /repo and /verif.  It never changes the verdict on /repo; a
        rule that fails its own corpus is an ANALYSIS-ERROR.
"""
from __future__ import annotations

import ast
import dis
import os
import subprocess
import sys
from typing import Dict, List, Set, Tuple

from .cfg import build
from .core import Ctx, UNDECIDED
from .load import AnalysisError, Scope


def _code_objects(co, out):
    out.append(co)
    for c in co.co_consts:
        if hasattr(c, 'co_code'):
            _code_objects(c, out)


def bytecode_suspensions(code) -> Set[Tuple[int, int]]:
    out = set()
    for i in dis.get_instructions(code):
        if i.opname == 'YIELD_VALUE' and i.positions is not None and i.positions.lineno is not None:
            out.add((i.positions.lineno, i.positions.col_offset))
    return out


def cfg_suspensions(g) -> Set[Tuple[int, int]]:
    out = set()
    for n in g.nodes:
        if n.kind == 'inline_enter' and n.meta.get('awaited') and not n.meta.get('inlined') and n.meta.get('await_ast') is not None:
            # `await helper(...)` with the helper inlined: the await expression itself is the suspension point
            a = n.meta['await_ast']
            out.add((a.lineno, a.col_offset))
            continue
        if not n.suspends or n.meta.get('inlined'):
            continue
        if n.kind in ('await', 'yield'):
            out.add((n.ast.lineno, n.ast.col_offset))
        elif n.kind == 'for_iter':
            out.add((n.ast.lineno, n.ast.col_offset))
        elif n.kind in ('with_enter', 'with_exit'):
            st = n.meta['stmt']
            out.add((st.lineno, st.col_offset))
    return out


def crosscheck(ctx: Ctx) -> None:
    if sys.version_info[:2] != (3, 12):
        ctx.note(f'bytecode cross-check skipped: calibrated for CPython 3.12, running {sys.version_info[:2]}')
        return
    p = ctx.program
    checked = mismatches = regions = 0
    details = []
    for u in p.units.values():
        top = compile(u.src, u.path, 'exec')   # compiled, never executed
        codes: list = []
        _code_objects(top, codes)
        by_key: Dict[Tuple[str, int], object] = {}
        for c in codes:
            by_key[(c.co_name, c.co_firstlineno)] = c
        for f in u.functions():
            node = f.node
            if getattr(node, '_synthetic', False):
                continue      # nested function synthesized by the loader's normalisations: no code object of its own
            first = node.decorator_list[0].lineno if node.decorator_list else node.lineno
            c = by_key.get((node.name, first)) or by_key.get((node.name, node.lineno))
            if c is None:
                raise AnalysisError(f'no code object for {u.rel}:{f.qualname}')
            g = build(f, p)
            b = bytecode_suspensions(c)
            a = cfg_suspensions(g)
            checked += 1
            if a != b:
                mismatches += 1
                details.append(f'{u.rel}:{f.qualname}: cfg-only {sorted(a - b)} bytecode-only {sorted(b - a)}')
            # try/with regions must be backed by exception-table entries
            n_regions = sum(1 for x in ast.walk(node) if isinstance(x, (ast.Try, ast.With, ast.AsyncWith))
                            and p.units[u.rel].scope_of(x) is f)
            try:
                entries = dis._parse_exception_table(c)  # type: ignore[attr-defined]
            except Exception:  # pragma: no cover
                entries = None
            if entries is not None:
                regions += n_regions
                if n_regions and not entries:
                    mismatches += 1
                    details.append(f'{u.rel}:{f.qualname}: {n_regions} try/with regions but an empty exception table')
    ctx.extra['bytecode_crosscheck'] = {'functions': checked, 'mismatches': mismatches,
                                        'try_with_regions': regions, 'details': details[:10]}
    if mismatches:
        raise AnalysisError('CFG engine disagrees with the compiled bytecode: ' + '; '.join(details[:3]))


def selftest(ctx: Ctx) -> None:
    if os.environ.get('AIUTI_NO_SELFTEST'):
        ctx.note('self-test skipped (AIUTI_NO_SELFTEST set)')
        return
    verif = os.path.dirname(os.path.dirname(os.path.abspath(__file__)))
    env = dict(os.environ, PYTHONPATH=verif, AIUTI_NO_SELFTEST='1')
    env.pop('AIUTI_EVIDENCE_DIR', None)
    pr = subprocess.run([sys.executable, '-m', 'sa.selftest.run', ctx.prop, '--jobs', '16'], cwd=verif, env=env,
                        capture_output=True, text=True, timeout=1800)
    lines = pr.stdout.strip().splitlines()
    summary = lines[-1] if lines else ''
    fails = [ln for ln in lines if ln.startswith('FAIL')]
    skips = [ln for ln in lines if ln.startswith('SKIP')]
    ctx.extra['selftest'] = {'summary': summary, 'failures': fails, 'skipped': skips[:20],
                             'variants': [ln for ln in lines if ln.startswith('ok')][:200]}
    if pr.returncode != 0:
        ob = ctx.undecided('SELFTEST', f'checker self-validation for {ctx.prop}', 'sa/selftest/corpus.py',
                           '; '.join(fails[:3]) or pr.stderr[-300:])


def extend(ctx: Ctx) -> None:
    crosscheck(ctx)
    selftest(ctx)
