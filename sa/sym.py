"""Acyclic path enumeration and symbolic value provenance along a path
(DESIGN 2.4 'value provenance'): the expression a local name denotes at a
program point, with earlier single assignments substituted in."""
from __future__ import annotations

import ast
import copy
from typing import Callable, Dict, Iterable, List, Optional, Set, Tuple

from .cfg import CFG, Edge, Node
from .load import AnalysisError
from .paths import _step, flag_vars, Env

MAX_PATHS = 20000


def enum_paths(cfg: CFG, targets: Iterable[Node], sources: Optional[Iterable[Node]] = None,
               start_edges: Optional[Iterable[Edge]] = None,
               edge_ok: Optional[Callable[[Edge], bool]] = None,
               stop_at: Optional[Iterable[Node]] = None,
               flag_sensitive: bool = True, loop_once: bool = False) -> List[List[Edge]]:
    """All acyclic paths (no node repeated) from the sources / start edges to
    any target.  Paths do not continue through a target or a `stop_at` node.
    A path from a source given as node starts with its outgoing edges."""
    flags = flag_vars(cfg) if flag_sensitive else None
    tg = {t.id for t in targets}
    stops = {s.id for s in stop_at} if stop_at else set()
    out: List[List[Edge]] = []

    def dfs(node: Node, env: Env, on_path: Set[int], path: List[Edge]) -> None:
        if len(out) > MAX_PATHS:
            raise AnalysisError('path explosion in ' + cfg.scope.qualname)
        if node.id in tg and path:
            out.append(list(path))
            return
        if node.id in stops and path:
            return
        for e in cfg.succ[node.id]:
            if edge_ok is not None and not edge_ok(e):
                continue
            if e.dst.id in on_path:
                continue
            env2 = _step(cfg, flags, node, env, e)
            if env2 is None:
                continue
            on_path.add(e.dst.id)
            path.append(e)
            dfs(e.dst, env2, on_path, path)
            path.pop()
            on_path.discard(e.dst.id)

    if start_edges is not None:
        for e in start_edges:
            if edge_ok is not None and not edge_ok(e):
                continue
            env = _step(cfg, flags, e.src, (), e)
            if env is None:
                continue
            dfs(e.dst, env, {e.src.id, e.dst.id}, [e])
    else:
        for s in sources or []:
            dfs(s, (), {s.id}, [])
    return out


def clone(node):
    """Deep copy of an AST subtree without the `_parent` back-pointers."""
    if isinstance(node, list):
        return [clone(x) for x in node]
    if not isinstance(node, ast.AST):
        return node
    new = type(node)()
    for f, v in ast.iter_fields(node):
        setattr(new, f, clone(v))
    for a in ('lineno', 'col_offset', 'end_lineno', 'end_col_offset'):
        if hasattr(node, a):
            setattr(new, a, getattr(node, a))
    return new


class _Subst(ast.NodeTransformer):
    def __init__(self, env: Dict[str, ast.expr]):
        self.env = env

    def visit_Name(self, node: ast.Name):
        if isinstance(node.ctx, ast.Load) and node.id in self.env:
            return clone(self.env[node.id])
        return node

    def visit_Lambda(self, node):
        return node


def subst(expr: ast.expr, env: Dict[str, ast.expr]) -> ast.expr:
    return _Subst(env).visit(clone(expr))


class _Project(ast.NodeTransformer):
    def visit_Subscript(self, node: ast.Subscript):
        self.generic_visit(node)
        v, sl = node.value, node.slice
        if isinstance(v, ast.Tuple) and isinstance(sl, ast.Constant) and isinstance(sl.value, int) \
                and not isinstance(sl.value, bool) and -len(v.elts) <= sl.value < len(v.elts) \
                and not any(isinstance(e, ast.Starred) for e in v.elts):
            return v.elts[sl.value]
        return node


def simplify(expr: ast.expr) -> ast.expr:
    """Constant subscripts of tuple displays are projected: `(a, b)[1]` -> `b` (on a clone)."""
    return _Project().visit(clone(expr))


def opaque(name: str, line: int, why: str = '') -> ast.expr:
    return ast.Name(id=f'<{name}@{line}{":" + why if why else ""}>', ctx=ast.Load())


def is_opaque(e: ast.AST) -> bool:
    return isinstance(e, ast.Name) and e.id.startswith('<')


def expand_inlined(cfg: CFG, expr: ast.expr) -> ast.expr:
    """Replace calls of inlined single-return helpers by their return expression
    (parameters substituted by the call's arguments)."""
    iv = getattr(cfg, 'inline_values', None)
    if not iv:
        return expr

    class X(ast.NodeTransformer):
        def visit_Call(self, node):
            hit = iv.get(id(node))
            if hit is not None:
                rexpr, binding = hit
                return expand_inlined(cfg, subst(rexpr, {k: expand_inlined(cfg, v) for k, v in binding.items()}))
            self.generic_visit(node)
            return node
    hit = iv.get(id(expr))
    if hit is not None:
        rexpr, binding = hit
        return expand_inlined(cfg, subst(rexpr, {k: expand_inlined(cfg, v) for k, v in binding.items()}))
    # only copy when something below is inlined
    if not any(id(n) in iv for n in ast.walk(expr)):
        return expr
    # NodeTransformer mutates: work on the original node identities to find hits, then clone
    def rebuild(node):
        if isinstance(node, list):
            return [rebuild(x) for x in node]
        if not isinstance(node, ast.AST):
            return node
        h = iv.get(id(node))
        if h is not None:
            rexpr, binding = h
            return expand_inlined(cfg, subst(rexpr, {k: expand_inlined(cfg, v) for k, v in binding.items()}))
        new = type(node)()
        for f, v in ast.iter_fields(node):
            setattr(new, f, rebuild(v))
        for a in ('lineno', 'col_offset', 'end_lineno', 'end_col_offset'):
            if hasattr(node, a):
                setattr(new, a, getattr(node, a))
        return new
    return rebuild(expr)


def sym_env(cfg: CFG, path: List[Edge], init: Optional[Dict[str, ast.expr]] = None,
            upto: Optional[Node] = None, through_unpack: bool = False) -> Dict[str, ast.expr]:
    """Symbolic environment after walking *path* (stores of nodes on the path
    are applied in order, including the first edge's source, excluding the
    final node)."""
    env: Dict[str, ast.expr] = dict(init or {})
    nodes: List[Tuple[Node, Optional[Edge]]] = []
    if path:
        nodes.append((path[0].src, path[0]))
        for i, e in enumerate(path[:-1]):
            nodes.append((e.dst, path[i + 1]))
    for n, out_edge in nodes:
        if upto is not None and n is upto:
            break
        if out_edge is not None and out_edge.label == 'exc':
            continue
        if n.kind == 'store_name':
            v = n.meta.get('value')
            name = n.meta['name']
            st_ = n.meta.get('stmt')
            if isinstance(st_, ast.AugAssign) and isinstance(st_.target, ast.Name) and st_.target.id == name:
                # x op= e   ==   x = x op e
                left = env.get(name, ast.Name(id=name, ctx=ast.Load()))
                env[name] = ast.BinOp(left=clone(left), op=st_.op, right=subst(expand_inlined(cfg, st_.value), env))
                continue
            if v is None or (getattr(v, '_synth_unpack', False) and not through_unpack):
                # bound by unpacking / iteration: the name denotes itself
                env.pop(name, None)
            else:
                if n.meta.get('inlined_param') and isinstance(v, ast.Name) and v.id == name:
                    continue   # `x = x` binding of a helper parameter to the same-named variable
                env[name] = subst(expand_inlined(cfg, v), env)
        elif n.kind == 'del_name':
            env.pop(n.meta['name'], None)
    return env


def calls_in(expr: ast.AST) -> List[ast.Call]:
    return [n for n in ast.walk(expr) if isinstance(n, ast.Call)]


def call_name(cfg: CFG, call: ast.Call) -> Optional[str]:
    """Canonical dotted path of a call's callee (import aliases expanded)."""
    return cfg.res.path(call.func)


def find_calls(cfg: CFG, expr: ast.AST, canonical: str) -> List[ast.Call]:
    return [c for c in calls_in(expr) if call_name(cfg, c) == canonical]


def method_calls(expr: ast.AST, attr: str) -> List[ast.Call]:
    return [c for c in calls_in(expr)
            if isinstance(c.func, ast.Attribute) and c.func.attr == attr]
