"""Debug helper: python -m sa.dump <file> <qualname>"""
import sys
from .load import load
from .cfg import build
def main():
    p = load()
    sc = p.func(sys.argv[1], sys.argv[2])
    g = build(sc, p)
    for n in g.nodes:
        fl = ('S' if n.suspends else ' ')
        print(f'{n.id:3d}{fl} L{n.line:<4d} {n.kind:12s} {n.text()[:70]:70s}', ' '.join(
            f'{e.label}{":"+",".join(sorted(e.classes)) if e.classes else ""}>{e.dst.id}' for e in g.succ[n.id]))
    print(g.stats())
main()
