"""Small abstract interpreters (DESIGN 2.5).

`CounterInterp`: path-sensitive affine interpretation of the FileLock methods
over the state (CNT, DEPTH, LOCKED, locals), all integer quantities being
linear expressions a*c + b in the single symbol c = counter value on entry
(= depth of the thread lock held by the calling thread, by precondition).
"""
from __future__ import annotations

import ast
from fractions import Fraction
from typing import Callable, Dict, List, Optional, Set, Tuple

from .cfg import CFG, Edge, Node, build, callee_info
from .load import AnalysisError, Program, Scope


class Undecided(Exception):
    pass


class Lin:
    """a*c + b"""
    __slots__ = ('a', 'b')

    def __init__(self, a=0, b=0):
        self.a = Fraction(a)
        self.b = Fraction(b)

    def __add__(self, o): return Lin(self.a + o.a, self.b + o.b)
    def __sub__(self, o): return Lin(self.a - o.a, self.b - o.b)
    def __eq__(self, o): return isinstance(o, Lin) and self.a == o.a and self.b == o.b
    def __hash__(self): return hash((self.a, self.b))
    def is_const(self): return self.a == 0
    def at(self, c): return self.a * c + self.b

    def min_for(self, cmin) -> Optional[Fraction]:
        if self.a >= 0:
            return self.a * cmin + self.b
        return None  # unbounded below

    def __repr__(self):
        if self.a == 0:
            return str(self.b)
        s = 'c' if self.a == 1 else f'{self.a}*c'
        if self.b > 0:
            return f'{s}+{self.b}'
        if self.b < 0:
            return f'{s}{self.b}'
        return s


class State:
    def __init__(self, cmin=0):
        self.v: Dict[str, Lin] = {}
        self.locked: Optional[bool] = None
        self.cmin = cmin          # c >= cmin
        self.c_known: Optional[Fraction] = None
        self.facts: Dict[str, bool] = {}
        self.trace: List[str] = []
        self.effects: int = 0     # number of effect nodes executed
        self.os_released = False
        self.os_release_state: Optional[dict] = None

    def copy(self) -> 'State':
        s = State(self.cmin)
        s.v = dict(self.v)
        s.locked = self.locked
        s.c_known = self.c_known
        s.facts = dict(self.facts)
        s.trace = list(self.trace)
        s.effects = self.effects
        s.os_released = self.os_released
        s.os_release_state = self.os_release_state
        return s

    def fix_c(self, val: Fraction) -> bool:
        """c == val; False if inconsistent."""
        if val < self.cmin or val.denominator != 1:
            return False
        if self.c_known is not None:
            return self.c_known == val
        self.c_known = val
        for k, l in list(self.v.items()):
            self.v[k] = Lin(0, l.at(val))
        return True

    def key(self):
        return (tuple(sorted((k, (l.a, l.b)) for k, l in self.v.items() if k in ('CNT', 'DEPTH'))),
                self.locked, self.c_known)

    def describe(self) -> dict:
        return {'CNT': repr(self.v.get('CNT')), 'DEPTH': repr(self.v.get('DEPTH')),
                'LOCKED': self.locked, 'c': str(self.c_known) if self.c_known is not None else f'>={self.cmin}',
                'facts': dict(self.facts)}


class Outcome:
    def __init__(self, kind: str, state: State, node: Node, value=None, classes=None):
        self.kind = kind          # 'return' | 'raise'
        self.state = state
        self.node = node
        self.value = value        # ast of the returned expression
        self.classes = classes


class CounterInterp:
    """Roles: tl (attr name of the thread lock), cnt (counter attr), fd (descriptor attr)."""

    def __init__(self, program: Program, cls: Scope, tl: str, cnt: str, fd: str,
                 locked_props: Set[str], bool_params: Set[str] = frozenset()):
        self.program = program
        self.cls = cls
        self.tl, self.cnt, self.fd = tl, cnt, fd
        self.locked_props = locked_props
        self.max_paths = 5000
        self.paths = 0
        self.visited_calls: List[Tuple[str, dict]] = []
        self.unprotected: list = []     # counter updates executed without holding the thread lock
        self._asts: Dict[int, ast.AST] = {}
        self.surplus: list = []       # loops that release the thread lock more often than it is held
        self.call_states: Dict[int, List[State]] = {}

    # -- helpers ------------------------------------------------------------
    def _is_self_attr(self, e: ast.AST, attr: str) -> bool:
        return isinstance(e, ast.Attribute) and isinstance(e.value, ast.Name) and e.value.id == 'self' and e.attr == attr

    def _touches(self, scope: Scope, _seen=None) -> bool:
        """Does the function (transitively, within the class) touch CNT/TL/FD?"""
        _seen = _seen or set()
        if scope.qualname in _seen:
            return False
        _seen.add(scope.qualname)
        g = build(scope, self.program, inline_methods=True)
        for n in g.nodes:
            if n.ast is None:
                continue
            for x in ast.walk(n.ast) if n.kind in ('store_attr', 'call', 'unpack') else []:
                if isinstance(x, ast.Attribute) and isinstance(x.value, ast.Name) and x.value.id == 'self' \
                        and x.attr in (self.tl, self.cnt, self.fd):
                    if n.kind == 'store_attr' or (n.kind == 'call' and x.attr == self.tl) or n.kind == 'unpack':
                        return True
            if n.kind == 'call':
                info = n.meta.get('callee') or callee_info(g, n.ast)
                if info['kind'] == 'package':
                    for sc in info['scopes']:
                        if sc.kind == 'function' and not sc.is_async and self._touches(sc, _seen):
                            return True
        return False

    def eval_int(self, e: ast.AST, st: State, g: CFG) -> Optional[Lin]:
        if isinstance(e, ast.Constant) and isinstance(e.value, int) and not isinstance(e.value, bool):
            return Lin(0, e.value)
        if self._is_self_attr(e, self.cnt):
            return st.v.get('CNT')
        if isinstance(e, ast.Name):
            return st.v.get('L:' + e.id)
        if isinstance(e, ast.BinOp) and isinstance(e.op, (ast.Add, ast.Sub)):
            l, r = self.eval_int(e.left, st, g), self.eval_int(e.right, st, g)
            if l is None or r is None:
                return None
            return l + r if isinstance(e.op, ast.Add) else l - r
        if isinstance(e, ast.Call) and isinstance(e.func, ast.Name) and e.func.id == 'max' and len(e.args) == 2:
            a, b = self.eval_int(e.args[0], st, g), self.eval_int(e.args[1], st, g)
            if a is None or b is None:
                return None
            lo, hi = (a, b) if a.is_const() else (b, a)
            if not lo.is_const():
                return None
            # max(k, x): x if x >= k for all admissible c
            if st.c_known is not None:
                return Lin(0, max(lo.b, hi.at(st.c_known)))
            m = hi.min_for(st.cmin)
            if m is not None and m >= lo.b:
                return hi
            if hi.a > 0:
                # split needed: below/above the clamp; we handle the common
                # shape max(0, c + k) by case split on c
                import math
                raise _Split(math.ceil((Fraction(lo.b) - hi.b) / hi.a))
            return None
        if isinstance(e, ast.IfExp):
            dec = self.decide(e.test, st, g)
            if dec is None:
                return None
            return self.eval_int(e.body if dec else e.orelse, st, g)
        return None

    def decide(self, t: ast.AST, st: State, g: CFG) -> Optional[bool]:
        """Truth of a linear comparison for all admissible c, or a case split."""
        import math
        if not (isinstance(t, ast.Compare) and len(t.ops) == 1):
            return None
        l, r = self.eval_int(t.left, st, g), self.eval_int(t.comparators[0], st, g)
        if l is None or r is None:
            return None
        d = l - r
        op = t.ops[0]

        def holds(v: Fraction) -> Optional[bool]:
            if isinstance(op, ast.Gt): return v > 0
            if isinstance(op, ast.GtE): return v >= 0
            if isinstance(op, ast.Lt): return v < 0
            if isinstance(op, ast.LtE): return v <= 0
            if isinstance(op, ast.Eq): return v == 0
            if isinstance(op, ast.NotEq): return v != 0
            return None
        if st.c_known is not None:
            return holds(d.at(st.c_known))
        if d.is_const():
            return holds(d.b)
        if isinstance(op, (ast.Eq, ast.NotEq)):
            root = -d.b / d.a
            if root.denominator != 1 or root < st.cmin:
                return holds(Fraction(1))  # never zero for admissible c
            raise _Split(int(root) + 1)
        # monotone in c: the predicate flips at most once, at the root of d
        root = -d.b / d.a
        flip = math.floor(root) + 1          # first integer strictly beyond the root
        if root.denominator == 1:
            # at c == root the value is exactly 0: treat root itself as part of the 'below' cases
            flip = int(root) + 1
        if st.cmin >= flip:
            return holds(d.at(Fraction(st.cmin)))
        raise _Split(flip)

    # -- main ---------------------------------------------------------------
    def run(self, scope: Scope, st: State, depth: int = 0) -> List[Outcome]:
        g = build(scope, self.program, inline_methods=True)
        outs: List[Outcome] = []
        self._walk(g, g.entry, st, {}, outs, depth)
        return outs

    def _walk(self, g: CFG, node: Node, st: State, on_path: Dict[int, tuple], outs: List[Outcome],
              depth: int) -> None:
        self.paths += 1
        if self.paths > self.max_paths:
            raise Undecided('path explosion')
        # loop fixpoint check
        if node.id in on_path:
            seen_keys = on_path[node.id]
            if st.key() in seen_keys:
                return
            # the counters must be loop-invariant (no widening here); the finite part of the state (is the OS lock held, is c
            # known) may differ between the first and a later arrival - `while not self.is_locked: ... self._acquire()` comes
            # round with the lock taken - and is explored once per value
            if any(k[0] != st.key()[0] for k in seen_keys) or len(seen_keys) >= 6:
                raise Undecided(f'loop at {g.loc(node)} changes the abstract state: '
                                f'{sorted(seen_keys, key=repr)[0]} -> {st.key()}')
            on_path = dict(on_path)
            on_path[node.id] = seen_keys | {st.key()}
        else:
            on_path = dict(on_path)
            on_path[node.id] = frozenset([st.key()])
        if node is g.exit or node is g.raise_exit:
            return
        try:
            succs = self._transfer(g, node, st, depth)
        except _Split as sp:
            # case split on c: c >= c0 (symbolic)  vs  each concrete c in [cmin, c0)
            c0 = sp.t
            if c0 - st.cmin > 64:
                raise Undecided('case split too wide')
            results = []
            # case 1: c >= c0
            s1 = st.copy()
            s1.cmin = max(s1.cmin, c0)
            # case 2: c in [cmin, c0-1] -> enumerate concretely (small)
            cases = [s1]
            for cv in range(int(st.cmin), int(c0)):
                s2 = st.copy()
                if s2.fix_c(Fraction(cv)):
                    cases.append(s2)
            for s in cases:
                self._walk(g, node, s, {k: v for k, v in on_path.items() if k != node.id}, outs, depth)
            return
        for edge, st2 in succs:
            if edge.dst is g.exit:
                outs.append(Outcome('return', st2, node, getattr(node.ast, 'value', None) if node.kind == 'return' else None))
            elif edge.dst is g.raise_exit:
                outs.append(Outcome('raise', st2, node, classes=edge.classes))
            else:
                self._walk(g, edge.dst, st2, on_path, outs, depth)

    def _transfer(self, g: CFG, n: Node, st: State, depth: int) -> List[Tuple[Edge, State]]:
        succ = g.succ[n.id]
        normal = [e for e in succ if e.label != 'exc']
        exc = [e for e in succ if e.label == 'exc']
        k = n.kind

        def all_normal(s: State) -> List[Tuple[Edge, State]]:
            return [(e, s.copy()) for e in normal]

        if k == 'store_attr' and self._is_self_attr(n.ast, self.cnt):
            s = st.copy()
            d = s.v.get('DEPTH')
            if d is not None:
                dmin = d.at(s.c_known) if s.c_known is not None else d.min_for(s.cmin)
                if dmin is None or dmin <= 0:
                    self.unprotected.append((g, n, s.copy()))
            stmt = n.meta.get('stmt')
            if isinstance(stmt, ast.AugAssign):
                d = self.eval_int(stmt.value, s, g)
                if d is None or not isinstance(stmt.op, (ast.Add, ast.Sub)) or s.v.get('CNT') is None:
                    raise Undecided(f'counter update not understood at {g.loc(n)}')
                s.v['CNT'] = s.v['CNT'] + d if isinstance(stmt.op, ast.Add) else s.v['CNT'] - d
            else:
                v = self.eval_int(n.meta.get('value'), s, g)
                if v is None:
                    raise Undecided(f'counter assignment not understood at {g.loc(n)}: {ast.unparse(n.ast)}')
                s.v['CNT'] = v
            s.effects += 1
            s.trace.append(f'{g.loc(n)} CNT:={s.v["CNT"]!r}')
            return all_normal(s)
        if k == 'store_attr' and self._is_self_attr(n.ast, self.fd):
            s = st.copy()
            v = n.meta.get('value')
            s.locked = not (isinstance(v, ast.Constant) and v.value is None)
            if s.locked is False and isinstance(v, ast.Constant):
                pass
            s.effects += 1
            s.trace.append(f'{g.loc(n)} LOCKED:={s.locked}')
            return all_normal(s)
        if k == 'store_name':
            s = st.copy()
            stmt = n.meta.get('stmt')
            name = 'L:' + n.meta['name']
            if isinstance(stmt, ast.AugAssign):
                d = self.eval_int(stmt.value, s, g)
                cur = s.v.get(name)
                if d is not None and cur is not None and isinstance(stmt.op, (ast.Add, ast.Sub)):
                    s.v[name] = cur + d if isinstance(stmt.op, ast.Add) else cur - d
                else:
                    s.v.pop(name, None)
            else:
                v = n.meta.get('value')
                lv = self.eval_int(v, s, g) if v is not None else None
                if lv is not None:
                    s.v[name] = lv
                else:
                    s.v.pop(name, None)
                # boolean temporaries (`outermost = self._cnt == 0 or force`)
                bv = self.eval_bool(v, s, g) if v is not None else None
                if ('A:' + n.meta['name']) in s.facts:
                    bv = s.facts.pop('A:' + n.meta['name'])      # outcome of the TL.acquire(...) stored here
                s.facts.pop('D:' + n.meta['name'], None)
                # a named constant / literal stored in a local (`outcome = _Attempt.RETRY`): later identity / equality tests
                # against such constants are decided
                from .paths import const_key
                kk = const_key(v) if v is not None else None
                if kk is None and v is not None:
                    from .paths import sentinels as _sentinels
                    if isinstance(v, ast.Name) and v.id in _sentinels(g):
                        kk = 'S:' + v.id          # a private `object()` marker of the module
                    elif isinstance(v, ast.Call) and (g.res.path(v.func) or '').split('.')[0] in ('os', 'time', 'builtins', 'fcntl', 'msvcrt'):
                        kk = 'OTHER'              # what a library call returns is no marker of this module
                if kk is not None:
                    s.facts['K:' + n.meta['name']] = kk
                else:
                    s.facts.pop('K:' + n.meta['name'], None)
                if bv is not None:
                    s.facts['B:' + n.meta['name']] = bv
                else:
                    s.facts.pop('B:' + n.meta['name'], None)
                    # not decidable yet (`outermost = self._cnt == 0` needs a case split on the entry depth): remember
                    # the comparison; a later test of the name is a test of the comparison, as long as its operands
                    # still have the values they had here
                    if isinstance(v, ast.Compare) and len(v.ops) == 1:
                        l_, r_ = self.eval_int(v.left, s, g), self.eval_int(v.comparators[0], s, g)
                        if l_ is not None and r_ is not None:
                            self._asts[id(v)] = v
                            s.facts['D:' + n.meta['name']] = (id(v), repr(l_), repr(r_))
            return all_normal(s)
        if k in ('branch', 'assume'):
            return self._branch(g, n, st, normal)
        if k == 'for_iter':
            return self._for(g, n, st, normal, exc, depth)
        if k == 'loop_head' and isinstance(n.ast, ast.While):
            r_ = self._while_counted(g, n, st)
            if r_ is not None:
                return r_
        if k == 'call':
            return self._call(g, n, st, normal, exc, depth)
        if k == 'unpack':
            # swap-out idiom `fd, self.FD = self.FD, None` is handled by the
            # following store_attr (value None)
            return all_normal(st)
        if k == 'inline_enter':
            self.call_states.setdefault(id(n.ast), []).append(st.copy())
        # everything else: no effect on the tracked state; exceptional edges
        # are followed with the same state
        out = all_normal(st)
        for e in exc:
            s3 = st.copy()
            if n.meta.get('inlined_from'):
                s3.facts['raised:' + n.meta['inlined_from'].rsplit('.', 1)[-1]] = True
                s3.trace.append(f'{g.loc(n)} {n.meta["inlined_from"].rsplit(".", 1)[-1]}() raised {sorted(e.classes or [])}')
            out.append((e, s3))
        return out

    def eval_bool(self, e: ast.AST, st: State, g: CFG) -> Optional[bool]:
        if isinstance(e, ast.Constant) and isinstance(e.value, bool):
            return e.value
        if isinstance(e, ast.Name):
            if 'B:' + e.id in st.facts:
                return st.facts['B:' + e.id]
            return st.facts.get(e.id)
        if isinstance(e, ast.UnaryOp) and isinstance(e.op, ast.Not):
            v = self.eval_bool(e.operand, st, g)
            return None if v is None else not v
        if isinstance(e, ast.BoolOp):
            vals = [self.eval_bool(v, st, g) for v in e.values]
            if isinstance(e.op, ast.And):
                if any(v is False for v in vals):
                    return False
                return True if all(v is True for v in vals) else None
            if any(v is True for v in vals):
                return True
            return False if all(v is False for v in vals) else None
        if isinstance(e, ast.Compare):
            kc = self._const_compare(e, st, g)
            if kc is not None:
                return kc
            try:
                return self.decide(e, st, g)
            except _Split:
                return None
        if isinstance(e, ast.Attribute) and isinstance(e.value, ast.Name) and e.value.id == 'self' and e.attr in self.locked_props:
            return st.locked
        return None

    def _const_compare(self, t: ast.AST, st: State, g: Optional[CFG] = None) -> Optional[bool]:
        """`name is/==/is not/!= <named constant or literal>` for a local known to hold such a constant."""
        from .paths import const_key
        if not (isinstance(t, ast.Compare) and len(t.ops) == 1 and isinstance(t.ops[0], (ast.Is, ast.IsNot, ast.Eq, ast.NotEq))):
            return None
        a, b = t.left, t.comparators[0]
        for x, y in ((a, b), (b, a)):
            if isinstance(x, ast.Name) and ('K:' + x.id) in st.facts:
                k = const_key(y)
                if k is None and g is not None and isinstance(y, ast.Name):
                    from .paths import sentinels as _sentinels
                    if y.id in _sentinels(g):
                        k = 'S:' + y.id
                if k is not None:
                    same = st.facts['K:' + x.id] == k
                    return same if isinstance(t.ops[0], (ast.Is, ast.Eq)) else not same
        return None

    def _branch(self, g: CFG, n: Node, st: State, normal: List[Edge]) -> List[Tuple[Edge, State]]:
        t = n.meta['test']
        out: List[Tuple[Edge, State]] = []
        te = [e for e in normal if e.label == 'true']
        fe = [e for e in normal if e.label == 'false']
        kc = self._const_compare(t, st, g)
        if kc is not None:
            return [(e, st.copy()) for e in (te if kc else fe)]
        if isinstance(t, ast.Name) and 'B:' + t.id in st.facts:
            val = st.facts['B:' + t.id]
            return [(e, st.copy()) for e in (te if val else fe)]
        temp = None
        if isinstance(t, ast.Name) and 'D:' + t.id in st.facts:
            vid, lrep, rrep = st.facts['D:' + t.id]
            v = self._asts.get(vid)
            if v is not None:
                l_, r_ = self.eval_int(v.left, st, g), self.eval_int(v.comparators[0], st, g)
                if l_ is not None and r_ is not None and repr(l_) == lrep and repr(r_) == rrep:
                    temp, t = t.id, v
        if temp is not None:
            res = self._branch_on(g, n, st, t, te, fe)
            for e, s_ in res:
                s_.facts['B:' + temp] = (e.label == 'true')
                s_.facts.pop('D:' + temp, None)
            return res
        return self._branch_on(g, n, st, t, te, fe)

    def _branch_on(self, g: CFG, n: Node, st: State, t: ast.AST, te: List[Edge], fe: List[Edge]) -> List[Tuple[Edge, State]]:
        out: List[Tuple[Edge, State]] = []
        # self.<locked property> / self.FD is (not) None
        locked_test = None
        if isinstance(t, ast.Attribute) and isinstance(t.value, ast.Name) and t.value.id == 'self' \
                and t.attr in self.locked_props:
            locked_test = True
        if isinstance(t, ast.Compare) and len(t.ops) == 1 and self._is_self_attr(t.left, self.fd) \
                and isinstance(t.comparators[0], ast.Constant) and t.comparators[0].value is None:
            locked_test = isinstance(t.ops[0], ast.IsNot)
        if locked_test is not None:
            for edges, val in ((te, locked_test), (fe, not locked_test)):
                if st.locked is not None and st.locked != val:
                    continue
                for e in edges:
                    s = st.copy()
                    s.locked = val
                    out.append((e, s))
            return out
        # TL.acquire(...) as a test
        if isinstance(t, ast.Call) and isinstance(t.func, ast.Attribute) and t.func.attr == 'acquire' \
                and self._is_self_attr(t.func.value, self.tl):
            for e in te:
                s = st.copy()
                # what was read from the shared state *before* the thread lock was obtained is stale now,
                # unless this thread already held the lock (re-entrant inner acquire: c >= 1)
                dmin = s.v['DEPTH'].at(s.c_known) if s.c_known is not None else s.v['DEPTH'].min_for(s.cmin)
                if s.locked is not None and (dmin is None or dmin <= 0):
                    s.trace.append(f'{g.loc(n)} LOCKED={s.locked} was read without the thread lock: forgotten')
                    s.locked = None
                s.v['DEPTH'] = s.v['DEPTH'] + Lin(0, 1)
                s.effects += 1
                s.trace.append(f'{g.loc(n)} TL.acquire succeeded DEPTH:={s.v["DEPTH"]!r}')
                out.append((e, s))
            for e in fe:
                s = st.copy()
                s.trace.append(f'{g.loc(n)} TL.acquire failed')
                out.append((e, s))
            return out
        # integer comparison on tracked values
        if isinstance(t, ast.Compare) and len(t.ops) == 1:
            l = self.eval_int(t.left, st, g)
            r = self.eval_int(t.comparators[0], st, g)
            if l is not None and r is not None and isinstance(t.ops[0], (ast.Eq, ast.NotEq)):
                d = l - r
                eq_edges, ne_edges = (te, fe) if isinstance(t.ops[0], ast.Eq) else (fe, te)
                if d.is_const():
                    for e in (eq_edges if d.b == 0 else ne_edges):
                        out.append((e, st.copy()))
                    return out
                # a*c + b == 0  => c = -b/a
                cval = -d.b / d.a
                s = st.copy()
                if s.fix_c(cval):
                    for e in eq_edges:
                        out.append((e, s.copy()))
                for e in ne_edges:
                    s2 = st.copy()
                    # c != cval: if cval == cmin we may raise the bound
                    if cval == s2.cmin:
                        s2.cmin = s2.cmin + 1
                    out.append((e, s2))
                return out
            if l is not None and r is not None and isinstance(t.ops[0], (ast.Lt, ast.LtE, ast.Gt, ast.GtE)):
                # a linear inequality over the tracked values: decided for all admissible c (or a case split on c)
                dec = self.decide(t, st, g)
                if dec is not None:
                    return [(e, st.copy()) for e in (te if dec else fe)]
        # boolean parameter / anything else: both edges, remember the fact
        name = ast.unparse(t)
        for e in te + fe:
            s = st.copy()
            prev = s.facts.get(name)
            val = (e.label == 'true')
            if prev is not None and prev != val:
                continue  # same test decided differently earlier on this path
            s.facts[name] = val
            out.append((e, s))
        return out

    def _for(self, g: CFG, n: Node, st: State, normal, exc, depth) -> List[Tuple[Edge, State]]:
        it = n.ast.iter  # type: ignore[union-attr]
        te = [e for e in normal if e.label == 'true']
        fe = [e for e in normal if e.label == 'false']
        # does the loop body touch the tracked state?
        body_nodes = self._loop_body(g, n)
        touches = [b for b in body_nodes if b.kind == 'call' and isinstance(b.ast.func, ast.Attribute)
                   and self._is_self_attr(b.ast.func.value, self.tl)]
        if not touches and not any(b.kind == 'store_attr' for b in body_nodes):
            out = [(e, st.copy()) for e in fe]
            # body has no effect: skip it (also covers zero iterations)
            return out
        n_expr = None
        if isinstance(it, ast.Call) and not it.keywords and not any(isinstance(a, ast.Starred) for a in it.args):
            fp = g.res.path(it.func)
            if fp in ('range', 'builtins.range') and len(it.args) == 1:
                n_expr = it.args[0]
            elif fp == 'itertools.repeat' and len(it.args) == 2:
                n_expr = it.args[1]          # repeat(x, n) yields n times (none for n <= 0), like range(n)
        if n_expr is None:
            raise Undecided(f'loop over {ast.unparse(it)} changes the lock state; only range(<linear>) / repeat(x, <linear>) is understood')
        count = self.eval_int(n_expr, st, g)
        if count is None:
            raise Undecided(f'iteration count {ast.unparse(n_expr)} is not a linear expression of the counter')
        return self._release_n_times(g, n, st, count, touches, body_nodes, fe)

    def _release_n_times(self, g: CFG, n: Node, st: State, count: Lin, touches, body_nodes, fe,
                         counter_var: Optional[str] = None) -> List[Tuple[Edge, State]]:
        """Summary of a loop whose body is exactly one TL.release() per iteration, executed *count* times."""
        # body must be: exactly TL.release() calls (k per iteration) and nothing else tracked
        rel = [b for b in touches if b.ast.func.attr == 'release']
        if len(rel) != len(touches) or len(rel) != 1 or any(b.kind == 'store_attr' and (
                self._is_self_attr(b.ast, self.cnt) or self._is_self_attr(b.ast, self.fd)) for b in body_nodes):
            raise Undecided('loop body not understood')
        s = st.copy()
        if s.c_known is not None:
            cnt_val = count.at(s.c_known)
            count = Lin(0, cnt_val)
        cmin_count = count.min_for(s.cmin)
        if cmin_count is None or cmin_count < 0:
            raise Undecided('iteration count may be negative')
        final = s.v['DEPTH'] - count
        out: List[Tuple[Edge, State]] = []
        fmin = final.min_for(s.cmin) if s.c_known is None else final.at(s.c_known)
        s.v['DEPTH'] = final
        if counter_var is not None:
            s.v[counter_var] = Lin(0, 0)
        s.effects += 1
        s.trace.append(f'{g.loc(n)} TL.release x {count!r} DEPTH:={final!r}')
        if final.is_const() and final.b < 0 or (s.c_known is None and final.a == 0 and final.b < 0):
            # more releases than levels held, whatever the entry depth
            self.surplus.append((g, n, st.copy(), count, final))
        if fmin is None or fmin < 0:
            # some release happens on an unheld lock: RuntimeError edge of the release
            relnode = rel[0]
            for e in g.succ[relnode.id]:
                if e.label == 'exc':
                    s3 = st.copy()
                    # depth ends at 0 (cannot go below), remaining iterations skipped
                    s3.v['DEPTH'] = Lin(0, 0)
                    s3.trace.append(f'{g.loc(n)} TL.release raised RuntimeError (lock not held) after releasing all held levels')
                    s3.facts['release-raised'] = True
                    out.append((e, s3))
            if fmin is not None and final.is_const() and final.b < 0:
                return out   # the normal exit is infeasible
        for e in fe:
            out.append((e, s.copy()))
        return out

    def _while_counted(self, g: CFG, n: Node, st: State) -> Optional[List[Tuple[Edge, State]]]:
        """`while k > 0: TL.release(); k -= 1` (k a linear local) is `for _ in range(k)`.  None if the loop
        is not of that shape (it is then walked node by node)."""
        w = n.ast
        t = w.test
        var = None
        if isinstance(t, ast.Name):
            var = t.id
        elif isinstance(t, ast.Compare) and len(t.ops) == 1:
            l, r, op = t.left, t.comparators[0], t.ops[0]
            def const(e, v):
                return isinstance(e, ast.Constant) and e.value == v and not isinstance(e.value, bool)
            if isinstance(l, ast.Name) and ((isinstance(op, ast.Gt) and const(r, 0)) or (isinstance(op, ast.GtE) and const(r, 1))
                                            or (isinstance(op, ast.NotEq) and const(r, 0))):
                var = l.id
            elif isinstance(r, ast.Name) and ((isinstance(op, ast.Lt) and const(l, 0)) or (isinstance(op, ast.LtE) and const(l, 1))):
                var = r.id
        if var is None or w.orelse:
            return None
        count = st.v.get('L:' + var)
        if count is None:
            return None
        branches = [b for b in g.nodes if b.kind == 'branch' and b.meta['test'] is t]
        if len(branches) != 1:
            return None
        body_nodes = self._loop_body(g, n, start=branches[0])
        touches = [b for b in body_nodes if b.kind == 'call' and isinstance(b.ast.func, ast.Attribute)
                   and self._is_self_attr(b.ast.func.value, self.tl)]
        if not touches:
            return None
        # the counter goes down by exactly one per iteration, nothing else writes it, no break/continue/return
        writes = [b for b in body_nodes if b.kind == 'store_name' and b.meta['name'] == var]
        if len(writes) != 1:
            return None
        st_ = writes[0].meta.get('stmt')
        dec = isinstance(st_, ast.AugAssign) and isinstance(st_.op, ast.Sub) and isinstance(st_.value, ast.Constant) and st_.value.value == 1
        if not dec and isinstance(st_, ast.Assign):
            v = st_.value
            dec = isinstance(v, ast.BinOp) and isinstance(v.op, ast.Sub) and isinstance(v.left, ast.Name) and v.left.id == var \
                and isinstance(v.right, ast.Constant) and v.right.value == 1
        if not dec:
            return None
        if any(isinstance(x, (ast.Break, ast.Continue, ast.Return)) for st2 in w.body for x in ast.walk(st2)):
            return None
        # false edges of the test leave the loop
        fe = [e for e in g.succ[branches[0].id] if e.label == 'false']
        return self._release_n_times(g, n, st, count, touches, body_nodes, fe, counter_var='L:' + var)

    def _loop_body(self, g: CFG, head: Node, start: Optional[Node] = None) -> List[Node]:
        body = []
        seen = set()
        stack = [e.dst for e in g.succ[(start or head).id] if e.label == 'true']
        while stack:
            x = stack.pop()
            if x.id in seen or x is head:
                continue
            if head.ast not in x.loops:
                continue
            seen.add(x.id)
            body.append(x)
            stack.extend(e.dst for e in g.succ[x.id])
        return body

    def _call(self, g: CFG, n: Node, st: State, normal, exc, depth) -> List[Tuple[Edge, State]]:
        call = n.ast
        f = call.func
        out: List[Tuple[Edge, State]] = []
        if isinstance(f, ast.Attribute) and self._is_self_attr(f.value, self.tl):
            if f.attr == 'release':
                d = st.v['DEPTH']
                dmin = d.at(st.c_known) if st.c_known is not None else d.min_for(st.cmin)
                can_raise = dmin is None or dmin <= 0
                can_succeed = not (d.is_const() and d.b <= 0)
                if can_succeed:
                    s = st.copy()
                    if can_raise and s.c_known is None and d.a > 0:
                        # success needs depth >= 1
                        import math
                        need = math.ceil((1 - d.b) / d.a)
                        s.cmin = max(s.cmin, need)
                    s.v['DEPTH'] = d - Lin(0, 1)
                    s.effects += 1
                    s.trace.append(f'{g.loc(n)} TL.release DEPTH:={s.v["DEPTH"]!r}')
                    out += [(e, s.copy()) for e in normal]
                if can_raise:
                    for e in exc:
                        s = st.copy()
                        s.trace.append(f'{g.loc(n)} TL.release raised (not held)')
                        out.append((e, s))
                return out
            if f.attr == 'acquire':
                # result tested by the following branch node (same AST) or dropped
                nxt = [e.dst for e in normal]
                # (an acquire that raises - a timeout the lock refuses - has acquired nothing: the state travels on unchanged)
                raised_ = []
                for e in exc:
                    sx = st.copy()
                    sx.trace.append(f'{g.loc(n)} TL.acquire raised {sorted(e.classes or [])} (nothing acquired)')
                    raised_.append((e, sx))
                if all(x.kind == 'branch' and x.meta['test'] is call for x in nxt):
                    return [(e, st.copy()) for e in normal] + raised_
                if not call.args and not call.keywords:
                    s = st.copy()
                    s.v['DEPTH'] = s.v['DEPTH'] + Lin(0, 1)
                    s.effects += 1
                    return [(e, s.copy()) for e in normal]
                # `got = TL.acquire(b, t)` ... `if not got:`: the result is kept in a flag; both outcomes are followed
                # and the flag's value remembered (the store that follows keeps it)
                par_ = getattr(call, '_parent', None)
                tgt_ = None
                if isinstance(par_, ast.Assign) and len(par_.targets) == 1 and isinstance(par_.targets[0], ast.Name):
                    tgt_ = par_.targets[0].id
                elif isinstance(par_, ast.AnnAssign) and isinstance(par_.target, ast.Name):
                    tgt_ = par_.target.id
                if tgt_ is not None:
                    res_ = []
                    s1 = st.copy()
                    dmin = s1.v['DEPTH'].at(s1.c_known) if s1.c_known is not None else s1.v['DEPTH'].min_for(s1.cmin)
                    if s1.locked is not None and (dmin is None or dmin <= 0):
                        s1.trace.append(f'{g.loc(n)} LOCKED={s1.locked} was read without the thread lock: forgotten')
                        s1.locked = None
                    s1.v['DEPTH'] = s1.v['DEPTH'] + Lin(0, 1)
                    s1.effects += 1
                    s1.facts['A:' + tgt_] = True
                    s1.trace.append(f'{g.loc(n)} TL.acquire succeeded DEPTH:={s1.v["DEPTH"]!r} ({tgt_}=True)')
                    s2 = st.copy()
                    s2.facts['A:' + tgt_] = False
                    s2.trace.append(f'{g.loc(n)} TL.acquire failed ({tgt_}=False)')
                    for e in normal:
                        res_.append((e, s1.copy()))
                        res_.append((e, s2.copy()))
                    return res_ + raised_
                raise Undecided(f'result of TL.acquire(...) is not tested at {g.loc(n)}')
        info = n.meta.get('callee') or callee_info(g, call)
        if info['kind'] == 'package' and depth < 4:
            scopes = [sc for sc in info['scopes'] if sc.kind == 'function' and not sc.is_async and not sc.is_generator]
            if scopes and any(self._touches(sc) for sc in scopes):
                self.call_states.setdefault(id(call), []).append(st.copy())
                for sc in scopes:
                    if not self._touches(sc):
                        out += [(e, st.copy()) for e in normal]
                        continue
                    for oc in self.run(sc, st.copy(), depth + 1):
                        if oc.kind == 'return':
                            out += [(e, oc.state.copy()) for e in normal]
                        else:
                            for e in exc:
                                if e.classes is None or not oc.classes or (set(e.classes) & set(oc.classes)):
                                    s3 = oc.state.copy()
                                    s3.facts['raised:' + sc.name] = True
                                    s3.trace.append(f'{g.loc(n)} {sc.name}() raised {sorted(oc.classes or [])}')
                                    out.append((e, s3))
                return _dedup(out)
        out = [(e, st.copy()) for e in normal]
        for e in exc:
            out.append((e, st.copy()))
        return out


class _Split(Exception):
    def __init__(self, t: int):
        self.t = int(t)


def _dedup(lst: List[Tuple[Edge, State]]) -> List[Tuple[Edge, State]]:
    seen = set()
    out = []
    for e, s in lst:
        k = (id(e), s.key(), tuple(sorted(s.facts.items())))
        if k in seen:
            continue
        seen.add(k)
        out.append((e, s))
    return out
