"""Obligations, verdicts, evidence and known-findings handling (DESIGN 3)."""
from __future__ import annotations

import ast
import json
import os
import re
import time
from typing import Any, Callable, Dict, List, Optional

from .load import AnalysisError, Program, Scope

VERIF = os.path.dirname(os.path.dirname(os.path.abspath(__file__)))
EVIDENCE_DIR = os.environ.get('AIUTI_EVIDENCE_DIR') or os.path.join(VERIF, 'evidence')
KNOWN_FINDINGS = os.path.join(VERIF, 'known_findings.json')

HOLDS, VIOLATION, UNDECIDED, NOTE = 'HOLDS', 'VIOLATION', 'UNDECIDED', 'NOTE'


def norm(node: Any) -> str:
    """Normalised source text of an AST node (no positions, no formatting)."""
    if isinstance(node, str):
        return re.sub(r'\s+', ' ', node).strip()
    try:
        return re.sub(r'\s+', ' ', ast.unparse(node)).strip()
    except Exception:  # pragma: no cover
        return type(node).__name__


class Ob:
    """One obligation instance and its verdict."""

    def __init__(self, prop: str, rule: str, instance: str, verdict: str, where: str,
                 detail: str = '', witness: Optional[List[str]] = None, examined: int = 1,
                 construct: str = ''):
        self.prop = prop
        self.rule = rule
        self.instance = instance
        self.verdict = verdict
        self.where = where
        self.detail = detail
        self.witness = witness or []
        self.examined = examined
        self.construct = construct or instance
        self.known: Optional[dict] = None

    def as_dict(self) -> dict:
        d = {'rule': self.rule, 'instance': self.instance, 'verdict': self.verdict,
             'where': self.where, 'examined': self.examined}
        if self.detail:
            d['detail'] = self.detail
        if self.witness:
            d['witness'] = self.witness
        if self.known:
            d['known_finding'] = self.known.get('what')
        return d


class Ctx:
    """Collector handed to every property's rule function."""

    def __init__(self, prop: str, program: Program, thorough: bool = False):
        self.prop = prop
        self.program = program
        self.thorough = thorough
        self.obs: List[Ob] = []
        self.notes: List[str] = []
        self.minimums: Dict[str, int] = {}
        self.rule_text: Dict[str, str] = {}
        self.extra: Dict[str, Any] = {}
        self.assumptions: List[str] = []
        self.trusted: List[str] = []

    # -- recording ------------------------------------------------------------
    def rule(self, rule: str, text: str, minimum: int = 1) -> None:
        self.rule_text[rule] = text
        self.minimums[rule] = minimum

    def _add(self, rule: str, instance: str, verdict: str, where: str, detail: str,
             witness, examined: int, construct: str) -> Ob:
        ob = Ob(self.prop, rule, instance, verdict, where, detail, witness, examined, construct)
        self.obs.append(ob)
        return ob

    def holds(self, rule, instance, where, detail='', examined=1) -> Ob:
        return self._add(rule, instance, HOLDS, where, detail, None, examined, '')

    def violation(self, rule, instance, where, detail='', witness=None, construct='', examined=1) -> Ob:
        return self._add(rule, instance, VIOLATION, where, detail, witness, examined, construct)

    def undecided(self, rule, instance, where, detail='') -> Ob:
        return self._add(rule, instance, UNDECIDED, where, detail, None, 0, '')

    def note(self, text: str) -> None:
        self.notes.append(text)

    def check(self, rule, instance, where, ok: bool, detail_ok='', detail_bad='', witness=None,
              construct='', examined=1) -> bool:
        if ok:
            self.holds(rule, instance, where, detail_ok, examined)
        else:
            self.violation(rule, instance, where, detail_bad, witness, construct, examined)
        return ok

    def adopt(self, fn, rules, as_rule: str, why: str) -> None:
        """Evaluate another property's rule function and adopt some of its
        obligations under *as_rule* (shared obligations, DESIGN 4: e.g. C04's
        'keys are unique within a batch' is discharged by C11-R1/R2/R4)."""
        sub = Ctx(self.prop, self.program, self.thorough)
        fn(sub)
        for ob in sub.obs:
            if ob.rule in rules:
                o = Ob(self.prop, as_rule, f'[{ob.rule}] {ob.instance}', ob.verdict, ob.where,
                       (why + ': ' + ob.detail) if ob.detail else why, ob.witness, ob.examined,
                       ob.construct if ob.verdict == VIOLATION else '')
                self.obs.append(o)

    # -- subjects ----------------------------------------------------------------
    def func(self, rel: str, qualname: str) -> Scope:
        return self.program.func(rel, qualname)


def norm_locals(node: Any, scope, cfg=None) -> str:
    """Normalised text of an AST node with the local variable names of *scope*
    (and of its nested functions) replaced by `_`: keys built from it survive
    renaming of locals.  With a *cfg* the locals / parameters of the helpers inlined into it count as well."""
    import copy
    if not isinstance(node, ast.AST):
        return norm(node)
    names = set(getattr(scope, 'locals', ()))
    if cfg is not None:
        names |= {n.meta['name'] for n in cfg.nodes if n.kind == 'store_name'}
    for ch in getattr(scope, 'children', []):
        names |= set(getattr(ch, 'locals', ()))
    names -= {'self', 'cls'}

    def rebuild(n):
        if isinstance(n, list):
            return [rebuild(x) for x in n]
        if not isinstance(n, ast.AST):
            return n
        if isinstance(n, ast.Name) and n.id in names:
            return ast.Name(id='_', ctx=n.ctx)
        new = type(n)()
        for f, v in ast.iter_fields(n):
            setattr(new, f, rebuild(v))
        return new
    return norm(rebuild(node))


def construct_key(scope_qualname: str, *nodes: Any) -> str:
    return scope_qualname + ' :: ' + ' ; '.join(norm(n) for n in nodes)


def load_known() -> List[dict]:
    if not os.path.exists(KNOWN_FINDINGS):
        return []
    with open(KNOWN_FINDINGS) as f:
        return json.load(f)['findings']


def finalize(ctx: Ctx, tier: str, seed: int, t0: float, level_text: str,
             explanation: str) -> int:
    """Apply minimum instance counts and known findings, write evidence, print
    the verdict lines, return the exit code."""
    prop = ctx.prop
    # minimum instance counts: a rule matching fewer sites than confirmed by
    # hand is an analysis error (it would pass vacuously)
    counts: Dict[str, int] = {}
    for ob in ctx.obs:
        counts[ob.rule] = counts.get(ob.rule, 0) + 1
    errors: List[str] = []
    for rule, minimum in ctx.minimums.items():
        if counts.get(rule, 0) < minimum:
            errors.append(f'rule={rule} reason=matched {counts.get(rule, 0)} instance(s), '
                          f'confirmed minimum is {minimum}')
    for ob in ctx.obs:
        if ob.verdict == UNDECIDED:
            errors.append(f'rule={ob.rule} reason=undecided at {ob.where}: {ob.instance}: {ob.detail}')
    known = [k for k in load_known() if k.get('property') == prop]
    open_known = [k for k in known if k.get('status') == 'known']
    new_violations: List[Ob] = []
    matched_known: List[dict] = []
    for ob in ctx.obs:
        if ob.verdict != VIOLATION:
            continue
        hit = None
        for k in open_known:
            if k['rule'] == ob.rule and k['construct'] == ob.construct:
                hit = k
                break
        if hit is not None:
            ob.known = hit
            if hit not in matched_known:
                matched_known.append(hit)
        else:
            new_violations.append(ob)
    os.makedirs(EVIDENCE_DIR, exist_ok=True)
    replay_dir = os.path.join(EVIDENCE_DIR, 'replay')
    replays = []
    if new_violations:
        os.makedirs(replay_dir, exist_ok=True)
    for i, ob in enumerate(new_violations):
        rp = os.path.join(replay_dir, f'{prop}-{ob.rule}-{i}.json')
        with open(rp, 'w') as f:
            json.dump({'property': prop, **ob.as_dict(), 'construct': ob.construct}, f, indent=1)
        replays.append(rp)

    n_obl = len([o for o in ctx.obs if o.verdict in (HOLDS, VIOLATION)])
    n_ok = len([o for o in ctx.obs if o.verdict == HOLDS])
    nontrivial = len({(o.rule, o.instance) for o in ctx.obs
                      if o.verdict in (HOLDS, VIOLATION) and o.examined >= 1})
    inv = ctx.program.inventory()
    coverage = {
        'explanation': explanation,
        'obligations': n_obl,
        'discharged': n_ok,
        'evaluations': sum(max(1, o.examined) for o in ctx.obs if o.verdict in (HOLDS, VIOLATION)),
        'distinct_nontrivial': nontrivial,
        'rule': ('one evaluation = one path/site examined for one obligation instance; an instance '
                 'is non-trivial if the rule found its subject and examined >= 1 real path or site '
                 'of /repo (instances are distinct by (rule, construct))'),
        'samples': [o.as_dict() for o in ctx.obs][:80],
        'rules': {r: {'text': t, 'instances': counts.get(r, 0), 'minimum': ctx.minimums.get(r, 0)}
                  for r, t in ctx.rule_text.items()},
        'known_findings_matched': [k['what'] for k in matched_known],
        'notes': ctx.notes,
        'units': inv['units'],
        'excluded_units': inv['excluded'],
        'trusted_base': ctx.trusted,
        'exhaustive': True,
        'checker_cmd': f'/venv/bin/python -m sa.check {prop}' + (' --thorough' if tier == 'thorough' else ''),
        'analysis_errors': errors,
    }
    try:
        from .cfg import default_model, _cfg_cache
        rm = default_model(ctx.program)
        coverage['raise_model'] = {'table_hits': dict(sorted(rm.table_hits.items())),
                                   'unknown_callees_treated_as_total': dict(sorted(rm.unknown_callees.items())),
                                   'package_summaries': {f'{k[0]}:{k[1]}': {'escaping': sorted(v[0]), 'may_suspend': v[1]}
                                                         for k, v in sorted(rm._summaries.items())}}
        coverage['cfgs_built'] = {'functions': len(_cfg_cache),
                                  'nodes': sum(len(g.nodes) for g in _cfg_cache.values()),
                                  'edges': sum(sum(len(v) for v in g.succ.values()) for g in _cfg_cache.values())}
    except Exception:  # pragma: no cover
        pass
    # what the loader rewrote before anything was analysed (DESIGN 9.10 ff.): the counts of this run, per module
    NORMALISATIONS = ('matches_desugared', 'casts_dropped', 'calls_to_comps', 'empty_subclasses', 'identity_conversions', 'chains_split',
                      'assertion_raises', 'trivial_methods', 'negations_folded', 'call_spellings', 'none_fields_folded', 'condition_generators', 'records_scalarized', 'record_methods', 'reraise_handlers', 'flags_from_try', 'sentinel_lookups', 'cm_aliases', 'constant_choices', 'two_valued_props', 'seams_inlined', 'two_valued',
                      'nt_rewrites', 'tuple_splits', 'deobjectified', 'loops_to_comps', 'loops_to_map', 'renamed_defs', 'nested_helpers',
                      'projected', 'annotations_dropped', 'drains', 'exception_tuples', 'folded_defaults', 'module_partials',
                      'constants_inlined', 'forward_substituted', 'alias_rewrites')
    norm_counts = {}
    for rel_, u_ in ctx.program.units.items():
        row = {}
        for k_ in NORMALISATIONS:
            v_ = getattr(u_, k_, 0)
            v_ = len(v_) if isinstance(v_, (list, tuple, set, dict)) else v_
            if isinstance(v_, bool):
                v_ = int(v_)
            if isinstance(v_, int) and v_:
                row[k_] = v_
        if row:
            norm_counts[rel_] = row
    coverage['load_time_normalisations'] = norm_counts
    coverage.update(ctx.extra)
    ev = {
        'property_id': prop, 'tier': tier, 'seed': seed, 'level': 'other',
        'coverage': coverage,
        'assumptions': ctx.assumptions + ['assert statements of the analysed code hold: neither their failing edge nor an exception out of evaluating their test is followed (DESIGN 2.2)'],
        'wall_s': round(time.time() - t0, 3),
        'violations': len(new_violations),
    }
    with open(os.path.join(EVIDENCE_DIR, f'{prop}.json'), 'w') as f:
        json.dump(ev, f, indent=1, default=str)

    for k in matched_known:
        print(f'KNOWN-FINDING: property={prop} {k["what"]}')
    for ob in ctx.obs:
        if ob.verdict == VIOLATION and ob.known is None:
            print(f'  violation rule={ob.rule} at {ob.where}: {ob.instance}: {ob.detail}')
            for w in ob.witness:
                print('      ' + w)
    for rp in replays:
        print(f'VIOLATION property={prop} replay={rp}')
    for e in errors:
        print(f'ANALYSIS-ERROR property={prop} {e}')
    print(f'{prop}: {n_ok}/{n_obl} obligations hold, {len(matched_known)} known finding(s), '
          f'{len(new_violations)} new violation(s), {len(errors)} analysis error(s) '
          f'[{tier}, {ev["wall_s"]}s]')
    if new_violations:
        return 1
    if errors:
        return 2
    return 0
