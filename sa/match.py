"""Shape-insensitive matchers shared by the rule modules."""
from __future__ import annotations

import ast
from typing import Callable, Dict, List, Optional, Tuple

from .cfg import CFG, Edge, Node
from .dataflow import resolve


def table_lookups(cfg: CFG, is_table: Callable[[ast.AST], bool]):
    """Lookups of a mapping in any of the equivalent forms

        try: x = T[k]  except KeyError: <miss>          (subscript; miss = the KeyError edge)
        x = T.get(k);  if x is None: <miss>             (get + None / truthiness test)
        if k in T: <hit>  else: <miss>                   (membership test)

    Returns (lookup nodes, miss edges, hit edges, key expressions)."""
    g = cfg
    nodes: List[Node] = []
    miss: List[Edge] = []
    hit: List[Edge] = []
    keys: List[ast.AST] = []
    for n in g.nodes:
        if n.kind == 'load_sub' and is_table(n.ast.value) and not n.meta.get('in_assert'):
            nodes.append(n)
            keys.append(n.ast.slice)
            miss += [e for e in g.succ[n.id] if e.label == 'exc']
            hit += [e for e in g.succ[n.id] if e.label != 'exc']
    for b in g.nodes:
        if b.kind != 'branch':
            continue
        t = resolve(g, b, b.meta['test'])
        none_edge = None
        call = None
        if isinstance(t, ast.Compare) and len(t.ops) == 1 and isinstance(t.comparators[0], ast.Constant) \
                and t.comparators[0].value is None and isinstance(t.ops[0], (ast.Is, ast.IsNot)):
            call = t.left
            none_edge = 'true' if isinstance(t.ops[0], ast.Is) else 'false'
        elif isinstance(t, ast.Call):
            call = t
            none_edge = 'false'
        elif isinstance(t, ast.Compare) and len(t.ops) == 1 and isinstance(t.ops[0], (ast.In, ast.NotIn)) and is_table(t.comparators[0]):
            nodes.append(b)
            keys.append(t.left)
            me = 'false' if isinstance(t.ops[0], ast.In) else 'true'
            miss += [e for e in g.succ[b.id] if e.label == me]
            hit += [e for e in g.succ[b.id] if e.label != me and e.label in ('true', 'false')]
            continue
        if isinstance(call, ast.Call) and isinstance(call.func, ast.Attribute) and call.func.attr == 'get' \
                and is_table(call.func.value) and 1 <= len(call.args) <= 2 and \
                (len(call.args) == 1 or (isinstance(call.args[1], ast.Constant) and call.args[1].value is None)):
            nodes.append(b)
            keys.append(call.args[0])
            miss += [e for e in g.succ[b.id] if e.label == none_edge]
            hit += [e for e in g.succ[b.id] if e.label != none_edge and e.label in ('true', 'false')]
    return nodes, miss, hit, keys


def expand_keywords(cfg: CFG, node: Node, call: ast.Call) -> Optional[Dict[str, ast.expr]]:
    """Keyword arguments of *call* with `**name` expanded when *name* resolves to a
    dict display / dict(k=v, ...) call.  None if some `**x` cannot be expanded."""
    out: Dict[str, ast.expr] = {}
    for k in call.keywords:
        if k.arg is not None:
            out[k.arg] = k.value
            continue
        v = resolve(cfg, node, k.value)
        if isinstance(v, ast.Name):
            cv = closure_value(cfg.scope, v.id)
            if cv is not None:
                v = cv
        if isinstance(v, ast.Call) and isinstance(v.func, ast.Name) and v.func.id == 'dict' and not v.args \
                and all(kk.arg is not None for kk in v.keywords):
            for kk in v.keywords:
                out[kk.arg] = kk.value
        elif isinstance(v, ast.Dict) and all(isinstance(x, ast.Constant) and isinstance(x.value, str) for x in v.keys):
            from .sym import simplify
            for x, val in zip(v.keys, v.values):
                if isinstance(val, ast.Subscript) and isinstance(val.slice, ast.Constant):
                    # a field of a record built here (`**rec._asdict()`): the expression the field was given
                    pv = simplify(resolve(cfg, node, val))
                    if isinstance(pv, ast.Subscript) and isinstance(pv.value, ast.Name):
                        cv = closure_value(cfg.scope, pv.value.id)      # the record is a variable of an enclosing function
                        if isinstance(cv, ast.Tuple):
                            pv = simplify(ast.Subscript(value=cv, slice=pv.slice, ctx=ast.Load()))
                    if not isinstance(pv, ast.Subscript):
                        val = pv
                out[x.value] = val
        else:
            return None
    return out


def closure_value(scope, name: str) -> Optional[ast.expr]:
    """Defining expression of a single-assignment variable of an enclosing function scope."""
    from .load import own_nodes
    s = scope
    while s is not None:
        if s.kind == 'function' and name in s.locals and name not in s.params:
            vals = []
            for n in own_nodes(s.node):
                if isinstance(n, (ast.Assign, ast.AnnAssign)):
                    tg = n.targets if isinstance(n, ast.Assign) else [n.target]
                    if any(isinstance(t, ast.Name) and t.id == name for t in tg) and n.value is not None:
                        vals.append(n.value)
            return vals[0] if len(vals) == 1 else None
        s = s.parent
    return None
